import MaltModel.Util.Sexp
import MaltModel.Generated.Ctx
/-
Model of the conversion-status context of malt (C16).  Executable; imports only the S-expression glue and its
generated table file.

Code modelled (read it side by side):

* `malt/core/ag_ctx.py`
    `stacks = threading.local()`; `_control_ctx()` returns the calling thread's list, created as
    `[ControlStatusCtx(UNSPECIFIED)]` on first use; `control_status_ctx()` is its last element;
    `ControlStatusCtx.__enter__` appends `self`; `__exit__` does
    `assert _control_ctx()[-1] is self; _control_ctx().pop()` whatever the exception in flight and
    returns `None` (so an exception in flight keeps propagating).
* `malt/operators/function_wrappers.py`
    `FunctionScope.__init__` creates `ControlStatusCtx(ENABLED, options)` iff `options.user_requested`;
    `__enter__` enters it iff `options.user_requested`; `__exit__` exits it iff `options.user_requested`;
    `with_function_scope(thunk, …)` is `with FunctionScope(…) as scope: return thunk(scope)`.
* `malt/impl/api.py`
    `do_not_convert(f).wrapper`      : `with ControlStatusCtx(DISABLED): return f(…)`
    `call_with_unspecified_conversion_status(f).wrapper` : same with `UNSPECIFIED`
    `convert(recursive, optional_features, user_requested, conversion_ctx)(f).wrapper` :
        `with conversion_ctx: return converted_call(f, args, kwargs, options=…)`
        (`conversion_ctx` is `NullCtx()` by default — entering it does nothing — or a given
        `ControlStatusCtx` *object*, the same object at every call and on every thread);
    `converted_call` : calls `f` as it is when `control_status_ctx().status == DISABLED`, otherwise
        converts `f`; the converted `f` runs its body inside `FunctionScope(…, options)` with
        `options.user_requested` = the wrapper's `user_requested`;
    `internal_convert(f, ctx, convert_by_default, user_requested)` : chooses one of the three wrappers
        from `ctx.status`, passing `ctx` on as `conversion_ctx`.
    Calls made *from* converted code go through `converted_call` with `caller_fn_scope.callopts`, whose
    `user_requested` is always `False` and whose `internal_convert_user_code` is the caller's `recursive`:
    autograph artifacts (every wrapper above, `to_graph` results, the harness' helpers) are called as they
    are; a plain user function is converted iff the current status is not DISABLED and `recursive` holds —
    and whether it is converted or not, no context is entered for it (`Kind.plain`).

Conversion mode.  Besides the context list the model tracks *how the running body was obtained*
(`Mode`): native, or converted with a given `recursive` flag.  It decides how the calls written in that
body are made (directly, or through `converted_call`), which is where the status is *consulted*.

Representation.  A thread's list is a `List Entry` with the **head as top** (Python appends at the
end).  An entry is an *identity* and a status: `fresh n` is the n-th context object this thread has
created, `shared k` a context object created by someone else and handed in (`conversion_ctx=`), `dflt`
the thread's default bottom entry.  Entering the same object twice puts the same identity on the list
twice — `__exit__`'s identity check then still succeeds, and the model has to (and does) show that.

A call tree (`Tree`) is what one thread executes: every node is one call of a (possibly wrapped)
function whose body observes the current context, calls its children in order, may raise `Boom` before
child `raiseAt` (or after the last child) and may catch `Boom` coming out of its try-block.  The
observation log is what the harness records on the real code with `ag_ctx.control_status_ctx()`.
-/
namespace Malt.Ctx

/- `Status` (the enum `ag_ctx.Status`) comes from `Generated/Ctx.lean`, regenerated from the source on every
run, together with the constants of the code this model uses literally: which status each wrapper
enters, `internal_convert`'s decision table, the status under which `converted_call` does not convert, and
whether each piece of code still has the statement shape described above.  `Props/C16` proves that the
literals below are those constants (`C16_code_constants`, `C16_code_internal_convert_table`,
`C16_code_shapes_recognised`), so a change in the code breaks a named theorem. -/

inductive CtxId where
  | dflt
  | fresh (n : Nat)
  | shared (k : Nat)
  deriving DecidableEq, Repr, Inhabited

structure Entry where
  id : CtxId
  status : Status
  deriving DecidableEq, Repr, Inhabited

/-- One thread's `stacks.control_status`, head = top (= Python's `[-1]`). -/
abbrev Stack := List Entry

/-- `_default_control_status_ctx()` in a one-element list. -/
def Stack.init : Stack := [⟨.dflt, .unspecified⟩]

/-- A context *object* given to `convert`/`internal_convert`: a fixed object, or "whatever
`control_status_ctx()` returns at the moment of wrapping" (the documented use of `internal_convert`). -/
inductive CtxRef where
  | obj (e : Entry)
  | current
  deriving DecidableEq, Repr

def CtxRef.get : CtxRef → Stack → Option Entry
  | .obj e, _ => some e
  | .current, stk => stk.head?

/-- How the code of the running body was obtained: the function as written, or malt's conversion of it
under options with the given `recursive` flag. -/
inductive Mode where
  | native
  | converted (recursive : Bool)
  | refused      -- not a way of running: the callee's function scope refuses the conversion options, the body is not reached
  deriving DecidableEq, Repr, Inhabited

def Mode.isConverted : Mode → Bool
  | .native => false
  | .converted _ => true
  | .refused => false

inductive Kind where
  | plain                                    -- f(…) written in the caller's body, f a plain user function
  | doNotConvert                             -- api.do_not_convert(f)(…)
  | unspecified                              -- api.call_with_unspecified_conversion_status(f)(…)
  | withCtx (st : Status) (src : Bool)       -- `with ag_ctx.ControlStatusCtx(st): f(…)`; src: the block is itself a plain
                                             --   user function g called from the caller's body (so g may get converted),
                                             --   else it sits in an autograph artifact (called as it is, f called natively)
  | functionScope (ur feat : Bool)           -- hand-written `with FunctionScope(…, options(user_requested=ur)): f(…)` or
                                             --   `with_function_scope(lambda scope: f(…), …)` in an artifact; f called natively
  | toGraph (rec : Bool) (viaLambda : Bool) (feat : Bool)
                                             -- to_graph(f, recursive=rec)(…): the body *is* converted code inside its
                                             --   FunctionScope(user_requested=True); viaLambda: f is `lambda …: g(…)` with g
                                             --   called natively, the observed body is g's
  | convert (ur rec feat : Bool) (c : Option CtxRef)
                                             -- api.convert(recursive=rec, user_requested=ur, optional_features=…, conversion_ctx=c)(f)(…);
                                             --   none = NullCtx()
                                             -- `feat`: the conversion options ask for an optional feature the function scope does not
                                             --   support (NAME_SCOPES, AUTO_CONTROL_DEPS, or ALL which implies them)
  | internalConvert (c : CtxRef) (cbd ur : Bool)  -- api.internal_convert(f, c, cbd, ur)(…)
  deriving DecidableEq, Repr

/-- Position of a node in its call tree: child indices, innermost first. -/
abbrev Path := List Nat

inductive Exn where
  | boom (origin : Path)      -- the harness' exception, raised by the node at `origin`
  | assertion                 -- `assert _control_ctx()[-1] is self` failed
  | index                     -- `[-1]` of an empty list
  | rejected                  -- AssertionError of `FunctionScope`: "… are not supported"
  deriving DecidableEq, Repr

inductive Tree where
  | node (kind : Kind) (kids : List Tree) (raiseAt : Option Nat) (catches : Bool)
  deriving Repr

inductive Point where
  | start | inn | pre (i : Nat) | post (i : Nat) | caught | out | fin
  deriving DecidableEq, Repr

/-- One call of `control_status_ctx()` by the harness: who asked (`owner` = path of the node whose body
asks), where in that body, and what was on top. -/
structure Obs where
  owner : Path
  pt : Point
  conv : Bool              -- the observing body is converted code
  top : Option Entry
  deriving DecidableEq, Repr

/-- What a thread owns: its context list and the number of context objects it has created. -/
structure TState where
  stack : Stack
  next : Nat
  deriving DecidableEq, Repr

def TState.init : TState := ⟨Stack.init, 0⟩

def push (e : Entry) (s : TState) : TState := { s with stack := e :: s.stack }

/-- `ControlStatusCtx.__exit__(exc…)` for the object `id`, with `o` the exception in flight (if any):
identity-checked pop; the result's second component is the exception in flight afterwards. -/
def exitCtx (id : CtxId) (o : Option Exn) (s : TState) : TState × Option Exn :=
  match s.stack with
  | [] => (s, some .index)
  | e :: rest => if e.id = id then ({ s with stack := rest }, o) else (s, some .assertion)

def obsAt (p : Path) (pt : Point) (m : Mode) (s : TState) : Obs := ⟨p, pt, m.isConverted, s.stack.head?⟩

/-! ## Big-step semantics of one thread -/

structure Res where
  st : TState
  out : Option Exn        -- `none`: returned; `some e`: `e` propagates to the caller
  log : List Obs
  deriving Repr

abbrev Comp := TState → Res

/-- `with <object e>: body` -/
def withEntry (e : Entry) (body : Comp) : Comp := fun s =>
  let r := body (push e s)
  let x := exitCtx e.id r.out r.st
  ⟨x.1, x.2, r.log⟩

/-- `with ControlStatusCtx(st): body` — a new object. -/
def withFresh (st : Status) (body : Comp) : Comp := fun s =>
  withEntry ⟨.fresh s.next, st⟩ body { s with next := s.next + 1 }

/-- `with FunctionScope(name, scope_name, options): body` where `ur = options.user_requested`. -/
def functionScope (ur : Bool) (body : Comp) : Comp :=
  if ur then withFresh .enabled body else body

/-- `__enter__` of a function scope, statement by statement (`Gen.fsEnterSteps`): the state, the identity of the
context object entered (if any) and whether a check refused the options (`feat`) — in which case `__enter__`
raises where it stands: what it has pushed stays, and `__exit__` will not be called. -/
def runEnter : List Gen.FsStep → Bool → Bool → TState → Option CtxId → TState × Option CtxId × Bool
  | [], _, _, s, pu => (s, pu, false)
  | .pushIfUr :: rest, ur, feat, s, pu =>
      if ur then runEnter rest ur feat (push ⟨.fresh s.next, .enabled⟩ { s with next := s.next + 1 }) (some (.fresh s.next))
      else runEnter rest ur feat s pu
  | .check :: rest, ur, feat, s, pu => if feat then (s, pu, true) else runEnter rest ur feat s pu
  | .unknown :: rest, ur, feat, s, pu => runEnter rest ur feat s pu

/-- `with FunctionScope(…, options): body` for a scope whose `__init__` and `__enter__` perform the given steps:
construction (a refusing check raises before anything is entered), entry, body, `__exit__` (only if entry
completed). -/
def scopeWith (init enter : List Gen.FsStep) (ur feat : Bool) (body : Comp) : Comp := fun s =>
  if feat && init.contains .check then ⟨s, some .rejected, []⟩ else
  match runEnter enter ur feat s none with
  | (s1, _, true) => ⟨s1, some .rejected, []⟩
  | (s1, pu, false) =>
      let r := body s1
      match pu with
      | none => r
      | some id => let x := exitCtx id r.out r.st; ⟨x.1, x.2, r.log⟩

/-- The function scope of the code under test: steps regenerated from `function_wrappers.py`.  With the pinned
code (all checks in `__init__`, `__enter__` = the conditional push) this is `functionScope ur body` when the
options are accepted and an immediate `rejected` otherwise (`fsWith_eq` in Proofs/C16). -/
def fsWith (ur feat : Bool) (body : Comp) : Comp := scopeWith Gen.fsInitSteps Gen.fsEnterSteps ur feat body

/-- A computation that depends on how its code was obtained. -/
abbrev MComp := Mode → Comp

/-- `converted_call(f, …, options)` as issued by `convert(recursive=rec, user_requested=ur).wrapper`
(`options.internal_convert_user_code` is true): `f` is converted — and then runs inside its
`FunctionScope` — unless the current status is DISABLED. -/
def convertedCall (ur rec feat : Bool) (body : MComp) : Comp := fun s =>
  match s.stack.head? with
  | none => ⟨s, some .index, []⟩
  | some e => if e.status = .disabled then body .native s else fsWith ur feat (body (.converted rec)) s

/-- Mode in which a plain user function runs when called from converted code whose options have
`recursive = rec`, the current context being `e`: `converted_call(f, …, caller_fn_scope)`. -/
def calleeMode (rec : Bool) (e : Entry) : Mode :=
  if e.status = .disabled then .native else if rec then .converted rec else .native

/-- `f(…)` written in a body running in mode `m`, `f` a plain user function (its own `FunctionScope`,
if it gets converted, has `user_requested = False` and enters nothing). -/
def plainCall (m : Mode) (body : MComp) : Comp := fun s =>
  match m with
  | .native => body .native s
  | .refused => body .native s
  | .converted rec =>
    match s.stack.head? with
    | none => ⟨s, some .index, []⟩
    | some e => body (calleeMode rec e) s

/-- `convert(recursive=rec, user_requested=ur, conversion_ctx=c)(f).wrapper`. -/
def convertW (ur rec feat : Bool) (c : Option CtxRef) (body : MComp) : Comp := fun s =>
  match c with
  | none => convertedCall ur rec feat body s
  | some r =>
    match r.get s.stack with
    | none => ⟨s, some .index, []⟩
    | some e => withEntry e (convertedCall ur rec feat body) s

/-- The wrapper `internal_convert` chooses for a context with the given entry. -/
def resolveInternal (e : Entry) (cbd ur : Bool) : Kind :=
  match e.status with
  | .enabled => .convert ur true false (some (.obj e))
  | .disabled => .doNotConvert
  | .unspecified => if cbd then .convert ur true false (some (.obj e)) else .unspecified

/-- The call of a node of kind `k` written in a body running in mode `m`; `b` is the callee's body. -/
def wrap : Kind → Mode → MComp → Comp
  | .plain, m, b => plainCall m b
  | .doNotConvert, _, b => withFresh .disabled (b .native)
  | .unspecified, _, b => withFresh .unspecified (b .native)
  | .withCtx st false, _, b => withFresh st (b .native)
  | .withCtx st true, m, b => plainCall m (fun m' => withFresh st (plainCall m' b))
  | .functionScope ur feat, _, b => fsWith ur feat (b .native)
  | .toGraph rec lam feat, _, b => fsWith true feat (b (if lam then .native else .converted rec))
  | .convert ur rec feat c, _, b => convertW ur rec feat c b
  | .internalConvert r cbd ur, _, b => fun s =>
      match r.get s.stack with
      | none => ⟨s, some .index, []⟩
      | some e =>
        match e.status with
        | .enabled => convertW ur true false (some (.obj e)) b s
        | .disabled => withFresh .disabled (b .native) s
        | .unspecified => if cbd then convertW ur true false (some (.obj e)) b s else withFresh .unspecified (b .native) s

/-- The body of a node at path `p`, running in mode `m`:
```
obs(in); try: <kids, raise point> except (Boom, scope refusal): (obs(caught) if catches else raise); obs(out)
```
In "mode" `refused` the body is not reached: the function scope around it refused the options. -/
def bodyCore (p : Path) (ca : Bool) (m : Mode) (kids : Comp) : Comp := fun s =>
  let r := kids s
  let o := obsAt p .inn m s
  match r.out with
  | none => ⟨r.st, none, o :: (r.log ++ [obsAt p .out m r.st])⟩
  | some (.boom b) =>
      if ca then ⟨r.st, none, o :: (r.log ++ [obsAt p .caught m r.st, obsAt p .out m r.st])⟩
      else ⟨r.st, some (.boom b), o :: r.log⟩
  | some .rejected =>
      if ca then ⟨r.st, none, o :: (r.log ++ [obsAt p .caught m r.st, obsAt p .out m r.st])⟩
      else ⟨r.st, some .rejected, o :: r.log⟩
  | some e => ⟨r.st, some e, o :: r.log⟩

def bodyC (p : Path) (ca : Bool) (m : Mode) (kids : Comp) : Comp := fun s =>
  if m = .refused then ⟨s, some .rejected, []⟩ else bodyCore p ca m kids s

mutual
/-- The call of the node `t` (wrapper included) written in a body running in mode `m`; `p` is the node's path. -/
def runNode : Tree → Path → Mode → Comp
  | .node k cs ra ca, p, m => wrap k m (fun m' => bodyC p ca m' (runKids cs p 0 ra m'))
/-- The try-block of the body at path `p` running in mode `m`: before child `i`: raise if `raiseAt = i`, else
`obs(pre i); child(); obs(post i)`; after the last child: raise if `raiseAt = i`. -/
def runKids : List Tree → Path → Nat → Option Nat → Mode → Comp
  | [], p, i, ra, _ => fun s => if ra = some i then ⟨s, some (.boom p), []⟩ else ⟨s, none, []⟩
  | c :: cs, p, i, ra, m => fun s =>
      if ra = some i then ⟨s, some (.boom p), []⟩ else
      let r := runNode c (i :: p) m s
      let o := obsAt p (.pre i) m s
      match r.out with
      | none =>
          let r2 := runKids cs p (i + 1) ra m r.st
          ⟨r2.st, r2.out, o :: (r.log ++ obsAt p (.post i) m r.st :: r2.log)⟩
      | some e => ⟨r.st, some e, o :: r.log⟩
end

/-- What a harness thread does: `obs(start); try: root() finally: obs(fin)`.  The runner is the
pseudo-body at path `[]` (native code), the root of the tree is its child 0. -/
def runThread (t : Tree) : Comp := fun s =>
  let r := runNode t [0] .native s
  ⟨r.st, r.out, obsAt [] .start .native s :: (r.log ++ [obsAt [] .fin .native r.st])⟩

/-! ## The state and mode in which a node's body starts

`inside k m s`: the thread state after the wrapper of kind `k`, called in state `s` from a body running in
mode `m`, has entered its contexts and is about to run the wrapped function's body, and the mode of that
body; `none` when the call fails before that (only possible on an empty context list).  When the callee's
function scope refuses the conversion options the "mode" is `refused` and the state is the one in which the
refusal is raised.  Used to *state* what `wrap` does (Props/C16). -/

def pushFresh (st : Status) (s : TState) : TState :=
  push ⟨.fresh s.next, st⟩ { s with next := s.next + 1 }

def insidePlainCall (m : Mode) (s : TState) : Option (TState × Mode) :=
  match m with
  | .native => some (s, .native)
  | .refused => some (s, .native)
  | .converted rec =>
    match s.stack.head? with
    | none => none
    | some e => some (s, calleeMode rec e)

/-- Accepted options: the scope enters its context iff user-requested; refused: nothing entered, body not reached. -/
def insideScope (ur feat : Bool) (mOk : Mode) (s : TState) : TState × Mode :=
  if feat then (s, .refused) else if ur then (pushFresh .enabled s, mOk) else (s, mOk)

def insideConvertedCall (ur rec feat : Bool) (s : TState) : Option (TState × Mode) :=
  match s.stack.head? with
  | none => none
  | some e =>
    if e.status = .disabled then some (s, .native)
    else some (insideScope ur feat (.converted rec) s)

def insideConvert (ur rec feat : Bool) (c : Option CtxRef) (s : TState) : Option (TState × Mode) :=
  match c with
  | none => insideConvertedCall ur rec feat s
  | some r =>
    match r.get s.stack with
    | none => none
    | some e => insideConvertedCall ur rec feat (push e s)

def inside : Kind → Mode → TState → Option (TState × Mode)
  | .plain, m, s => insidePlainCall m s
  | .doNotConvert, _, s => some (pushFresh .disabled s, .native)
  | .unspecified, _, s => some (pushFresh .unspecified s, .native)
  | .withCtx st false, _, s => some (pushFresh st s, .native)
  | .withCtx st true, m, s =>
      match insidePlainCall m s with
      | none => none
      | some (_, m') => insidePlainCall m' (pushFresh st s)
  | .functionScope ur feat, _, s => some (insideScope ur feat .native s)
  | .toGraph rec lam feat, _, s => some (insideScope true feat (if lam then .native else .converted rec) s)
  | .convert ur rec feat c, _, s => insideConvert ur rec feat c s
  | .internalConvert r cbd ur, _, s =>
      match r.get s.stack with
      | none => none
      | some e =>
        match e.status with
        | .enabled => insideConvert ur true false (some (.obj e)) s
        | .disabled => some (pushFresh .disabled s, .native)
        | .unspecified => if cbd then insideConvert ur true false (some (.obj e)) s else some (pushFresh .unspecified s, .native)

/-! ## Small-step machine of one thread, and interleavings

The same semantics as a machine with an explicit control stack, one primitive action on the thread's
context list per step at most, so that runs of several threads can be interleaved step by step. -/

inductive Frame where
  | start
  | fin
  | call (t : Tree) (p : Path) (m : Mode)                                       -- a call written in a body of mode `m`
  | cc (ur rec feat : Bool) (cs : List Tree) (ra : Option Nat) (ca : Bool) (p : Path) -- `converted_call` of a `convert` wrapper deciding
  | pc (m : Mode) (cs : List Tree) (ra : Option Nat) (ca : Bool) (p : Path)      -- call of a plain function from mode `m` deciding
  | inn (p : Path) (m : Mode)
  | kids (cs : List Tree) (p : Path) (i : Nat) (ra : Option Nat) (m : Mode)      -- rest of the try-block
  | post (p : Path) (i : Nat) (m : Mode)
  | handler (p : Path) (ca : Bool) (m : Mode)                                    -- `except Boom:` of body `p`
  | out (p : Path) (m : Mode)
  | exit (id : CtxId)                                                            -- pending `__exit__` of a `with`
  | reject                                                                       -- the function scope refuses its options
  deriving Repr

structure Cfg where
  ctrl : List Frame
  mode : Option Exn       -- `some e`: `e` is propagating (frames are being unwound)
  st : TState
  log : List Obs
  deriving Repr

def bodyFrames (cs : List Tree) (ra : Option Nat) (ca : Bool) (p : Path) (m : Mode) : List Frame :=
  if m = .refused then [.reject] else [.inn p m, .kids cs p 0 ra m, .handler p ca m, .out p m]

/-- Frames of `with ControlStatusCtx(st): <inner>` started in state `s`. -/
def freshFrames (st : Status) (inner : List Frame) (K : List Frame) (s : TState) (L : List Obs) : Cfg :=
  ⟨inner ++ .exit (.fresh s.next) :: K, none, push ⟨.fresh s.next, st⟩ { s with next := s.next + 1 }, L⟩

/-- Frames of `with FunctionScope(…): <body in mode mOk>` started in state `s` (the machine's `fsWith`). -/
def scopeFrames (ur feat : Bool) (mOk : Mode) (cs : List Tree) (ra : Option Nat) (ca : Bool) (p : Path)
    (K : List Frame) (s : TState) (L : List Obs) : Cfg :=
  if feat && Gen.fsInitSteps.contains .check then ⟨K, some .rejected, s, L⟩ else
  match runEnter Gen.fsEnterSteps ur feat s none with
  | (s1, _, true) => ⟨K, some .rejected, s1, L⟩
  | (s1, pu, false) =>
      match pu with
      | none => ⟨bodyFrames cs ra ca p mOk ++ K, none, s1, L⟩
      | some id => ⟨bodyFrames cs ra ca p mOk ++ .exit id :: K, none, s1, L⟩

def convertFrames (ur rec feat : Bool) (c : Option CtxRef) (cs : List Tree) (ra : Option Nat) (ca : Bool) (p : Path)
    (K : List Frame) (s : TState) (L : List Obs) : Cfg :=
  match c with
  | none => ⟨.cc ur rec feat cs ra ca p :: K, none, s, L⟩
  | some r =>
    match r.get s.stack with
    | none => ⟨K, some .index, s, L⟩
    | some e => ⟨.cc ur rec feat cs ra ca p :: .exit e.id :: K, none, push e s, L⟩

def callStep (k : Kind) (m : Mode) (cs : List Tree) (ra : Option Nat) (ca : Bool) (p : Path)
    (K : List Frame) (s : TState) (L : List Obs) : Cfg :=
  match k with
  | .plain => ⟨.pc m cs ra ca p :: K, none, s, L⟩
  | .doNotConvert => freshFrames .disabled (bodyFrames cs ra ca p .native) K s L
  | .unspecified => freshFrames .unspecified (bodyFrames cs ra ca p .native) K s L
  | .withCtx st false => freshFrames st (bodyFrames cs ra ca p .native) K s L
  | .withCtx st true =>
      match insidePlainCall m s with
      | none => ⟨K, some .index, s, L⟩
      | some (_, m') => freshFrames st [.pc m' cs ra ca p] K s L
  | .functionScope ur feat => scopeFrames ur feat .native cs ra ca p K s L
  | .toGraph rec lam feat => scopeFrames true feat (if lam then .native else .converted rec) cs ra ca p K s L
  | .convert ur rec feat c => convertFrames ur rec feat c cs ra ca p K s L
  | .internalConvert r cbd ur =>
      match r.get s.stack with
      | none => ⟨K, some .index, s, L⟩
      | some e => ⟨.call (.node (resolveInternal e cbd ur) cs ra ca) p m :: K, none, s, L⟩

/-- One step with no exception in flight; `f` is the frame on top of the control stack. -/
def stepOk (f : Frame) (K : List Frame) (s : TState) (L : List Obs) : Cfg :=
  match f with
  | .start => ⟨K, none, s, L ++ [obsAt [] .start .native s]⟩
  | .fin => ⟨K, none, s, L ++ [obsAt [] .fin .native s]⟩
  | .call (.node k cs ra ca) p m => callStep k m cs ra ca p K s L
  | .cc ur rec feat cs ra ca p =>
      match s.stack.head? with
      | none => ⟨K, some .index, s, L⟩
      | some e =>
        if e.status = .disabled then ⟨bodyFrames cs ra ca p .native ++ K, none, s, L⟩
        else scopeFrames ur feat (.converted rec) cs ra ca p K s L
  | .pc m cs ra ca p =>
      match insidePlainCall m s with
      | none => ⟨K, some .index, s, L⟩
      | some (_, m') => ⟨bodyFrames cs ra ca p m' ++ K, none, s, L⟩
  | .inn p m => ⟨K, none, s, L ++ [obsAt p .inn m s]⟩
  | .kids cs p i ra m =>
      if ra = some i then ⟨K, some (.boom p), s, L⟩ else
      match cs with
      | [] => ⟨K, none, s, L⟩
      | c :: cs' => ⟨.call c (i :: p) m :: .post p i m :: .kids cs' p (i + 1) ra m :: K, none, s, L ++ [obsAt p (.pre i) m s]⟩
  | .post p i m => ⟨K, none, s, L ++ [obsAt p (.post i) m s]⟩
  | .handler _ _ _ => ⟨K, none, s, L⟩
  | .out p m => ⟨K, none, s, L ++ [obsAt p .out m s]⟩
  | .exit id => let x := exitCtx id none s; ⟨K, x.2, x.1, L⟩
  | .reject => ⟨K, some .rejected, s, L⟩

/-- One step while `e` propagates: `__exit__`s run, a catching handler stops it, `fin` still observes,
every other frame is abandoned. -/
def stepExc (f : Frame) (K : List Frame) (e : Exn) (s : TState) (L : List Obs) : Cfg :=
  match f with
  | .exit id => let x := exitCtx id (some e) s; ⟨K, x.2, x.1, L⟩
  | .handler p ca m =>
      match e with
      | .boom _ => if ca then ⟨K, none, s, L ++ [obsAt p .caught m s]⟩ else ⟨K, some e, s, L⟩
      | .rejected => if ca then ⟨K, none, s, L ++ [obsAt p .caught m s]⟩ else ⟨K, some e, s, L⟩
      | _ => ⟨K, some e, s, L⟩
  | .fin => ⟨K, some e, s, L ++ [obsAt [] .fin .native s]⟩
  | _ => ⟨K, some e, s, L⟩

def step (c : Cfg) : Cfg :=
  match c.ctrl with
  | [] => c
  | f :: K =>
    match c.mode with
    | none => stepOk f K c.st c.log
    | some e => stepExc f K e c.st c.log

def iter : Nat → Cfg → Cfg
  | 0, c => c
  | n + 1, c => iter n (step c)

/-- The machine state in which a harness thread starts on tree `t`. -/
def Cfg.init (t : Tree) (s : TState) : Cfg := ⟨[.start, .call t [0] .native, .fin], none, s, []⟩

def Cfg.done (c : Cfg) : Bool := c.ctrl.isEmpty

abbrev Tid := Nat

/-- All threads.  Component `t` is everything thread `t` owns: its Python frames (control stack,
exception in flight), its `threading.local` slot `stacks.control_status` and its harness log.
That a thread reaches only its own slot of `stacks` is `threading.local`'s contract (trusted). -/
abbrev Global := Tid → Cfg

/-- Thread `t` performs one step. -/
def stepG (g : Global) (t : Tid) : Global := fun u => if u = t then step (g t) else g u

/-- Run a schedule (which thread moves next, step by step). -/
def runSched (g : Global) : List Tid → Global
  | [] => g
  | t :: σ => runSched (stepG g t) σ


/-! ## A checker for observation logs

Run by the harness on the logs of the REAL code (`c16.check`); `Props/C16` proves that every log the model
produces passes it, and what passing means.  It looks only at what the property talks about: which context
object (and status) each body saw at its observation points. -/

/-- The observations made by the body at path `p` itself (not by its callees). -/
def bodyLevel (p : Path) (l : List Obs) : List Obs := l.filter (fun o => o.owner = p)

/-- The context in effect where the `converted_call` of a `convert(conversion_ctx=c)` wrapper decides, the
caller's current context being `outer`. -/
def effectiveEntry (c : Option CtxRef) (outer : Option Entry) : Option Entry :=
  match c with
  | none => outer
  | some (.obj e) => some e
  | some .current => outer

/-- The status the property's text requires inside a node of kind `k` whose caller sees `outer`
(`none`: the text says nothing): DISABLED in a `do_not_convert` region; ENABLED in a user-requested
converted function — `to_graph(f)`, a `FunctionScope` with `user_requested`, and
`convert(user_requested=True)(f)` when conversion is not disabled where `converted_call` decides. -/
def requiredStatus (k : Kind) (outer : Option Entry) : Option Status :=
  match k with
  | .doNotConvert => some .disabled
  | .functionScope true _ => some .enabled
  | .toGraph _ _ _ => some .enabled
  | .convert true _ _ c =>
      match effectiveEntry c outer with
      | some e => if e.status = .disabled then none else some .enabled
      | none => none
  | _ => none

mutual
/-- In log `l`: the body at `p`, if it ran, saw one and the same context entry at all its observation points
(so every call it made restored the context, however that call ended), with the required status, and it is
not converted code running under DISABLED; and the same holds for all its descendants, whose caller's
context is that entry. -/
def checkNode : Tree → Path → Option Entry → List Obs → Bool
  | .node k cs _ _, p, outer, l =>
      match bodyLevel p l with
      | [] => true
      | o :: rest =>
          rest.all (fun o' => o'.top = o.top && o'.conv = o.conv) &&
          (match requiredStatus k outer with
           | none => true
           | some st => o.top.map (·.status) = some st) &&
          !(o.conv && o.top.map (·.status) = some .disabled) &&
          checkKids cs p 0 o.top l
def checkKids : List Tree → Path → Nat → Option Entry → List Obs → Bool
  | [], _, _, _, _ => true
  | c :: cs, p, i, outer, l => checkNode c (i :: p) outer l && checkKids cs p (i + 1) outer l
end

/-- The whole-thread check: the runner's observations before and after the root call (the one after is made
even when an exception escapes) report the same entry, and the tree rooted at path `[0]` is fine. -/
def checkThread (t : Tree) (l : List Obs) : Bool :=
  match bodyLevel [] l with
  | [] => false
  | o :: rest => rest.all (fun o' => o'.top = o.top) && checkNode t [0] o.top l

end Malt.Ctx
