import MaltModel.Util.Sexp
import MaltModel.Generated.Closure
/-!
# Rt.Closure — how a converted function gets its calling interface and environment (C09)

Model of `malt/pyct/transpiler.py`:

* `GenericTranspiler._erase_arg_defaults`           → `eraseDefaults`
* `converters/functions.py` decorator handling       → `functionsPassDecorators`
* what the passes do to the names a function refers to (only `converters/directives.py`
  deletes statements)                                → `convertEntity`
* `_wrap_into_factory` + `_PythonFnFactory.create`   → `create`, `factoryFreevars`, `entityFreevars`
* `_PythonFnFactory.instantiate`                     → `instantiate` (zip / dict / lookup / length check /
                                                        `if defaults:` literally)
* `PyToPy.transform_function`'s call of `instantiate` and `api._convert_actual` on bound methods
                                                     → `Callable`, `convertCallable`, `effectiveArgs`

## CPython facts that are PARAMETERS of this model (validated by the correspondence harness on every
run, not proved)

* **Free-variable resolution of the compiler** (`symtable.c`, `compile.c`): a name referenced in a
  function block and not bound there resolves to the nearest enclosing *function* block that binds it;
  the name then is a free variable of every block in between.  `co_freevars` of a code object has no
  duplicates and is sorted by name (`dictbytype` sorts the keys).  → `factoryFreevars`, `entityFreevars`,
  `sortDedup`.  A reference to `super` in a function counts as a use of `__class__`; the harness
  includes that implicit name in the reference lists it sends.
* **`types.FunctionType(code, globals, name, argdefs, closure)`**: the new function's `__globals__` *is*
  `globals`; `closure[i]` is the cell of `code.co_freevars[i]`.  Calling it runs `code` with those cells.
* **`def` statement**: a function created by a `def` executed in a frame whose globals are `G` has
  `__globals__ is G`; its `__defaults__` is `None` when the `def` has no positional defaults, otherwise
  the tuple of the *evaluated* default expressions; likewise `__kwdefaults__`; its closure consists of
  the enclosing frame's cells for the names in its `co_freevars`.  → `execDef`.
* **Function attributes through a bound method**: `m.__code__`, `m.__globals__`, `m.__closure__`,
  `m.__defaults__`, `m.__kwdefaults__` are those of `m.__func__`.  → `Callable.fn`.
* Names are represented by natural numbers: the harness numbers the names of a case by their rank in
  code-point order, so `<` on `Name` is the order CPython sorts `co_freevars` by.

Everything here is total and computable; no theorem lives in this file.
-/
namespace Malt.Closure

/-- A name, represented by its rank in code-point order among the names of the case. -/
abbrev Name := Nat
/-- Identity of a dict object (`__globals__`). -/
abbrev DictId := Nat
/-- Identity of an arbitrary Python object (default values). -/
abbrev ObjId := Nat
/-- The object `None`. -/
def noneObj : ObjId := 0

/-- Identity of a closure cell. -/
inductive Cell where
  /-- a cell that existed before `instantiate` ran (one of the source function's, or anybody's) -/
  | outer (id : Nat)
  /-- the cell the running inner factory creates for its own local `n` (its parameters — `ag__` — and
      the entity's name); fresh for every call of `instantiate`, shared with nothing of the user's -/
  | factoryLocal (n : Name)
  deriving DecidableEq, Repr

inductive Kind where
  | posOnly | posOrKw | varPos | kwOnly | varKw
  deriving DecidableEq, Repr

/-- A default-value expression inside an `ast.arguments`. -/
inductive DExpr where
  /-- one of the user's original expressions (identified by an index) -/
  | orig (id : Nat)
  /-- the constant `None` put there by `_erase_arg_defaults` -/
  | noneConst
  deriving DecidableEq, Repr

/-- `ast.arguments`, field by field. -/
structure Arguments where
  posonlyargs : List Name
  args : List Name
  vararg : Option Name
  kwonlyargs : List Name
  /-- aligned with `kwonlyargs`; `none` = no default -/
  kwDefaults : List (Option DExpr)
  kwarg : Option Name
  /-- defaults of the last `defaults.length` of `posonlyargs ++ args` -/
  defaults : List DExpr
  deriving DecidableEq, Repr

/-- `GenericTranspiler._erase_arg_defaults`: every positional default expression and every present
keyword-only default expression is overwritten by `None`; nothing else is touched. -/
def eraseDefaults (a : Arguments) : Arguments :=
  { a with
    defaults := a.defaults.map (fun _ => DExpr.noneConst)
    kwDefaults := a.kwDefaults.map (fun d => d.map (fun _ => DExpr.noneConst)) }

/-- Parameter names with their kinds, in signature order. -/
def Arguments.params (a : Arguments) : List (Name × Kind) :=
  a.posonlyargs.map (fun n => (n, Kind.posOnly)) ++ a.args.map (fun n => (n, Kind.posOrKw))
    ++ a.vararg.toList.map (fun n => (n, Kind.varPos))
    ++ a.kwonlyargs.map (fun n => (n, Kind.kwOnly)) ++ a.kwarg.toList.map (fun n => (n, Kind.varKw))

/-- Keyword-only parameters that have a default. -/
def Arguments.kwWithDefault (a : Arguments) : List Name :=
  (a.kwonlyargs.zip a.kwDefaults).filterMap (fun p => p.2.map (fun _ => p.1))

/-- Which parameters are optional: how many trailing positional ones, which keyword-only ones. -/
def Arguments.optionalShape (a : Arguments) : Nat × List Name := (a.defaults.length, a.kwWithDefault)

def DExpr.origId? : DExpr → Option Nat
  | .orig i => some i
  | .noneConst => none

/-- The user's default expressions that are evaluated when a `def` with these arguments is executed
(in order). -/
def Arguments.defEvalTrace (a : Arguments) : List Nat :=
  a.defaults.filterMap DExpr.origId? ++ a.kwDefaults.filterMap (fun d => d.bind DExpr.origId?)

/-- Value of a default expression; `reeval i` is the (new) object a fresh evaluation of the user's
expression `i` yields. -/
def evalD (reeval : Nat → ObjId) : DExpr → ObjId
  | .orig i => reeval i
  | .noneConst => noneObj

/-- `__defaults__` right after executing the `def`. -/
def Arguments.defDefaults (reeval : Nat → ObjId) (a : Arguments) : Option (List ObjId) :=
  if a.defaults.isEmpty then none else some (a.defaults.map (evalD reeval))

/-- `__kwdefaults__` right after executing the `def`. -/
def Arguments.defKwdefaults (reeval : Nat → ObjId) (a : Arguments) : Option (List (Name × ObjId)) :=
  let l := (a.kwonlyargs.zip a.kwDefaults).filterMap (fun p => p.2.map (fun e => (p.1, evalD reeval e)))
  if l.isEmpty then none else some l

/-- An attribute in a function's `__dict__`. -/
inductive Attr where
  | agModule | agSourceMap | autographInfo
  /-- anything the user (or `functools.wraps`: `__wrapped__`) put there -/
  | user (id : Nat)
  deriving DecidableEq, Repr

/-- A code object, as far as C09 is concerned. -/
structure Code where
  params : List (Name × Kind)
  /-- `co_freevars` -/
  freevars : List Name
  deriving DecidableEq, Repr

/-- A function object. -/
structure Fn where
  code : Code
  /-- `__closure__` (`()` for `None`); `closure[i]` is the cell of `code.freevars[i]` -/
  closure : List Cell
  /-- `__globals__` -/
  globals : DictId
  /-- `__defaults__`: `None` or a tuple of objects -/
  defaults : Option (List ObjId)
  /-- `__kwdefaults__`: `None` or a dict -/
  kwdefaults : Option (List (Name × ObjId))
  /-- `__name__` -/
  name : Name := 0
  /-- `__qualname__` as the path of enclosing definitions (the `<locals>` markers are implied) -/
  qualname : List Name := []
  /-- `__module__` (the `__name__` entry of the globals the defining frame ran with) -/
  module : Nat := 0
  /-- `__doc__`: identity of the docstring constant, if any -/
  doc : Option Nat := none
  /-- names of the attributes in `__dict__`, in insertion order -/
  dict : List Attr := []
  deriving DecidableEq, Repr

/-- The cell a function uses for its free name `x` (CPython: position of `x` in `co_freevars`). -/
def cellOf (f : Fn) (x : Name) : Option Cell := (f.code.freevars.zip f.closure).lookup x

/-- `None` and the empty tuple/dict both mean "no defaults" to the call machinery. -/
def normD {α : Type} : Option (List α) → List α
  | none => []
  | some l => l

/-! ### Reading and rebinding closed-over variables (what "sharing a cell" means) -/

/-- The contents of the cells: `none` = still unassigned (empty cell). -/
abbrev Store := Cell → Option ObjId

/-- `LOAD_DEREF`: reading free variable `x` in a frame of `f`.  `none` = NameError (no such free variable,
or its cell is still empty). -/
def readVar (σ : Store) (f : Fn) (x : Name) : Option ObjId := (cellOf f x).bind σ

/-- `STORE_DEREF`: rebinding free variable `x` from a frame of `f` (a `nonlocal x; x = v`). -/
def writeVar (σ : Store) (f : Fn) (x : Name) (v : ObjId) : Store :=
  match cellOf f x with
  | some c => fun c' => if c' = c then some v else σ c'
  | none => σ

/-- What decides which calls a function accepts and what unsupplied parameters are bound to: the
parameters, the positional defaults (aligned with the last positional parameters) and the keyword-only
defaults.  Argument binding is a function of this triple. -/
def Fn.callInterface (f : Fn) : List (Name × Kind) × List ObjId × List (Name × ObjId) :=
  (f.code.params, normD f.defaults, normD f.kwdefaults)

/-- Python truthiness of `None` / a tuple / a dict. -/
def truthy {α : Type} : Option (List α) → Bool
  | none => false
  | some [] => false
  | some (_ :: _) => true

/-! ## What the conversion does to the definition -/

/-- A decorator expression on a (possibly nested) function definition of the generated code. -/
inductive Deco where
  | user (id : Nat)
  | autographArtifact
  deriving DecidableEq, Repr

/-- `FunctionTransformer.visit_FunctionDef`: `level` is `self.state[_Function].level` inside the `with`
(2 for the function being converted, 3, 4, … for functions nested in it). -/
def functionsPassDecorators (level : Nat) (decos : List Deco) : List Deco :=
  if level ≤ 2 then [] else decos ++ [Deco.autographArtifact]

/-- An occurrence, in the body of the function being converted (nested scopes included), of a name the
function does not bind. `inDirective`: the occurrence lies in an expression statement that is a call of
`set_element_type` / `set_loop_options`, which `DirectivesTransformer.visit_Expr` deletes. -/
structure Occ where
  name : Name
  inDirective : Bool
  deriving DecidableEq, Repr

/-- What `parser.parse_entity` returns for the function, abstracted to what scoping depends on. -/
structure Src where
  args : Arguments
  /-- decorator expressions on the top-level definition -/
  decorators : List Nat
  /-- names occurring in parameter / return annotations, when annotations are evaluated at all
      (empty under `from __future__ import annotations` and for lambdas) -/
  annRefs : List Name
  occs : List Occ
  /-- `some n` when the entity is a lambda (`n` = the name `<lambda>`): the generated code is then
      `ag__lam = lambda …`, whose function object is again called `<lambda>` -/
  lambdaName : Option Name := none
  /-- identity of the docstring constant (kept as first statement by `FunctionTransformer.visit_FunctionDef`) -/
  doc : Option Nat := none
  deriving DecidableEq, Repr

/-- The function definition inside the generated module (output of `transform_ast`, renamed). -/
structure Entity where
  /-- `ctx.info.name` (`ag__f`) -/
  name : Name
  args : Arguments
  decorators : List Deco
  /-- names occurring in the definition's body (nested scopes included) that it does not bind -/
  bodyRefs : List Name
  /-- names evaluated when the `def` statement itself is executed, in the inner factory's scope
      (annotations; the decorators are gone and the defaults are `None`) -/
  defTimeRefs : List Name
  deriving DecidableEq, Repr

/-- `transform_function`: erase defaults, run the passes, rename.  The passes leave `args` alone, drop the
top-level decorators, delete directive statements and otherwise keep every occurrence of a name the
function does not bind; the generated code additionally refers to the extra locals (`ag__`). -/
def convertEntity (extraLocals : List Name) (newName : Name) (s : Src) : Entity :=
  { name := newName
    args := eraseDefaults s.args
    decorators := functionsPassDecorators 2 (s.decorators.map Deco.user)
    bodyRefs := (s.occs.filter (fun o => !o.inDirective)).map Occ.name ++ extraLocals
    defTimeRefs := s.annRefs ++ (if s.annRefs.isEmpty then [] else extraLocals) }

/-! ## CPython's `co_freevars` -/

def insertSorted (x : Name) : List Name → List Name
  | [] => [x]
  | y :: ys => if x < y then x :: y :: ys else if x = y then y :: ys else y :: insertSorted x ys

/-- Sorted, duplicate-free list of the members of `l`. -/
def sortDedup (l : List Name) : List Name := l.foldr insertSorted []

/-! ### The general rule (validated against `compile()` on random nestings of function scopes by the
`c09.scopes` correspondence); `factoryFreevars` / `entityFreevars` below are its instances for the
three-level nesting `outer_factory ⊃ inner_factory ⊃ entity` (`Props/C09.lean: C09_resolution_*`). -/

/-- A function scope: the names it binds (parameters, assignment / `def` / `for` targets, minus those it
declares `nonlocal` or `global`), the names it declares `global`, the names it mentions itself (loads,
`nonlocal` declarations, the implicit `__class__` of `super`), and the function scopes nested in it. -/
inductive Scope where
  | mk (bound : List Name) (globalDecls : List Name) (uses : List Name) (children : List Scope)

mutual
/-- Names mentioned in the scope or below that the scope does not resolve itself. -/
def Scope.freeNames : Scope → List Name
  | .mk bound gl uses children =>
    (Scope.freeNamesList children ++ uses).filter (fun x => !decide (x ∈ bound) && !decide (x ∈ gl))
def Scope.freeNamesList : List Scope → List Name
  | [] => []
  | s :: ss => s.freeNames ++ Scope.freeNamesList ss
end

/-- `co_freevars` of the scope's code object; `env` = the names bound by enclosing *function* scopes (and
not cut off by a `global` declaration on the way). -/
def Scope.coFreevars (env : List Name) (s : Scope) : List Name :=
  sortDedup (s.freeNames.filter (fun x => decide (x ∈ env)))

/-- The environment the scope passes to its children. -/
def Scope.childEnv (env : List Name) : Scope → List Name
  | .mk bound gl _ _ => env.filter (fun x => !decide (x ∈ gl)) ++ bound

mutual
/-- `co_freevars` of every code object of the nesting, in preorder. -/
def Scope.allFreevars (env : List Name) : Scope → List (List Name)
  | .mk bound gl uses children =>
    Scope.coFreevars env (.mk bound gl uses children)
      :: Scope.allFreevarsList (env.filter (fun x => !decide (x ∈ gl)) ++ bound) children
def Scope.allFreevarsList (env : List Name) : List Scope → List (List Name)
  | [] => []
  | s :: ss => s.allFreevars env ++ Scope.allFreevarsList env ss
end

/-- Names local to the inner factory: its parameters and the entity it defines. -/
def innerBound (extraLocals : List Name) (entityName : Name) : List Name := extraLocals ++ [entityName]

/-- Names local to the outer factory: one dummy `x = None` per requested closure variable, and the inner
factory's `def`. -/
def outerBound (declared : List Name) (innerFactoryName : Name) : List Name := declared ++ [innerFactoryName]

/-- `co_freevars` of the inner factory's code: the names referenced inside it (by the entity's body, or
when executing the entity's `def`) that it does not bind itself and that the outer factory binds. -/
def factoryFreevars (declared : List Name) (innerFactoryName : Name) (extraLocals : List Name) (e : Entity) :
    List Name :=
  sortDedup ((e.bodyRefs ++ e.defTimeRefs).filter (fun x =>
    decide (x ∈ outerBound declared innerFactoryName) && !decide (x ∈ innerBound extraLocals e.name)))

/-- `co_freevars` of the entity's code: the names its body refers to that resolve to either factory. -/
def entityFreevars (declared : List Name) (innerFactoryName : Name) (extraLocals : List Name) (e : Entity) :
    List Name :=
  sortDedup (e.bodyRefs.filter (fun x =>
    decide (x ∈ innerBound extraLocals e.name) || decide (x ∈ outerBound declared innerFactoryName)))

/-- The inner factory of the generated module as a scope: binds its parameters and the entity, evaluates the
entity's `def`-time expressions and `return`s the entity; `entityScope` is the entity's own scope tree. -/
def innerFactoryScope (extraLocals : List Name) (e : Entity) (entityScope : Scope) : Scope :=
  .mk (innerBound extraLocals e.name) [] (e.defTimeRefs ++ [e.name]) [entityScope]

/-- The outer factory: binds one dummy per declared closure variable and the inner factory, returns the latter. -/
def outerFactoryScope (declared : List Name) (innerFactoryName : Name) (extraLocals : List Name) (e : Entity)
    (entityScope : Scope) : Scope :=
  .mk (outerBound declared innerFactoryName) [] [innerFactoryName] [innerFactoryScope extraLocals e entityScope]

/-! ## `_PythonFnFactory` -/

/-- A `_PythonFnFactory` after `create`. -/
structure Factory where
  /-- `self._name` -/
  name : Name
  /-- `self._freevars` (the `co_freevars` of the function the factory was created for) -/
  freevars : List Name
  /-- `self._extra_locals.keys()` -/
  extraLocals : List Name
  /-- `self._unbound_factory.__code__.co_freevars` -/
  codeFreevars : List Name
  /-- the definition the inner factory executes and returns -/
  entity : Entity
  /-- `co_freevars` of the entity's code object -/
  entityFreevars : List Name
  deriving DecidableEq, Repr

/-- `_PythonFnFactory(name, freevars, extra_locals).create(nodes, namer)`. -/
def create (freevars : List Name) (extraLocals : List Name) (innerFactoryName : Name) (e : Entity) : Factory :=
  { name := e.name
    freevars := freevars
    extraLocals := extraLocals
    codeFreevars := factoryFreevars freevars innerFactoryName extraLocals e
    entity := e
    entityFreevars := entityFreevars freevars innerFactoryName extraLocals e }

inductive Err where
  /-- `closure_map[name]` failed -/
  | keyError (n : Name)
  /-- `ValueError('closure mismatch, requested …, but source function had …')` -/
  | closureMismatch
  /-- executing the entity's `def` in the inner factory hit an unresolvable name -/
  | nameError (n : Name)
  /-- the statement list of `instantiate` is not one this model can interpret (a statement is missing, out of
      order, or of an unknown form) -/
  | protocol
  deriving DecidableEq, Repr

deriving instance DecidableEq for Except

/-- `dict(pairs)[k]`: the LAST pair with key `k` wins. -/
def dictGet : List (Name × Cell) → Name → Option Cell
  | [], _ => none
  | (k', v) :: rest, k =>
    match dictGet rest k with
    | some w => some w
    | none => if k' = k then some v else none

/-- `tuple(closure_map[name] for name in names)`. -/
def lookupAll (m : List (Name × Cell)) : List Name → Except Err (List Cell)
  | [] => .ok []
  | n :: ns =>
    match dictGet m n with
    | none => .error (.keyError n)
    | some c =>
      match lookupAll m ns with
      | .error e => .error e
      | .ok cs => .ok (c :: cs)

/-- First name of `l` that fails `p`. -/
def firstBad (p : Name → Bool) : List Name → Option Name
  | [] => none
  | x :: xs => if p x then firstBad p xs else some x

/-- Executing the entity's `def` inside the running inner factory (whose free variables are bound to
`factoryClosure`, whose globals are `globals`) and returning the function.  `reeval i` is the object a
fresh evaluation of the user's default expression `i` would give (a theorem shows it is never used). -/
def execDef (reeval : Nat → ObjId) (fac : Factory) (factoryClosure : List Cell) (globals : DictId) : Fn :=
  { code := { params := fac.entity.args.params, freevars := fac.entityFreevars }
    closure := fac.entityFreevars.map (fun n =>
      match (fac.codeFreevars.zip factoryClosure).lookup n with
      | some c => c
      | none => Cell.factoryLocal n)
    globals := globals
    defaults := fac.entity.args.defDefaults reeval
    kwdefaults := fac.entity.args.defKwdefaults reeval }

/-- `_PythonFnFactory.instantiate(globals_, closure, defaults, kwdefaults)`.
`moduleNames`: the keys of `globals_` and of `builtins` (what a global lookup can resolve). -/
def instantiate (reeval : Nat → ObjId) (fac : Factory) (moduleNames : List Name) (globals : DictId)
    (closure : List Cell)
    (defaults : Option (List ObjId)) (kwdefaults : Option (List (Name × ObjId))) : Except Err Fn :=
  -- closure_map = dict(zip(self._freevars, closure))
  let closureMap := fac.freevars.zip closure
  -- factory_closure = tuple(closure_map[name] for name in factory_code.co_freevars)
  match lookupAll closureMap fac.codeFreevars with
  | .error e => .error e
  | .ok factoryClosure =>
    -- if len(factory_closure) != len(closure): raise ValueError
    if factoryClosure.length ≠ closure.length then .error .closureMismatch
    else
      -- bound_factory = types.FunctionType(code, globals_, name, (), factory_closure);
      -- new_fn = bound_factory(**self._extra_locals)
      match firstBad (fun x => decide (x ∈ innerBound fac.extraLocals fac.entity.name)
                        || decide (x ∈ fac.codeFreevars) || decide (x ∈ moduleNames)) fac.entity.defTimeRefs with
      | some n => .error (.nameError n)
      | none =>
        let newFn := execDef reeval fac factoryClosure globals
        -- if defaults: new_fn.__defaults__ = defaults
        let newFn := if truthy defaults then { newFn with defaults := defaults } else newFn
        -- if kwdefaults: new_fn.__kwdefaults__ = kwdefaults
        let newFn := if truthy kwdefaults then { newFn with kwdefaults := kwdefaults } else newFn
        .ok newFn

/-! ## The protocol statement by statement

`Generated/Closure.lean: instantiateStmts` is the body of `_PythonFnFactory.instantiate` as the translator reads
it off the working tree.  `runStmts` interprets such a list; `Props/C09.lean: C09_protocol_refines` proves that
interpreting the extracted list is `instantiate` above, so a statement dropped from / added to the source breaks
that theorem (and the per-statement theorems `C09_stmt_*`) by name. -/

open Malt.Gen.Closure in
/-- The local variables of a running `instantiate`. -/
structure ProtoState where
  created : Bool := false
  /-- `closure_map` -/
  closureMap : Option (List (Name × Cell)) := none
  /-- `factory_closure` -/
  factoryClosure : Option (List Cell) := none
  /-- `bound_factory`: the globals and closure it was given -/
  bound : Option (DictId × List Cell) := none
  /-- `new_fn` -/
  newFn : Option Fn := none
  /-- the value returned -/
  returned : Option Fn := none

open Malt.Gen.Closure in
/-- One statement of `instantiate`. -/
def stepStmt (reeval : Nat → ObjId) (fac : Factory) (moduleNames : List Name) (globals : DictId)
    (closure : List Cell) (defaults : Option (List ObjId)) (kwdefaults : Option (List (Name × ObjId)))
    (st : ProtoState) : Stmt → Except Err ProtoState
  | .guardCreated => .ok { st with created := true }
  | .bookkeeping => .ok st
  | .closureMap => .ok { st with closureMap := some (fac.freevars.zip closure) }
  | .matchCells .byName =>
    match st.closureMap with
    | none => .error .protocol
    | some m =>
      match lookupAll m fac.codeFreevars with
      | .error e => .error e
      | .ok fc => .ok { st with factoryClosure := some fc }
  | .lengthCheck =>
    match st.factoryClosure with
    | none => .error .protocol
    | some fc => if fc.length ≠ closure.length then .error .closureMismatch else .ok st
  | .bindFactory .factoryCode .param .empty .factoryClosure =>
    match st.factoryClosure with
    | none => .error .protocol
    | some fc => .ok { st with bound := some (globals, fc) }
  | .callFactory true =>
    match st.bound with
    | none => .error .protocol
    | some (g, fc) =>
      match firstBad (fun x => decide (x ∈ innerBound fac.extraLocals fac.entity.name)
                        || decide (x ∈ fac.codeFreevars) || decide (x ∈ moduleNames)) fac.entity.defTimeRefs with
      | some n => .error (.nameError n)
      | none => .ok { st with newFn := some (execDef reeval fac fc g) }
  | .restoreDefaults .truthy .param =>
    match st.newFn with
    | none => .error .protocol
    | some f => .ok { st with newFn := some (if truthy defaults then { f with defaults := defaults } else f) }
  | .restoreKwdefaults .truthy .param =>
    match st.newFn with
    | none => .error .protocol
    | some f => .ok { st with newFn := some (if truthy kwdefaults then { f with kwdefaults := kwdefaults } else f) }
  | .returnNewFn =>
    match st.newFn with
    | none => .error .protocol
    | some f => .ok { st with returned := some f }
  | _ => .error .protocol

open Malt.Gen.Closure in
def runStmts (reeval : Nat → ObjId) (fac : Factory) (moduleNames : List Name) (globals : DictId)
    (closure : List Cell) (defaults : Option (List ObjId)) (kwdefaults : Option (List (Name × ObjId))) :
    List Stmt → ProtoState → Except Err ProtoState
  | [], st => .ok st
  | s :: ss, st =>
    match stepStmt reeval fac moduleNames globals closure defaults kwdefaults st s with
    | .error e => .error e
    | .ok st' => runStmts reeval fac moduleNames globals closure defaults kwdefaults ss st'

open Malt.Gen.Closure in
/-- `instantiate`, by interpreting a statement list. -/
def instantiateBy (stmts : List Stmt) (reeval : Nat → ObjId) (fac : Factory) (moduleNames : List Name)
    (globals : DictId) (closure : List Cell) (defaults : Option (List ObjId))
    (kwdefaults : Option (List (Name × ObjId))) : Except Err Fn :=
  match runStmts reeval fac moduleNames globals closure defaults kwdefaults stmts {} with
  | .error e => .error e
  | .ok st =>
    match st.returned with
    | some f => .ok f
    | none => .error .protocol

/-- The statement list this model's `instantiate` is the meaning of. -/
def modelledStmts : List Malt.Gen.Closure.Stmt :=
  [.guardCreated, .bookkeeping, .bookkeeping, .closureMap, .matchCells .byName, .lengthCheck,
   .bindFactory .factoryCode .param .empty .factoryClosure, .callFactory true,
   .restoreDefaults .truthy .param, .restoreKwdefaults .truthy .param, .returnNewFn]

/-! ## Entry points: functions and bound methods -/

/-- What `transform` accepts (`inspect.isfunction(obj) or inspect.ismethod(obj)`). -/
inductive Callable where
  | function (f : Fn)
  | boundMethod (self : ObjId) (f : Fn)
  deriving DecidableEq, Repr

/-- The object whose `__code__`, `__globals__`, `__closure__`, `__defaults__`, `__kwdefaults__`
`transform_function` reads: a bound method forwards all of them to `__func__`. -/
def Callable.fn : Callable → Fn
  | .function f => f
  | .boundMethod _ f => f

/-- `PyToPy.transform_function(fn)` after the factory lookup:
`factory.instantiate(fn.__globals__, fn.__closure__ or (), fn.__defaults__, fn.__kwdefaults__)`. -/
def convertCallable (reeval : Nat → ObjId) (fac : Factory) (moduleNames : List Name) (c : Callable) :
    Except Err Fn :=
  instantiate reeval fac moduleNames c.fn.globals c.fn.closure c.fn.defaults c.fn.kwdefaults

/-- `converted_call`: `effective_args = (f.__self__,) + args` for a bound method. -/
def effectiveArgs (c : Callable) (args : List ObjId) : List ObjId :=
  match c with
  | .function _ => args
  | .boundMethod s _ => s :: args

/-- The whole of `transform_function` on a cache miss: describe, convert, create, instantiate. -/
def transformFunction (reeval : Nat → ObjId) (extraLocals : List Name) (newName innerFactoryName : Name)
    (moduleNames : List Name) (s : Src) (c : Callable) : Except Err Fn :=
  convertCallable reeval (create c.fn.code.freevars extraLocals innerFactoryName (convertEntity extraLocals newName s))
    moduleNames c

/-! ## Bound objects: what `api.converted_call` unwraps before converting

`converted_call(f, args, kwargs)`: a `functools.partial` is unwrapped (its positional arguments go first, its
keywords are updated by the call's) and the checks are redone on `f.func`; a function or bound method is the
conversion target itself, a bound method's `__self__` (instance, or class for a classmethod) being prepended to
the arguments; any other object with a `__call__` on its class has `type(f).__call__` converted and is passed
first.  A staticmethod attribute is a plain function.  The converted target is then called with the effective
arguments. -/

/-- What can be handed to `converted_call` / `malt.convert`. -/
inductive PyCallable where
  | function (f : Fn)
  | boundMethod (self : ObjId) (f : Fn)
  | partialOf (inner : PyCallable) (args : List ObjId) (keywords : List (Name × ObjId))
  | callableObject (obj : ObjId) (call : Fn)
  /-- builtins, C functions, … : never converted -/
  | other (id : ObjId)
  deriving Repr

/-- `d = base.copy(); d.update(upd)`: present keys keep their position and take the new value, new keys are appended. -/
def dictUpdate (base upd : List (Name × ObjId)) : List (Name × ObjId) :=
  upd.foldl (fun acc p =>
    if acc.any (fun q => q.1 == p.1) then acc.map (fun q => if q.1 == p.1 then (q.1, p.2) else q) else acc ++ [p]) base

/-- The conversion target and the arguments the converted target is called with. -/
structure Unwrapped where
  target : Option Fn
  args : List ObjId
  kwargs : List (Name × ObjId)
  deriving Repr

/-- The unwrapping done by `converted_call`. -/
def unwrap : PyCallable → List ObjId → List (Name × ObjId) → Unwrapped
  | .function f, a, k => ⟨some f, a, k⟩
  | .boundMethod s f, a, k => ⟨some f, s :: a, k⟩
  | .partialOf c pa pk, a, k => unwrap c (pa ++ a) (dictUpdate pk k)
  | .callableObject o call, a, k => ⟨some call, o :: a, k⟩
  | .other _, a, k => ⟨none, a, k⟩

/-- Python's own meaning of `c(*a, **k)`, as the chain of calls it performs: every step is `(callee, args, kwargs)`;
`functools.partial.__call__` calls `self.func(*self.args, *args, **{**self.keywords, **kwargs})`, a bound method calls
`__func__(__self__, *args)`, an object calls `type(obj).__call__(obj, *args)`. The last step is the function that
finally runs. -/
def pyCallChain : PyCallable → List ObjId → List (Name × ObjId) → List (PyCallable × List ObjId × List (Name × ObjId))
  | .function f, a, k => [(.function f, a, k)]
  | .boundMethod s f, a, k => [(.boundMethod s f, a, k), (.function f, s :: a, k)]
  | .partialOf c pa pk, a, k => (.partialOf c pa pk, a, k) :: pyCallChain c (pa ++ a) (dictUpdate pk k)
  | .callableObject o call, a, k => [(.callableObject o call, a, k), (.function call, o :: a, k)]
  | .other i, a, k => [(.other i, a, k)]

/-- Wrap a callable in a chain of partials (innermost first). -/
def wrapPartials (c : PyCallable) : List (List ObjId × List (Name × ObjId)) → PyCallable
  | [] => c
  | (pa, pk) :: rest => wrapPartials (.partialOf c pa pk) rest

/-- Positional binding: the positional-capable parameters paired with the positional arguments, in order. -/
def bindPositional (params : List (Name × Kind)) (args : List ObjId) : List (Name × ObjId) :=
  ((params.filter (fun p => p.2 == Kind.posOnly || p.2 == Kind.posOrKw)).map Prod.fst).zip args

/-! ## Name, qualified name, module, docstring, `__dict__` of the result

What executing `def ag__f(…)` / `ag__lam = lambda …` inside `outer_factory.<locals>.inner_factory` gives
(CPython: `__module__` is the `__name__` entry of the globals of the defining frame — here the globals passed to
`types.FunctionType`, i.e. the source function's), followed by `api._convert_actual` (`ag_module`,
`ag_source_map`) and `to_graph` (`autograph_artifact`).  The docstring is re-emitted with the generated module's
indentation: `doc` identifies it up to what `inspect.cleandoc` removes. -/

/-- `modName g`: the `__name__` entry of the dict `g`. -/
def defMeta (modName : DictId → Nat) (outerFactoryName innerFactoryName newName : Name) (s : Src) (g : Fn) : Fn :=
  { g with
    name := s.lambdaName.getD newName
    qualname := [outerFactoryName, innerFactoryName, s.lambdaName.getD newName]
    module := modName g.globals
    doc := s.doc
    dict := [] }

def convertActualMeta (g : Fn) : Fn := { g with dict := g.dict ++ [Attr.agModule, Attr.agSourceMap] }

def toGraphMeta (g : Fn) : Fn := { g with dict := g.dict ++ [Attr.autographInfo] }

/-- `malt.to_graph(entity)` on a cache miss, through the extracted statement list. -/
def toGraph (modName : DictId → Nat) (reeval : Nat → ObjId) (extraLocals : List Name)
    (newName innerFactoryName outerFactoryName : Name) (moduleNames : List Name) (s : Src) (c : Callable) :
    Except Err Fn :=
  match instantiateBy Malt.Gen.Closure.instantiateStmts reeval
      (create c.fn.code.freevars extraLocals innerFactoryName (convertEntity extraLocals newName s))
      moduleNames c.fn.globals c.fn.closure c.fn.defaults c.fn.kwdefaults with
  | .error e => .error e
  | .ok g => .ok (toGraphMeta (convertActualMeta (defMeta modName outerFactoryName innerFactoryName newName s g)))

/-! ## Class predicates of the known deviations (negations of hypotheses of the `_partial` theorems) -/

/-- Some free variable of the function is referenced only inside directive statements (so the generated
code no longer mentions it). -/
def directiveOnlyFreevar (s : Src) (freevars : List Name) : Bool :=
  freevars.any (fun x => !decide (x ∈ (s.occs.filter (fun o => !o.inDirective)).map Occ.name)
                          && !decide (x ∈ s.annRefs))

/-- The source has default expressions, but the function object's `__defaults__` / `__kwdefaults__` was
emptied after definition (falsy), so `instantiate` does not overwrite the `None`s. -/
def defaultsCleared (s : Src) (f : Fn) : Bool :=
  (!truthy f.defaults && !s.args.defaults.isEmpty) || (!truthy f.kwdefaults && !s.args.kwWithDefault.isEmpty)

/-- An evaluated annotation names something that is neither a free variable of the function nor
resolvable as a global / builtin (it lives only in the enclosing function's frame). -/
def annotationUnresolvable (s : Src) (freevars moduleNames : List Name) : Bool :=
  s.annRefs.any (fun x => !decide (x ∈ freevars) && !decide (x ∈ moduleNames))

/-! ## Why an entity is outside the proved fragment (`c09.why`)

The hypotheses of `C09_interface_partial`, as one executable classifier.  The first five tags are not
properties of the *program*: `params`, `freevarsDup`, `closureLen`, `freeUnreferenced` say the description sent
by the harness is not a description of a CPython function object (they never fire on a real function), and
`nameCollision` is the side condition owned by C11 (a user name equal to a generated name).  The last three are
the finding classes. -/
inductive Why where
  | params | freevarsDup | closureLen | freeUnreferenced | nameCollision
  | directiveOnly | annotation | cleared
  deriving DecidableEq, Repr

/-- `Describes s f` as tags. -/
def describesWhy (s : Src) (f : Fn) : List Why :=
  (if f.code.params = s.args.params then [] else [Why.params])
  ++ (if f.code.freevars.Nodup then [] else [Why.freevarsDup])
  ++ (if f.closure.length = f.code.freevars.length then [] else [Why.closureLen])
  ++ (if f.code.freevars.all (fun x => decide (x ∈ s.occs.map Occ.name)) then [] else [Why.freeUnreferenced])

/-- `FreshNames` as a Bool. -/
def freshNamesB (freevars extra : List Name) (inner : Name) (e : Entity) : Bool :=
  (innerBound extra e.name).all (fun x => !decide (x ∈ freevars))
    && !decide (inner ∈ e.bodyRefs) && !decide (inner ∈ e.defTimeRefs)

/-- All reasons why the entity is outside the proved fragment; `[]` = inside. -/
def why (extra : List Name) (newName inner : Name) (M : List Name) (s : Src) (c : Callable) : List Why :=
  describesWhy s c.fn
  ++ (if freshNamesB c.fn.code.freevars extra inner (convertEntity extra newName s) then [] else [Why.nameCollision])
  ++ (if directiveOnlyFreevar s c.fn.code.freevars then [Why.directiveOnly] else [])
  ++ (if annotationUnresolvable s c.fn.code.freevars M then [Why.annotation] else [])
  ++ (if defaultsCleared s c.fn then [Why.cleared] else [])

/-- The tags that are finding classes. -/
def Why.isFindingClass : Why → Bool
  | .directiveOnly | .annotation | .cleared => true
  | _ => false

/-! ## What this model hard-codes about the source text

`Generated/Closure.lean` (rewritten from the working tree by `tools/extract_closure.py` on every run)
records the shape of the modelled code; `Props/C09.lean: C09_source_shape` proves it equals this record, so
an edit of the anchored code that the model does not follow makes that theorem fail to compile. -/
def modelledShape : Malt.Gen.Closure.Shape :=
  { -- `_wrap_into_factory`: `x = None` per closure variable in the OUTER factory, before the inner `def`
    -- (=> `outerBound`), the entity inside the inner factory whose parameters are the factory args
    -- (=> `innerBound`), `return entity` / `return inner_factory`
    dummyIsNoneAssign := true, dummiesInOuterBeforeInner := true, entityInInner := true,
    innerReturnsEntity := true, outerReturnsInner := true, outerNiladic := true,
    innerParamsAreFactoryArgs := true, dummiesPerClosureVar := true,
    -- `create`: declared = `self._freevars`, factory args = `self._extra_locals.keys()`
    createDeclaresSelfFreevars := true, createArgsAreExtraLocalKeys := true,
    -- `instantiate`: `dict(zip(self._freevars, closure))[name] for name in factory_code.co_freevars`
    -- (=> `lookupAll (fac.freevars.zip closure) fac.codeFreevars`), the length check, FunctionType arguments
    cellMatch := .byName, lengthCheck := true, ftGlobals := .param, ftClosure := .factoryClosure,
    ftArgdefs := .empty, ftCode := .factoryCode, callsWithExtraLocals := true,
    -- `if defaults: new_fn.__defaults__ = defaults` (=> `truthy`)
    defaultsGuard := .truthy, kwdefaultsGuard := .truthy, defaultsValue := .param, kwdefaultsValue := .param,
    -- `transform_function`: `_PythonFnFactory(ctx.info.name, fn.__code__.co_freevars, …)`,
    -- `instantiate(fn.__globals__, fn.__closure__ or (), fn.__defaults__, fn.__kwdefaults__)` (=> `convertCallable`)
    factoryFreevarsFromCode := true, factoryNameIsCtxName := true, instGlobals := true, instClosure := true,
    instDefaults := true, instKwdefaults := true,
    -- `_erase_arg_defaults` (=> `eraseDefaults`), run before `transform_ast`
    erasePositionalAll := true, eraseKwonlyPresent := true, eraseBeforeTransformAst := true,
    -- `visit_FunctionDef` (=> `functionsPassDecorators`)
    decoratorDropLevel := 2, nestedAppendsArtifact := true,
    -- `converted_call` / `transform` on bound methods (=> `effectiveArgs`, `Callable.fn`)
    methodSelfPrepended := true, transformAcceptsMethods := true }

end Malt.Closure
