/-
C11 — abstract model of HOW THE CONVERSION USES THE NAMER (import-free apart from model files).

A conversion of a user function is, as far as names are concerned, a sequence of requests
`new_symbol(root_i, reserved_i)` against one `Namer` whose namespace is the function's globals + closure:

  * `transpiler`-level requests (malt/pyct/transpiler.py): `ag__<fname>` first, `inner_factory`, `outer_factory`
    last; they reserve NOTHING (`()`), so they only avoid the namespace and earlier generated names.  The names
    they produce live in scopes that ENCLOSE the converted function (module → outer factory → inner factory), so
    user code sees them exactly through names that are free in the function.
  * `converter`-level requests (malt/converters/*.py): each reserves `<scope>.referenced` of the scope at the call
    site — the names READ in that scope and its parents.  Whatever the scope, its parent chain ends at the
    function's body scope, so every request reserves at least `f.read` (hypothesis `ConvOf`; tied to the code by the
    harness: recorded reserved sets ⊇ the body scope's reads, and by the translator: `sites_reserve_referenced`).
  * besides, generated code contains identifiers that NO namer request produced.  `Gen.Naming.introSites` lists every site
    (template text, parsed literal, direct `ast.Name(...)`) that puts an identifier into generated code and how it got its
    name; the literally written ones are `hardCodedSpec` below: `ag__` (operator module, parameter of the inner factory, read
    everywhere), `vars_` / `block_vars` (parameter of the generated state setter), `tuple` / `dict` (BUILTINS that call_trees.py
    references by bare name at `f(*a)` / `f(k=v)` call sites).  Each has its own clash condition (`hardClash`).

`UserFn` is what the harness computes from the program text (its own scope analysis, cross-checked against the
real activity analysis) and sends to the driver; the class predicates below are evaluated by the driver.
-/
import MaltModel.Rt.Naming
import MaltModel.Generated.Naming
import MaltModel.Generated.Pipeline

namespace Malt.NamingConv
open Malt.Naming

/-- Name facts of a user function (all lists are sets; order irrelevant). -/
structure UserFn where
  name : String               -- `node.name`, or `lam` for a lambda
  bound : List String         -- names bound anywhere in the function text: parameters, assignment / loop / with / import /
                              -- del targets, nested def & class names, `nonlocal` declarations, and the same inside nested
                              -- functions, lambdas and comprehensions (their parameters / targets)
  read : List String          -- names whose reads reach the function's body scope (`BODY_SCOPE.referenced`): loads in the
                              -- function's own blocks, `global`/`nonlocal` declarations (also those of nested functions: a name a
                              -- nested function declares nonlocal/global and reads reaches the body scope - Scope.finalize forwards
                              -- `read - (bound - nonlocals - globals)`), augmented-assignment and `del`
                              -- targets, and reads inside nested functions/lambdas of names those do not bind themselves
  readLocal : List String     -- names read somewhere, but only inside nested scopes that bind them (so not in `read`)
  free : List String          -- names read in the function text and resolved OUTSIDE it (not bound at the function's own
                              -- level): globals, builtins, closure variables
  ns : List String            -- keys of the namespace (globals + closure) at conversion time
  blockVarRoots : List String := []   -- root names of the block variables (`symbol_names`) of the lowered if/while/for statements
  starCalls : Bool := false   -- the function text contains a call with a `*args` argument (lowered through `tuple(...)`)
  kwCalls : Bool := false     -- the function text contains a call with keyword / `**kw` arguments (lowered through `dict(...)`)
  nestedDefOnly : List String := []   -- names of `readLocal` whose nested bindings are all plain local assignments of nested
                              -- `def`s (not parameters - those leak into the enclosing `bound` on the pinned tree -, not
                              -- lambda parameters, not comprehension targets)
  deriving Repr, Inhabited

def UserFn.userNames (f : UserFn) : List String := f.bound ++ f.read ++ f.ns

/-- `x` occurs as an identifier in the function's text. -/
def UserFn.mentions (f : UserFn) (x : String) : Bool := f.bound.contains x || f.read.contains x || f.readLocal.contains x

/-! ### Identifiers generated code uses WITHOUT asking the namer -/

inductive HardKind where
  | operatorModule      -- `ag__`: read by every generated call; bound as parameter of the inner factory around the function
  | setterParam         -- `vars_`: parameter of `def set_state(vars_): nonlocal <block vars>; <block vars>, = vars_`
  | inertParam          -- `block_vars`: parameter of `def set_state(block_vars): pass` (no user name inside)
  | builtinAtStarCall   -- `tuple`: `f(a, *r)` becomes `converted_call(f, (a,) + tuple(r), ...)`
  | builtinAtKwCall     -- `dict`: `f(k=v)` becomes `converted_call(f, (), dict(k=v), ...)`
  deriving DecidableEq, Repr

/-- The hand-classified hard-coded identifiers.  `hard_coded_sites_classified` (Props/C11) shows that every site of
`Gen.Naming.introSites` whose name is written literally in the source is one of these: a new hard-coded name in the
converters breaks that theorem until it is classified here. -/
def hardCodedSpec : List (String × HardKind) :=
  [("ag__", .operatorModule), ("vars_", .setterParam), ("block_vars", .inertParam),
   ("tuple", .builtinAtStarCall), ("dict", .builtinAtKwCall)]

def hardCodedNames : List String := hardCodedSpec.map (·.1)

/-- The clash condition of a hard-coded identifier, per kind:
* `ag__`: the user's function mentions it at all (binding it shadows the operator module for the generated calls in that
  scope; reading it as a global finds the factory parameter instead);
* `vars_`: it is (the root of) a block variable of some lowered statement — then the setter is
  `def set_state(vars_): nonlocal vars_` (SyntaxError) or assigns through the shadowed parameter;
* `block_vars`: never;
* `tuple` / `dict`: the function has a `*`-call / keyword call and binds the name somewhere, or the namespace does. -/
def hardClashKind (f : UserFn) (x : String) : HardKind → Bool
  | .operatorModule => f.mentions x
  | .setterParam => f.blockVarRoots.contains x
  | .inertParam => false
  | .builtinAtStarCall => f.starCalls && (f.bound.contains x || f.ns.contains x)
  | .builtinAtKwCall => f.kwCalls && (f.bound.contains x || f.ns.contains x)

def hardClash (f : UserFn) (x : String) : Bool :=
  match hardCodedSpec.lookup x with
  | some k => hardClashKind f x k
  | none => false

inductive Level where
  | transpiler | converter
  deriving DecidableEq, Repr, Inhabited

structure Req where
  level : Level
  call : Call
  deriving Repr, Inhabited

/-- Roots the transpiler asks for when converting a function named `fname`. -/
def transpilerRootsOf (fname : String) : List String :=
  (Gen.Naming.transformedNamePrefix ++ fname) :: Gen.Naming.transpilerRoots

/-- The request sequence belongs to a conversion of `f`: converter-level requests reserve (at least) the reads of the
body scope; transpiler-level requests ask for one of the transpiler roots (and reserve whatever — in the code: nothing). -/
def ConvOf (f : UserFn) (reqs : List Req) : Prop :=
  ∀ r ∈ reqs, (r.level = .converter → ∀ x ∈ f.read, x ∈ r.call.reserved) ∧
              (r.level = .transpiler → r.call.root ∈ transpilerRootsOf f.name)

def convOf (f : UserFn) (reqs : List Req) : Bool :=
  reqs.all fun r =>
    (r.level != .converter || f.read.all (fun x => r.call.reserved.contains x)) &&
    (r.level != .transpiler || (transpilerRootsOf f.name).contains r.call.root)

/-- Names produced by the conversion, paired with the request that produced them. -/
def produced (f : UserFn) (reqs : List Req) : List (String × Req) :=
  (runCalls ⟨f.ns, []⟩ (reqs.map (·.call))).1.zip reqs

def converterNames (f : UserFn) (reqs : List Req) : List String :=
  ((produced f reqs).filter (fun p => p.2.level == .converter)).map (·.1)

def transpilerNames (f : UserFn) (reqs : List Req) : List String :=
  ((produced f reqs).filter (fun p => p.2.level == .transpiler)).map (·.1)

/-- `x` is what `new_symbol(root, …)` can return: the root without its numeric suffix, or that plus `_k`. -/
def isVariant (root x : String) : Bool :=
  let b := (splitRoot root).1
  x == b || x == candidate b (splitRoot x).2

/-! ### Hypotheses of `C11_disjoint_partial` (each decidable; the finding classes are their negations) -/

/-- Every name the function binds THAT THE NAMER COULD HAND OUT for one of the converters' roots (`break_`, `break__3`,
`fscope`, …) is also read (in a way that reaches the body scope) or is in the namespace — so that it is in the reserved
set of every converter-level request.  FALSE for write-only names and for names that are read only inside a nested
scope binding them (lambda parameter, comprehension target, nested function's parameter or local): callers reserve
`scope.referenced`, which contains reads only. -/
def BoundNamesReserved (f : UserFn) : Prop :=
  ∀ x ∈ f.bound, Gen.Naming.converterRoots.any (fun r => isVariant r x) = true → x ∈ f.read ∨ x ∈ f.ns

/-- Names the function leaves free are in the namespace snapshot, or cannot be produced from a transpiler root.
FALSE for a global defined only after conversion (or a builtin) that is called `inner_factory`, `ag__<fname>`, …:
transpiler-level requests reserve nothing. -/
def FreeNamesResolved (f : UserFn) : Prop :=
  ∀ x ∈ f.free, x ∈ f.ns ∨ ∀ r ∈ transpilerRootsOf f.name, isVariant r x = false

/-- No hard-coded identifier clashes (each in its own sense, `hardClash`). -/
def FixedNamesUnused (f : UserFn) : Prop :=
  ∀ x ∈ hardCodedNames, hardClash f x = false

/-- No transpiler root of this function collapses onto a hard-coded identifier.  FALSE for a function called
`_<digits>`: `'ag__' + '_5'` splits into root `ag__` and counter 5, and `ag__` itself is handed out. -/
def FixedNamesNotVariants (f : UserFn) : Prop :=
  ∀ r ∈ transpilerRootsOf f.name, ∀ x ∈ hardCodedNames, isVariant r x = false

instance (f : UserFn) : Decidable (FixedNamesNotVariants f) := by unfold FixedNamesNotVariants; exact inferInstance
instance (f : UserFn) : Decidable (BoundNamesReserved f) := by unfold BoundNamesReserved; exact inferInstance
instance (f : UserFn) : Decidable (FreeNamesResolved f) := by unfold FreeNamesResolved; exact inferInstance
instance (f : UserFn) : Decidable (FixedNamesUnused f) := by unfold FixedNamesUnused; exact inferInstance
instance (f : UserFn) (reqs : List Req) : Decidable (ConvOf f reqs) := by unfold ConvOf; exact inferInstance

/-! ### Finding classes (evaluated by the driver on a failing case; `roots` = the roots requested in that conversion) -/

/-- class `bound_only_user_name_equals_generated_root`: bound, never read anywhere in the function, not in the
namespace, and a variant of a requested root. -/
def clsBoundOnly (f : UserFn) (roots : List String) (x : String) : Bool :=
  f.bound.contains x && !f.read.contains x && !f.readLocal.contains x && !f.ns.contains x &&
  roots.any (fun r => isVariant r x)

/-- class `nested_scope_bound_name_equals_generated_root`: bound, read — but only inside nested scopes that bind it,
so the read never reaches a reserved set —, not in the namespace, and a variant of a requested root. -/
def clsNestedBound (f : UserFn) (roots : List String) (x : String) : Bool :=
  f.bound.contains x && !f.read.contains x && f.readLocal.contains x && !f.ns.contains x &&
  roots.any (fun r => isVariant r x)

/-- The part of `clsNestedBound` where the coincidence can CHANGE BEHAVIOUR: generated code inside the nested scope refers to the outer generated name (`fscope` inside a lambda or
comprehension; a lambda entity's own parameters; a nested function's PARAMETER, which the pinned activity analysis leaks
into the enclosing block's `bound`, so that the block re-initialises the name).  When every nested binding is a plain local
assignment of a nested `def`, the outer generated name and that local are different variables: the coincidence is syntactic only, and a
behavioural difference is NOT attributed to this class. -/
def clsNestedBoundShared (f : UserFn) (roots : List String) (x : String) : Bool :=
  clsNestedBound f roots x && !f.nestedDefOnly.contains x

/-- class `free_name_outside_namespace_equals_transpiler_name`. -/
def clsLateFree (f : UserFn) (x : String) : Bool :=
  f.free.contains x && !f.ns.contains x && (transpilerRootsOf f.name).any (fun r => isVariant r x)

def isBuiltinKind : HardKind → Bool
  | .builtinAtStarCall | .builtinAtKwCall => true
  | _ => false

/-- class `user_name_equals_hard_coded_template_identifier` (`ag__`, `vars_`). -/
def clsFixed (f : UserFn) (x : String) : Bool :=
  match hardCodedSpec.lookup x with
  | some k => !isBuiltinKind k && hardClashKind f x k
  | none => false

/-- class `user_binding_shadows_builtin_referenced_by_generated_code` (`tuple`, `dict`). -/
def clsBuiltinShadow (f : UserFn) (x : String) : Bool :=
  match hardCodedSpec.lookup x with
  | some k => isBuiltinKind k && hardClashKind f x k
  | none => false

/-- class `transformed_function_name_collapses_to_hard_coded_identifier` (`x` = the hard-coded identifier). -/
def clsCollapse (f : UserFn) (x : String) : Bool :=
  hardCodedNames.contains x && (transpilerRootsOf f.name).any (fun r => isVariant r x)

/-! ### Sites whose name is neither a namer result nor written literally -/

inductive OtherSrc where
  | userTarget      -- an AST node of the user's program in target position: keeps the user's own names
  | userNames       -- names of the user's variables taken from the scope analysis (nonlocal/global lists, state tuples, undefined-assigns)
  | namerThrough    -- a namer result reaching the site through a data structure the translator does not follow
  | config          -- supplied by the transpiler's caller: closure variables of the user's function, factory parameters
                    -- (`get_extra_locals` keys = `Gen.Naming.extraLocals`, classified hard-coded), future imports
  | optionsLiteral  -- `True` / `False` / `ag__.Feature.X` text of `ConversionOptions.to_ast`
  | operatorName    -- `ag__.and_`-style dotted operator names from a module-level table
  | passThrough     -- templates.py builds the node from the replacement it was handed
  | notInPipeline   -- anf.py / transformer.Base.create_assignment: not used by `PyToPy.transform_ast`
  deriving DecidableEq, Repr

/-- Hand classification of every `other` / `passedIn` site of `Gen.Naming.introSites` (key: file, function, placeholder).
`other_sites_classified` (Props/C11) fails to compile when the source gains a site that is not listed here — e.g. a
binder whose name is computed (`'retval_' + suffix`) instead of requested from the namer. -/
def otherSpec : List ((String × String × String) × OtherSrc) := [
  (("converters/break_statements.py", "BreakTransformer.visit_For", "target"), .userTarget),
  (("converters/control_flow.py", "ControlFlowTransformer._create_nonlocal_declarations", "<ast.Global>"), .userNames),
  (("converters/control_flow.py", "ControlFlowTransformer._create_nonlocal_declarations", "<ast.Nonlocal>"), .userNames),
  (("converters/control_flow.py", "ControlFlowTransformer._create_state_functions", "state_vars"), .userNames),
  (("converters/control_flow.py", "ControlFlowTransformer._create_undefined_assigns", "var"), .userNames),
  (("converters/control_flow.py", "ControlFlowTransformer.visit_For", "iterates"), .userTarget),
  (("converters/lists.py", "ListTransformer._generate_pop_operation", "pop_var_name"), .namerThrough),
  (("converters/lists.py", "ListTransformer._generate_pop_operation", "target"), .userTarget),
  (("converters/lists.py", "ListTransformer._replace_append_call", "target"), .userTarget),
  (("converters/logical_expressions.py", "LogicalExpressionTransformer._as_binary_function", "<parsed>"), .operatorName),
  (("converters/logical_expressions.py", "LogicalExpressionTransformer._as_unary_function", "<parsed>"), .operatorName),
  (("converters/slices.py", "SliceTransformer._process_single_assignment", "target"), .userTarget),
  (("converters/slices.py", "SliceTransformer._process_single_update", "<template>"), .userTarget),
  (("converters/variables.py", "VariableAccessTransformer.visit_AugAssign", "var_"), .userTarget),
  (("converters/variables.py", "VariableAccessTransformer.visit_Delete", "var_"), .userTarget),
  (("pyct/transpiler.py", "PyToPy.transform_function", "<ast.Name>"), .namerThrough),
  (("pyct/transpiler.py", "_wrap_into_factory", "<ast.alias>"), .config),
  (("pyct/transpiler.py", "_wrap_into_factory", "<ast.arg>"), .config),
  (("pyct/transpiler.py", "_wrap_into_factory", "factory_args"), .config),
  (("pyct/transpiler.py", "_wrap_into_factory", "var_name"), .config),
  (("pyct/templates.py", "ReplaceTransformer.visit_arg", "<ast.arg>"), .passThrough),
  (("pyct/templates.py", "_convert_to_ast", "<ast.Name>"), .passThrough),
  (("core/converter.py", "ConversionOptions.to_ast", "<parsed>"), .optionsLiteral),
  (("core/converter.py", "ConversionOptions.to_ast.list_of_features", "<parsed>"), .optionsLiteral),
  (("pyct/common_transformers/anf.py", "AnfTransformer._do_transform_node", "temp_name"), .notInPipeline),
  (("pyct/transformer.py", "Base.create_assignment", "target"), .notInPipeline)]

/-! ### A whole conversion, pass by pass (pipeline order of `Gen.Pipeline.steps`) -/

/-- The namer requests of one conversion, as issued: `transform_function` asks for the transformed name, then every
converter step of `PyToPy.transform_ast` that ran issues its requests, then `_PythonFnFactory.create` asks for the two
factory names. -/
structure Conversion where
  pre : List Call
  passes : List (String × List Call)
  post : List Call
  deriving Repr, Inhabited

def Conversion.reqs (c : Conversion) : List Req :=
  c.pre.map (⟨.transpiler, ·⟩) ++ (c.passes.flatMap (fun p => p.2.map (⟨.converter, ·⟩))) ++ c.post.map (⟨.transpiler, ·⟩)

/-- Literal roots the converter module behind a pipeline step asks for (from the site table). -/
def rootsOfStep (step : String) : List String :=
  (Gen.Naming.converterSites.filter (fun s => s.file == step ++ ".py" && s.rootKind != .dynamic)).map (·.root)

/-- The per-pass structure the end-to-end theorem assumes: the steps are a subsequence of the pipeline (each at most once,
in order), every request of a step asks for a literal root of THAT step's call sites and reserves the body reads, and the
transpiler's requests ask for its roots. -/
def wellFormed (f : UserFn) (c : Conversion) : Bool :=
  (c.passes.map (·.1)).isSublist (Gen.Pipeline.steps.map (·.1)) &&
  c.passes.all (fun p => p.2.all (fun call =>
    (rootsOfStep p.1).contains call.root && f.read.all (fun x => call.reserved.contains x))) &&
  (c.pre ++ c.post).all (fun call => (transpilerRootsOf f.name).contains call.root)

/-- Run the passes in order, threading the namer: per step, the names it was given. -/
def runPipeline (nm : Namer) : List (String × List Call) → List (String × List String) × Namer
  | [] => ([], nm)
  | (step, calls) :: ps =>
    let (xs, nm') := runCalls nm calls
    let (rest, nm'') := runPipeline nm' ps
    ((step, xs) :: rest, nm'')

/-- Every name the conversion puts into generated code: namer results in request order, then the hard-coded identifiers. -/
def allIntroduced (f : UserFn) (c : Conversion) : List String :=
  (produced f c.reqs).map (·.1) ++ hardCodedNames

/-- No name is in any clash class (the negation of every finding class, for every name). -/
def NoClashClass (f : UserFn) : Prop :=
  ∀ x, clsBoundOnly f Gen.Naming.converterRoots x = false ∧ clsNestedBound f Gen.Naming.converterRoots x = false ∧
       clsLateFree f x = false ∧ clsFixed f x = false ∧ clsBuiltinShadow f x = false ∧ clsCollapse f x = false

/-- Decidable form: only names of `f.bound ++ f.free ++ hardCodedNames` can be in a class. -/
def noClashClass (f : UserFn) : Bool :=
  (f.bound ++ f.free ++ hardCodedNames).all fun x =>
    !clsBoundOnly f Gen.Naming.converterRoots x && !clsNestedBound f Gen.Naming.converterRoots x &&
    !clsLateFree f x && !clsFixed f x && !clsBuiltinShadow f x && !clsCollapse f x

/-! ### Why a conversion is outside the hypotheses of `C11_disjoint_partial` (driver op `c11.why`) -/

def whyOutside (f : UserFn) (reqs : List Req) : List (String × String) :=
  ((f.bound.filter (clsBoundOnly f Gen.Naming.converterRoots)).map (("bound_only_name_is_root_variant", ·))) ++
  ((f.bound.filter (clsNestedBound f Gen.Naming.converterRoots)).map (("nested_scope_bound_name_is_root_variant", ·))) ++
  ((f.free.filter (clsLateFree f)).map (("free_name_outside_namespace_is_transpiler_variant", ·))) ++
  ((hardCodedNames.filter (clsFixed f)).map (("hard_coded_identifier_clash", ·))) ++
  ((hardCodedNames.filter (clsBuiltinShadow f)).map (("builtin_referenced_by_generated_code_shadowed", ·))) ++
  ((hardCodedNames.filter (clsCollapse f)).map (("transformed_name_collapses_to_hard_coded", ·))) ++
  ((reqs.filter (fun r => r.level == .converter && !Gen.Naming.converterRoots.contains r.call.root)).map
      (fun r => ("converter_root_not_literal", r.call.root))) ++
  ((reqs.filter (fun r => r.level == .converter && !f.read.all (fun x => r.call.reserved.contains x))).map
      (fun r => ("request_does_not_reserve_body_reads", r.call.root))) ++
  ((reqs.filter (fun r => r.level == .transpiler && !(transpilerRootsOf f.name).contains r.call.root)).map
      (fun r => ("transpiler_root_unknown", r.call.root)))

end Malt.NamingConv
