/-
C11 — abstract model of HOW THE CONVERSION USES THE NAMER (import-free apart from model files).

A conversion of a user function is, as far as names are concerned, a sequence of requests
`new_symbol(root_i, reserved_i)` against one `Namer` whose namespace is the function's globals + closure:

  * `transpiler`-level requests (malt/pyct/transpiler.py): `ag__<fname>` first, `inner_factory`, `outer_factory`
    last; they reserve NOTHING (`()`), so they only avoid the namespace and earlier generated names.  The names
    they produce live in scopes that ENCLOSE the converted function (module → outer factory → inner factory), so
    user code sees them exactly through names that are free in the function.
  * `converter`-level requests (malt/converters/*.py): each reserves `<scope>.referenced` of the scope at the call
    site — the names READ in that scope and its parents.  Whatever the scope, its parent chain ends at the
    function's body scope, so every request reserves at least `f.read` (hypothesis `ConvOf`; tied to the code by the
    harness: recorded reserved sets ⊇ the body scope's reads, and by the translator: `sites_reserve_referenced`).
  * besides, the templates use identifiers WITHOUT asking the namer (`Gen.Naming.templateFixedNames`: `ag__`,
    `vars_`, `block_vars`) and the inner factory takes `Gen.Naming.extraLocals` (`ag__`) as parameters.

`UserFn` is what the harness computes from the program text (its own scope analysis, cross-checked against the
real activity analysis) and sends to the driver; the class predicates below are evaluated by the driver.
-/
import MaltModel.Rt.Naming
import MaltModel.Generated.Naming

namespace Malt.NamingConv
open Malt.Naming

/-- Name facts of a user function (all lists are sets; order irrelevant). -/
structure UserFn where
  name : String               -- `node.name`, or `lam` for a lambda
  bound : List String         -- names bound anywhere in the function text: parameters, assignment / loop / with / import /
                              -- del targets, nested def & class names, `nonlocal` declarations, and the same inside nested
                              -- functions, lambdas and comprehensions (their parameters / targets)
  read : List String          -- names whose reads reach the function's body scope (`BODY_SCOPE.referenced`): loads in the
                              -- function's own blocks, `global`/`nonlocal` declarations, augmented-assignment and `del`
                              -- targets, and reads inside nested functions/lambdas of names those do not bind themselves
  readLocal : List String     -- names read somewhere, but only inside nested scopes that bind them (so not in `read`)
  free : List String          -- names read in the function text and resolved OUTSIDE it (not bound at the function's own
                              -- level): globals, builtins, closure variables
  ns : List String            -- keys of the namespace (globals + closure) at conversion time
  deriving Repr, Inhabited

def UserFn.userNames (f : UserFn) : List String := f.bound ++ f.read ++ f.ns

inductive Level where
  | transpiler | converter
  deriving DecidableEq, Repr, Inhabited

structure Req where
  level : Level
  call : Call
  deriving Repr, Inhabited

/-- Roots the transpiler asks for when converting a function named `fname`. -/
def transpilerRootsOf (fname : String) : List String :=
  (Gen.Naming.transformedNamePrefix ++ fname) :: Gen.Naming.transpilerRoots

/-- The request sequence belongs to a conversion of `f`: converter-level requests reserve (at least) the reads of the
body scope; transpiler-level requests ask for one of the transpiler roots (and reserve whatever — in the code: nothing). -/
def ConvOf (f : UserFn) (reqs : List Req) : Prop :=
  ∀ r ∈ reqs, (r.level = .converter → ∀ x ∈ f.read, x ∈ r.call.reserved) ∧
              (r.level = .transpiler → r.call.root ∈ transpilerRootsOf f.name)

def convOf (f : UserFn) (reqs : List Req) : Bool :=
  reqs.all fun r =>
    (r.level != .converter || f.read.all (fun x => r.call.reserved.contains x)) &&
    (r.level != .transpiler || (transpilerRootsOf f.name).contains r.call.root)

/-- Names produced by the conversion, paired with the request that produced them. -/
def produced (f : UserFn) (reqs : List Req) : List (String × Req) :=
  (runCalls ⟨f.ns, []⟩ (reqs.map (·.call))).1.zip reqs

def converterNames (f : UserFn) (reqs : List Req) : List String :=
  ((produced f reqs).filter (fun p => p.2.level == .converter)).map (·.1)

def transpilerNames (f : UserFn) (reqs : List Req) : List String :=
  ((produced f reqs).filter (fun p => p.2.level == .transpiler)).map (·.1)

/-- `x` is what `new_symbol(root, …)` can return: the root without its numeric suffix, or that plus `_k`. -/
def isVariant (root x : String) : Bool :=
  let b := (splitRoot root).1
  x == b || x == candidate b (splitRoot x).2

/-! ### Hypotheses of `C11_disjoint_partial` (each decidable; the finding classes are their negations) -/

/-- Every name the function binds THAT THE NAMER COULD HAND OUT for one of the converters' roots (`break_`, `break__3`,
`fscope`, …) is also read (in a way that reaches the body scope) or is in the namespace — so that it is in the reserved
set of every converter-level request.  FALSE for write-only names and for names that are read only inside a nested
scope binding them (lambda parameter, comprehension target, nested function's local or `nonlocal`): callers reserve
`scope.referenced`, which contains reads only. -/
def BoundNamesReserved (f : UserFn) : Prop :=
  ∀ x ∈ f.bound, Gen.Naming.converterRoots.any (fun r => isVariant r x) = true → x ∈ f.read ∨ x ∈ f.ns

/-- Names the function leaves free are in the namespace snapshot, or cannot be produced from a transpiler root.
FALSE for a global defined only after conversion (or a builtin) that is called `inner_factory`, `ag__<fname>`, …:
transpiler-level requests reserve nothing. -/
def FreeNamesResolved (f : UserFn) : Prop :=
  ∀ x ∈ f.free, x ∈ f.ns ∨ ∀ r ∈ transpilerRootsOf f.name, isVariant r x = false

/-- The user does not use an identifier that templates / the factory hard-code (`ag__`, `vars_`, `block_vars`). -/
def FixedNamesUnused (f : UserFn) : Prop :=
  ∀ x ∈ Gen.Naming.templateFixedNames ++ Gen.Naming.extraLocals, x ∉ f.userNames

/-- No transpiler root of this function collapses onto a hard-coded identifier.  FALSE for a function called
`_<digits>`: `'ag__' + '_5'` splits into root `ag__` and counter 5, and `ag__` itself is handed out. -/
def FixedNamesNotVariants (f : UserFn) : Prop :=
  ∀ r ∈ transpilerRootsOf f.name, ∀ x ∈ Gen.Naming.templateFixedNames ++ Gen.Naming.extraLocals, isVariant r x = false

instance (f : UserFn) : Decidable (FixedNamesNotVariants f) := by unfold FixedNamesNotVariants; exact inferInstance
instance (f : UserFn) : Decidable (BoundNamesReserved f) := by unfold BoundNamesReserved; exact inferInstance
instance (f : UserFn) : Decidable (FreeNamesResolved f) := by unfold FreeNamesResolved; exact inferInstance
instance (f : UserFn) : Decidable (FixedNamesUnused f) := by unfold FixedNamesUnused; exact inferInstance
instance (f : UserFn) (reqs : List Req) : Decidable (ConvOf f reqs) := by unfold ConvOf; exact inferInstance

/-! ### Finding classes (evaluated by the driver on a failing case; `roots` = the roots requested in that conversion) -/

/-- class `bound_only_user_name_equals_generated_root`: bound, never read anywhere in the function, not in the
namespace, and a variant of a requested root. -/
def clsBoundOnly (f : UserFn) (roots : List String) (x : String) : Bool :=
  f.bound.contains x && !f.read.contains x && !f.readLocal.contains x && !f.ns.contains x &&
  roots.any (fun r => isVariant r x)

/-- class `nested_scope_bound_name_equals_generated_root`: bound, read — but only inside nested scopes that bind it,
so the read never reaches a reserved set —, not in the namespace, and a variant of a requested root. -/
def clsNestedBound (f : UserFn) (roots : List String) (x : String) : Bool :=
  f.bound.contains x && !f.read.contains x && f.readLocal.contains x && !f.ns.contains x &&
  roots.any (fun r => isVariant r x)

/-- class `free_name_outside_namespace_equals_transpiler_name`. -/
def clsLateFree (f : UserFn) (x : String) : Bool :=
  f.free.contains x && !f.ns.contains x && (transpilerRootsOf f.name).any (fun r => isVariant r x)

/-- class `user_name_equals_hard_coded_template_identifier`. -/
def clsFixed (f : UserFn) (x : String) : Bool :=
  (Gen.Naming.templateFixedNames ++ Gen.Naming.extraLocals).contains x && f.userNames.contains x

/-- class `transformed_function_name_collapses_to_hard_coded_identifier` (`x` = the hard-coded identifier). -/
def clsCollapse (f : UserFn) (x : String) : Bool :=
  (Gen.Naming.templateFixedNames ++ Gen.Naming.extraLocals).contains x &&
  (transpilerRootsOf f.name).any (fun r => isVariant r x)

end Malt.NamingConv
