import MaltModel.Generated.Builtins
import MaltModel.Util.Sexp
/-
Model of `malt/operators/py_builtins.py` and of the builtin branch of `api.converted_call` (C14).
Import-free apart from the generated tables; every definition is total, structural and executable.

Three parts:

* **Python call binding** (`bind`): how CPython matches a call `f(*pos, **kw)` against a declared
  parameter list (positional-only / positional-or-keyword / `*args` / keyword-only / `**kwargs`,
  defaults, the four TypeErrors).  `accepts` is the declarative acceptance condition, `firstErr` the
  error CPython reports first (keywords in order, then too many positionals, then missing ones);
  `Props/C14.lean` proves they agree.
* **Forwarding** (`forward`): what call reaches the real builtin when the overload is called with a
  given shape.  The overload/helper parameter lists, their forwarding calls, the `UNSPECIFIED`
  tests, `SUPPORTED_BUILTINS` and `BUILTIN_FUNCTIONS_MAP` are `Generated/Builtins.lean`
  (re-extracted from the source AST on every run); the builtin side (`specTable`) is written from
  the library reference and cross-checked at run time against `inspect.signature`/probing.
  The registries are modelled empty (they are created empty and nothing in malt fills them).
* **Frame search** (`findOriginatingFrame`, `evalForward`, `superArgs`): `_find_originating_frame`
  over an explicit stack of frames, and the namespaces `eval` ends up with.
-/
namespace Malt.Builtins
open Malt.Gen.Builtins

/-! ## Values, call shapes, environments -/

/-- An argument value: an opaque user value, or a literal / the sentinel written in library source. -/
inductive Val (α : Type) where
  | arg (a : α)
  | const (c : String)
  deriving DecidableEq, Repr

/-- `f(*pos, **kw)`; `kw` in call order. -/
structure CallShape (α : Type) where
  pos : List (Val α)
  kw : List (String × Val α)
  deriving DecidableEq, Repr

/-- What a parameter is bound to. -/
inductive Bound (α : Type) where
  | val (v : Val α)
  | star (vs : List (Val α))
  | dstar (kvs : List (String × Val α))
  deriving DecidableEq, Repr

abbrev Env (α : Type) := List (String × Bound α)
abbrev Signature := List Param

inductive BindErr where
  | tooManyPositional
  | unexpectedKeyword (k : String)
  | posOnlyAsKeyword
  | multipleValues (k : String)
  | missing (p : String)
  deriving DecidableEq, Repr

/-! ## Call binding -/

def isPos (p : Param) : Bool := p.kind == .posOnly || p.kind == .posOrKw
def isKw (p : Param) : Bool := p.kind == .posOrKw || p.kind == .kwOnly

/-- Parameters that positional arguments fill, in order. -/
def posParams (sig : Signature) : List Param := sig.filter isPos
def nPos (sig : Signature) : Nat := (posParams sig).length
def hasVarPos (sig : Signature) : Bool := sig.any (fun p => p.kind == .varPos)
def hasVarKw (sig : Signature) : Bool := sig.any (fun p => p.kind == .varKw)

/-- `k` names a parameter that can be passed by keyword. -/
def kwTarget (sig : Signature) (k : String) : Bool := sig.any (fun p => isKw p && p.name == k)

/-- Position (from `j`) of the parameter called `k` in a parameter list. -/
def slotOf (k : String) : List Param → Nat → Option Nat
  | [], _ => none
  | p :: ps, j => if p.name == k then some j else slotOf k ps (j + 1)

/-- The parameter called `k` is already filled by one of the first `npos` positional arguments. -/
def posFilled (sig : Signature) (npos : Nat) (k : String) : Bool :=
  match slotOf k (posParams sig) 0 with
  | some j => decide (j < npos)
  | none => false

/-- A keyword `k` can be taken: it names a keyword-capable parameter not already filled
positionally, or there is a `**kwargs` to collect it. -/
def kwAdmissible (sig : Signature) (npos : Nat) (k : String) : Bool :=
  if kwTarget sig k then !posFilled sig npos k else hasVarKw sig

def hasKey {β : Type} (k : String) (kw : List (String × β)) : Bool := kw.any (fun kv => kv.1 == k)

def keysNodup {β : Type} : List (String × β) → Bool
  | [] => true
  | kv :: r => !hasKey kv.1 r && keysNodup r

variable {α : Type}

/-- Parameter `p` receives an argument from the call. -/
def filled (sig : Signature) (c : CallShape α) (p : Param) : Bool :=
  (isPos p && posFilled sig c.pos.length p.name) || (isKw p && hasKey p.name c.kw)

def satisfied (sig : Signature) (c : CallShape α) (p : Param) : Bool :=
  p.kind == .varPos || p.kind == .varKw || p.dflt.isSome || filled sig c p

/-- Declarative acceptance of a call by a signature. -/
def accepts (sig : Signature) (c : CallShape α) : Bool :=
  (hasVarPos sig || decide (c.pos.length ≤ nPos sig))
  && keysNodup c.kw
  && c.kw.all (fun kv => kwAdmissible sig c.pos.length kv.1)
  && sig.all (satisfied sig c)

/-- What parameter `p` is bound to (meaningful when the call is accepted). -/
def boundOf (sig : Signature) (c : CallShape α) (p : Param) : Bound α :=
  match p.kind with
  | .varPos => .star (c.pos.drop (nPos sig))
  | .varKw => .dstar (c.kw.filter (fun kv => !kwTarget sig kv.1))
  | _ =>
    let byPos : Option (Val α) :=
      if isPos p then (slotOf p.name (posParams sig) 0).bind (fun j => c.pos[j]?) else none
    let byKw : Option (Val α) := if isKw p then c.kw.lookup p.name else none
    match byPos, byKw, p.dflt with
    | some v, _, _ => .val v
    | none, some v, _ => .val v
    | none, none, some d => .val (.const d)
    | none, none, none => .val (.const "<missing>")

def envOf (sig : Signature) (c : CallShape α) : Env α := sig.map (fun p => (p.name, boundOf sig c p))

/-- Keyword errors in CPython's order: keywords are processed left to right; a keyword naming no
keyword-capable parameter is an error unless there is `**kwargs` (reported as "positional-only
passed as keyword" if *any* keyword of the call names a positional-only parameter); a keyword whose
parameter is already filled is "multiple values". -/
def kwErrs (sig : Signature) (npos : Nat) (allKeys : List String) :
    List (String × Val α) → List String → Option BindErr
  | [], _ => none
  | kv :: r, seen =>
    if kwTarget sig kv.1 then
      if posFilled sig npos kv.1 || seen.contains kv.1 then some (.multipleValues kv.1)
      else kwErrs sig npos allKeys r (kv.1 :: seen)
    else if hasVarKw sig then
      if seen.contains kv.1 then some (.multipleValues kv.1)
      else kwErrs sig npos allKeys r (kv.1 :: seen)
    else if allKeys.any (fun k => (posParams sig).any (fun p => p.name == k) && !kwTarget sig k) then
      some .posOnlyAsKeyword
    else some (.unexpectedKeyword kv.1)

/-- The error CPython raises for a rejected call (`none` when the call is accepted). -/
def firstErr (sig : Signature) (c : CallShape α) : Option BindErr :=
  match kwErrs sig c.pos.length (c.kw.map (·.1)) c.kw [] with
  | some e => some e
  | none =>
    if !(hasVarPos sig || decide (c.pos.length ≤ nPos sig)) then some .tooManyPositional
    else match sig.find? (fun p => !satisfied sig c p) with
      | some p => some (.missing p.name)
      | none => none

/-- Python call binding. -/
def bind (sig : Signature) (c : CallShape α) : Except BindErr (Env α) :=
  if accepts sig c then .ok (envOf sig c) else .error ((firstErr sig c).getD .tooManyPositional)

/-! ## The builtin side: signatures from the library reference (Python 3.12)

`int` and `range` have two documented forms.  Defaults are the documented literals (as `inspect.signature`
prints them where CPython exposes a signature); a parameter the builtin only consults through its
truth value is listed in `truthParams`. -/

def specTable : List (String × List Signature) := [
  ("abs",       [[⟨"x", .posOnly, none⟩]]),
  ("all",       [[⟨"iterable", .posOnly, none⟩]]),
  ("any",       [[⟨"iterable", .posOnly, none⟩]]),
  ("enumerate", [[⟨"iterable", .posOrKw, none⟩, ⟨"start", .posOrKw, some "0"⟩]]),
  ("filter",    [[⟨"function", .posOnly, none⟩, ⟨"iterable", .posOnly, none⟩]]),
  ("float",     [[⟨"x", .posOnly, some "0"⟩]]),
  ("int",       [[⟨"x", .posOnly, some "0"⟩],
                 [⟨"x", .posOnly, none⟩, ⟨"base", .posOrKw, some "10"⟩]]),
  ("len",       [[⟨"obj", .posOnly, none⟩]]),
  ("map",       [[⟨"function", .posOnly, none⟩, ⟨"iterable", .posOnly, none⟩, ⟨"iterables", .varPos, none⟩]]),
  ("next",      [[⟨"iterator", .posOnly, none⟩],
                 [⟨"iterator", .posOnly, none⟩, ⟨"default", .posOnly, none⟩]]),
  ("print",     [[⟨"objects", .varPos, none⟩, ⟨"sep", .kwOnly, some "' '"⟩, ⟨"end", .kwOnly, some "'\\n'"⟩,
                  ⟨"file", .kwOnly, some "None"⟩, ⟨"flush", .kwOnly, some "False"⟩]]),
  ("range",     [[⟨"stop", .posOnly, none⟩],
                 [⟨"start", .posOnly, none⟩, ⟨"stop", .posOnly, none⟩, ⟨"step", .posOnly, some "1"⟩]]),
  ("sorted",    [[⟨"iterable", .posOnly, none⟩, ⟨"key", .kwOnly, some "None"⟩, ⟨"reverse", .kwOnly, some "False"⟩]]),
  ("zip",       [[⟨"iterables", .varPos, none⟩, ⟨"strict", .kwOnly, some "False"⟩]])
]

def spec (b : String) : List Signature := (specTable.lookup b).getD []

/-- (builtin, parameter) pairs the builtin reads only through `PyObject_IsTrue`. -/
def truthParams : List (String × String) := [("zip", "strict")]

/-- Literals that are false in a boolean context. -/
def falsyConsts : List String := ["False", "None", "0", "0.0", "''", "()", "[]", "{}"]

def truthyV (truthy : α → Bool) : Val α → Bool
  | .arg a => truthy a
  | .const c => !falsyConsts.contains c

section Equiv
variable [DecidableEq α]

/-- Two values the builtin `b` cannot tell apart in parameter `p`. -/
def valEquiv (truthy : α → Bool) (b p : String) (v w : Val α) : Bool :=
  decide (v = w) || (truthParams.contains (b, p) && truthyV truthy v == truthyV truthy w)

def boundEquiv (truthy : α → Bool) (b p : String) : Bound α → Bound α → Bool
  | .val v, .val w => valEquiv truthy b p v w
  | .star vs, .star ws => decide (vs = ws)
  | .dstar ks, .dstar ls => decide (ks = ls)
  | _, _ => false

/-- The builtin's parameters are bound to the same argument values. -/
def envEquiv (truthy : α → Bool) (b : String) : Env α → Env α → Bool
  | [], [] => true
  | x :: r, y :: s => x.1 == y.1 && boundEquiv truthy b x.1 x.2 y.2 && envEquiv truthy b r s
  | _, _ => false
end Equiv

/-! ## Forwarding -/

def mapOpt {β γ : Type} (f : β → Option γ) : List β → Option (List γ)
  | [] => some []
  | x :: r => match f x, mapOpt f r with
    | some y, some ys => some (y :: ys)
    | _, _ => none

def lookupVal (env : Env α) (n : String) : Option (Val α) :=
  match env.lookup n with
  | some (.val v) => some v
  | _ => none

def evalA (env : Env α) : AExpr → Option (Val α)
  | .param n => lookupVal env n
  | .lit c => some (.const c)
  | .unresolved _ => none

/-- The call `callee(pos…, *star, kw…, **dstar)` evaluated in the local environment `env`. -/
def evalCall (env : Env α) (ce : CallExpr) : Option (CallShape α) :=
  match mapOpt (evalA env) ce.pos,
        (match ce.star with
         | none => some []
         | some n => match env.lookup n with | some (.star vs) => some vs | _ => none),
        mapOpt (fun ke => (evalA env ke.2).map (fun v => (ke.1, v))) ce.kw,
        (match ce.dstar with
         | none => some []
         | some n => match env.lookup n with | some (.dstar kvs) => some kvs | _ => none) with
  | some pos, some star, some kw, some dstar => some ⟨pos ++ star, kw ++ dstar⟩
  | _, _, _, _ => none

def isUnspecV : Val α → Bool
  | .const c => c == unspecified
  | .arg _ => false

def evalGuard (truthy : α → Bool) (env : Env α) : Guard → Option Bool
  | .isUnspec p => (lookupVal env p).map isUnspecV
  | .notUnspec p => (lookupVal env p).map (fun v => !isUnspecV v)
  | .truthy p => (lookupVal env p).map (truthyV truthy)
  | .unresolved _ => none

def guardsHold (truthy : α → Bool) (env : Env α) : List Guard → Option Bool
  | [] => some true
  | g :: gs => match evalGuard truthy env g with
    | some true => guardsHold truthy env gs
    | some false => some false
    | none => none

/-- First branch whose guards all hold (`if …: return …` in order). -/
def pickBranch (truthy : α → Bool) (env : Env α) : List Branch → Option Branch
  | [] => none
  | br :: rest => match guardsHold truthy env br.guards with
    | some true => some br
    | some false => pickBranch truthy env rest
    | none => none

inductive FwdErr where
  | bind (e : BindErr)          -- TypeError from binding the overload or its helper
  | valueError                  -- print_'s keyword whitelist
  | model (what : String)       -- the extracted tables are not closed (missing helper, …)
  deriving DecidableEq, Repr

/-- The call that reaches `callee`; `tail` = the overload returns that call's own result object. -/
structure Fwd (α : Type) where
  callee : String
  call : CallShape α
  tail : Bool
  deriving DecidableEq, Repr

/-- `overload_of`, on builtin names: the table entry for a supported builtin, otherwise `f` itself. -/
def overloadName (b : String) : Option String :=
  if supportedBuiltins.contains b then builtinFunctionsMap.lookup b else none

def findOverload (n : String) : Option Overload := overloads.find? (fun o => o.name == n)
def findHelper (n : String) : Option Helper := helpers.find? (fun h => h.name == n)

/-- print_: every key collected by `**kwargs` must be in the whitelist, else ValueError. -/
def kwAllowed (ov : Overload) (env : Env α) : Bool :=
  match ov.kwAllow with
  | none => true
  | some allow =>
    ov.params.all (fun p => p.kind != .varKw ||
      (match env.lookup p.name with
       | some (.dstar kvs) => kvs.all (fun kv => allow.contains kv.1)
       | _ => false))

/-- Calling an overload (default path, registries empty): bind its parameters, evaluate its
forwarding call, bind the helper's parameters, take the first branch whose `UNSPECIFIED`/truth
tests hold, evaluate that branch's call. -/
def callOverload (truthy : α → Bool) (ov : Overload) (c : CallShape α) : Except FwdErr (Fwd α) :=
  match bind ov.params c with
  | .error e => .error (.bind e)
  | .ok env =>
    if !kwAllowed ov env then .error .valueError else
    match evalCall env ov.call with
    | none => .error (.model "overload call")
    | some c1 =>
      match findHelper ov.call.callee with
      | none => .error (.model "helper not found")
      | some h =>
        match bind h.params c1 with
        | .error e => .error (.bind e)
        | .ok env1 =>
          match pickBranch truthy env1 h.branches with
          | none => .error (.model "no branch")
          | some br =>
            match evalCall env1 br.call with
            | none => .error (.model "helper call")
            | some c2 => .ok ⟨br.call.callee, c2, ov.ret == .value && br.ret == .value⟩

/-- `py_builtins.overload_of(b)(*pos, **kw)`: which call reaches which builtin. -/
def forward (truthy : α → Bool) (b : String) (c : CallShape α) : Except FwdErr (Fwd α) :=
  match overloadName b with
  | none => .ok ⟨b, c, true⟩
  | some on =>
    match findOverload on with
    | none => .error (.model "overload not defined")
    | some ov => callOverload truthy ov c

/-- Keys of `BUILTIN_FUNCTIONS_MAP`. -/
def mappedBuiltins : List String := builtinFunctionsMap.map (·.1)

/-- The overload registered for `b` in `BUILTIN_FUNCTIONS_MAP`, called directly — whether or not `b`
is (yet) in `SUPPORTED_BUILTINS` (`next` is mapped but not supported). -/
def callMapped (truthy : α → Bool) (b : String) (c : CallShape α) : Except FwdErr (Fwd α) :=
  match builtinFunctionsMap.lookup b with
  | none => .error (.model "not in BUILTIN_FUNCTIONS_MAP")
  | some on =>
    match findOverload on with
    | none => .error (.model "overload not defined")
    | some ov => callOverload truthy ov c

/-! ### Registry dispatch (staged values)

A registry maps types to an override; `staged reg v = some o` says the value `v` is an instance of a
type registered in registry `reg` with override `o`.  Literals written in the library source are
never staged.  An overload takes its `_py_*` default path unless the registry lookup it performs
finds an override. -/

abbrev Staging (α : Type) := String → α → Option Nat

def stagedV (staged : Staging α) (reg : String) : Val α → Option Nat
  | .arg a => staged reg a
  | .const _ => none

/-- `zip_`/`map_`: the override common to every element, if every element has one and they agree. -/
def commonOverride (staged : Staging α) (reg : String) : List (Val α) → Option Nat
  | [] => none
  | v :: vs => match stagedV staged reg v with
    | none => none
    | some o => if vs.all (fun w => stagedV staged reg w == some o) then some o else none

/-- Which implementation an overload dispatches to: `some none` = its `_py_*` helper,
`some (some o)` = override `o`, `none` = the extracted tables are inconsistent. -/
def dispatchOf (staged : Staging α) (ov : Overload) (env : Env α) : Option (Option Nat) :=
  match ov.dispatch with
  | .none => some none
  | .single reg p _ => (lookupVal env p).map (stagedV staged reg)
  | .firstOf reg p =>
    match env.lookup p with
    | some (.star vs) => some ((vs.filterMap (stagedV staged reg)).head?)
    | _ => none
  | .allSame reg p =>
    match env.lookup p with
    | some (.star vs) => some (commonOverride staged reg vs)
    | _ => none
  | .unresolved => none

/-- The call an override receives (`single`: the extracted call; loops: the overload's final call). -/
def overrideCall (ov : Overload) : CallExpr :=
  match ov.dispatch with
  | .single _ _ ce => ce
  | _ => ov.call

inductive Routed (α : Type) where
  | py (f : Fwd α)                                  -- default path: the `_py_*` helper and from there the builtin
  | override (o : Nat) (call : CallShape α)         -- a registered override was called instead
  deriving DecidableEq, Repr

/-- Calling an overload with registries that may have entries. -/
def callOverloadS (staged : Staging α) (truthy : α → Bool) (ov : Overload) (c : CallShape α) :
    Except FwdErr (Routed α) :=
  match bind ov.params c with
  | .error e => .error (.bind e)
  | .ok env =>
    if !kwAllowed ov env then .error .valueError else
    match dispatchOf staged ov env with
    | none => .error (.model "dispatch")
    | some (some o) =>
      (match evalCall env (overrideCall ov) with
       | some c1 => .ok (.override o c1)
       | none => .error (.model "override call"))
    | some none => (callOverload truthy ov c).map .py

def callMappedS (staged : Staging α) (truthy : α → Bool) (b : String) (c : CallShape α) :
    Except FwdErr (Routed α) :=
  match builtinFunctionsMap.lookup b with
  | none => .error (.model "not in BUILTIN_FUNCTIONS_MAP")
  | some on =>
    match findOverload on with
    | none => .error (.model "overload not defined")
    | some ov => callOverloadS staged truthy ov c

/-- No argument of the call is a staged value, for any registry. -/
def unstaged (staged : Staging α) (c : CallShape α) : Prop :=
  ∀ reg a, (Val.arg a ∈ c.pos ∨ ∃ k, (k, Val.arg a) ∈ c.kw) → staged reg a = none

/-! ### Registry contents

Each registry is its own `TypeRegistry()` with its own dict (`registryFreshPerInstance`, extracted):
its contents are a function of the registrations made *in that registry*.  `lookup` returns the value
of the first registered type the object is an instance of. -/

/-- registry name ↦ (type, override) pairs in registration order. -/
abbrev RegState := String → List (Nat × Nat)

def register (st : RegState) (reg : String) (t o : Nat) : RegState :=
  fun r => if r = reg then st r ++ [(t, o)] else st r

def stagingOf (isInst : α → Nat → Bool) (st : RegState) : Staging α :=
  fun reg a => ((st reg).find? (fun e => isInst a e.1)).map (·.2)

/-- The registry an overload consults (none for float_, int_, range_, min_, max_). -/
def dispatchReg (ov : Overload) : Option String :=
  match ov.dispatch with
  | .single r _ _ => some r
  | .firstOf r _ => some r
  | .allSame r _ => some r
  | _ => none

/-- Table check: construction is per instance, registry names are distinct, every overload consults a
declared registry, and no two overloads consult the same one. -/
def registryTableOk : Bool :=
  registryFreshPerInstance && decide registries.Nodup &&
  overloads.all (fun ov => match dispatchReg ov with
    | none => true
    | some r => registries.contains r &&
        overloads.all (fun ov' => dispatchReg ov' != some r || ov'.name == ov.name))

/-! ### Provenance: what the library does with the argument values -/

def valuesOf (c : CallShape α) : List (Val α) := c.pos ++ c.kw.map (·.2)

def Bound.vals : Bound α → List (Val α)
  | .val v => [v]
  | .star vs => vs
  | .dstar kvs => kvs.map (·.2)

def envVals (e : Env α) : List (Val α) := e.flatMap (fun x => x.2.vals)

def isConst : Val α → Bool
  | .const _ => true
  | .arg _ => false

/-- The argument values whose truth value the helper tests while choosing its branch. -/
def truthTested (truthy : α → Bool) (env : Env α) : List Branch → List (Val α)
  | [] => []
  | br :: rest =>
    let here := br.guards.filterMap (fun g => match g with | .truthy p => lookupVal env p | _ => none)
    match guardsHold truthy env br.guards with
    | some false => here ++ truthTested truthy env rest
    | _ => here

/-- All values come from the caller (user code cannot name the sentinel). -/
def userShape (c : CallShape α) : Bool :=
  c.pos.all (fun v => match v with | .arg _ => true | .const _ => false)
  && c.kw.all (fun kv => match kv.2 with | .arg _ => true | .const _ => false)

/-- Builtins whose result is a lazy object. -/
def lazyBuiltins : List String := ["enumerate", "filter", "map", "range", "zip"]

/-! ## Outcomes: what a caller observes

`sem b env` stands for whatever the real builtin `b` does with its parameters bound as `env`
(value, lazy object, output, exception); it is a parameter, never defined. -/

/-- Calling the builtin directly (documented form `form`). -/
def runBuiltin {Out : Type} (sem : Env α → Out) (typeError : Out) (form : Signature) (c : CallShape α) : Out :=
  match bind form c with
  | .ok env => sem env
  | .error _ => typeError

/-- Calling the substitute: errors raised by the library itself are mapped by `raise`, otherwise
the builtin named by the forwarded call runs on the forwarded arguments. -/
def runOverload {Out : Type} (truthy : α → Bool) (sem : String → Env α → Out) (typeError : Out)
    (raise : FwdErr → Out) (b : String) (form : Signature) (c : CallShape α) : Out :=
  match forward truthy b c with
  | .ok r => runBuiltin (sem r.callee) typeError form r.call
  | .error e => raise e

/-! ## Frame search -/

/-- A Python frame as `_find_originating_frame` sees it. -/
structure Frame where
  code : String                   -- co_name
  locals : List (String × Nat)    -- f_locals (free variables the code references included): name ↦ object identity
  globals : Nat                   -- identity of f_globals
  varnames : List String          -- co_varnames
  deriving DecidableEq, Repr

/-- `ctx_frame.f_locals.get(scope.name, None) is scope`. -/
def Frame.holds (fr : Frame) (name : String) (id : Nat) : Bool := fr.locals.lookup name == some id

/-- The `while ctx_frame is not None` loop; `stack` lists frames from the current one outwards,
`i` is the index of its head, `result` the last match so far. -/
def findLoop (name : String) (id : Nat) (innermost : Bool) : List Frame → Nat → Option Nat → Option Nat
  | [], _, result => result
  | fr :: rest, i, result =>
    if fr.holds name id then
      if innermost then some i else findLoop name id innermost rest (i + 1) (some i)
    else findLoop name id innermost rest (i + 1) result

/-- `_find_originating_frame(scope, innermost)`: index into `stack` (`none` = the assertion fails). -/
def findOriginatingFrame (name : String) (id : Nat) (innermost : Bool) (stack : List Frame) : Option Nat :=
  findLoop name id innermost stack 0 none

/-- Two frames bind each of the `needed` names to the same object (or both leave it unbound). -/
def lookupAgree (a b : Frame) (needed : List String) : Bool :=
  needed.all (fun n => a.locals.lookup n == b.locals.lookup n)

/-- Class of the known finding C14-frame-builtin-in-body: the frame `eval`/`locals` resolve to (innermost
holder of the scope object) is not the user function's frame (outermost holder) *and* does not show
one of the user variables the call needs the way the user's frame does. -/
def bodyHidesName (name : String) (id : Nat) (needed : List String) (stack : List Frame) : Bool :=
  match findOriginatingFrame name id true stack, findOriginatingFrame name id false stack with
  | some i, some j =>
    match stack[i]?, stack[j]? with
    | some a, some b => !lookupAgree a b needed
    | _, _ => false
  | _, _ => false

/-! ### Frame discipline of generated code

One activation of a converted function, seen from a call site at nesting depth `d` inside
functionalised bodies: every functionalised body (if/else/loop body, loop test, conditional-expression
or and/or operand) adds ONE generated frame that holds the scope object — it references `fscope`
itself or encloses a function that does, so the cell is among its free variables — plus the frames of
the operator that calls it (`if_stmt`, `_py_if_stmt`, `for_stmt`, …), which do not.  All generated
frames run code of the one generated module, so they share its globals `g`.  The frames are listed
from the innermost generated frame outwards, ending with the converted user function's frame `u`. -/
inductive GenStack (name : String) (id g : Nat) : Nat → List Frame → Frame → Prop
  | user (u : Frame) (hu : u.holds name id = true) (hg : u.globals = g) : GenStack name id g 0 [u] u
  | body (d : Nat) (b : Frame) (ops rest : List Frame) (u : Frame)
      (hb : b.holds name id = true) (hg : b.globals = g)
      (hops : ∀ f ∈ ops, f.holds name id = false)
      (hrest : GenStack name id g d rest u) : GenStack name id g (d + 1) (b :: (ops ++ rest)) u

/-- Frames of a recorded stack that hold the scope object. -/
def holders (name : String) (id : Nat) (stack : List Frame) : List Frame :=
  stack.filter (fun f => f.holds name id)

/-- Checker run on recorded real stacks: the nesting depth the stack exhibits (`none` = nobody holds
the scope object) … -/
def genDepth (name : String) (id : Nat) (stack : List Frame) : Option Nat :=
  match (holders name id stack).length with
  | 0 => none
  | n + 1 => some n

/-- … and whether every holder runs in the globals `g`. -/
def genGlobalsOk (name : String) (id g : Nat) (stack : List Frame) : Bool :=
  (holders name id stack).all (fun f => f.globals == g)

/-- `innermost=` used by the wrapper of a context-sensitive builtin (from the generated table). -/
def innermostOf (b : String) : Option Bool := frameSearchInnermost.lookup (b ++ "_in_original_context")

/-- The frame attribute `locals()`/`globals()` hand back (from the generated table). -/
def frameAttrOf (b : String) : Option String := frameResultAttr.lookup (b ++ "_in_original_context")

/-- The wrapper `converted_call` routes a context-sensitive builtin to, and the arguments it passes. -/
def wrapperOf (b : String) : Option (String × List String) := frameDispatch.lookup b

/-- A namespace `eval` can end up using. -/
inductive Ns where
  | frameGlobals (frame : Nat)
  | frameLocals (frame : Nat)
  | obj (id : Nat)
  deriving DecidableEq, Repr

/-- An explicit `globals`/`locals` argument of `eval`: `None` or a mapping. -/
inductive EArg where
  | none
  | ns (n : Ns)
  deriving DecidableEq, Repr

/-- Library reference: the (globals, locals) `eval(src, *extra)` uses when called from frame `caller`
(`none` = TypeError, more than two extra arguments). -/
def evalSpec (caller : Nat) : List EArg → Option (Ns × Ns)
  | [] => some (.frameGlobals caller, .frameLocals caller)
  | [.none] => some (.frameGlobals caller, .frameLocals caller)
  | [.ns g] => some (g, g)
  | [.none, .none] => some (.frameGlobals caller, .frameLocals caller)
  | [.none, .ns l] => some (.frameGlobals caller, l)
  | [.ns g, .none] => some (g, g)
  | [.ns g, .ns l] => some (g, l)
  | _ => none

/-- One element of the tuple `eval_in_original_context` builds; `n` = `len(args)` (source included),
`extra` = the arguments after the source. `none` = the source expression itself / IndexError. -/
def evalFwdArg (found : Nat) (n : Nat) (extra : List EArg) : EvalArg → Option EArg
  | .arg (i + 1) => extra[i]?
  | .arg 0 => none
  | .frameIfShort m attr (i + 1) =>
    if n < m then
      (if attr == "f_globals" then some (.ns (.frameGlobals found))
       else if attr == "f_locals" then some (.ns (.frameLocals found)) else none)
    else extra[i]?
  | .frameIfShort _ _ 0 => none
  | .unresolved _ => none

/-- The (globals, locals) the real `eval` uses when reached through `eval_in_original_context`:
the wrapper (frame `lib`, in py_builtins) passes the extracted tuple; `found` is the frame the
search returned. -/
def evalForward (lib found : Nat) (extra : List EArg) : Option (Ns × Ns) :=
  match evalArgs with
  | .arg 0 :: rest =>
    match mapOpt (evalFwdArg found (extra.length + 1) extra) rest with
    | some fwd => evalSpec lib fwd
    | none => none
  | _ => none

/-- The arguments are ones for which the wrapper reproduces `eval`: source only, or both namespaces
given with an explicit globals mapping. Its negation splits into the two finding classes below. -/
def evalArgsFaithful : List EArg → Bool
  | [] => true
  | [.ns _, _] => true
  | _ => false

/-- Class of C14-eval-globals-only: `eval(src, g)` with a mapping `g` and no locals argument. -/
def evalGlobalsOnly : List EArg → Bool
  | [.ns _] => true
  | _ => false

/-- Class of C14-eval-none-globals: `eval(src, None[, l])`. -/
def evalNoneGlobals : List EArg → Bool
  | [.none] => true
  | [.none, _] => true
  | _ => false

/-- `super()` without arguments, through `super_in_original_context`: `(type, obj)` read from the frame found. -/
def superArgs (fr : Frame) : Option (Nat × Nat) :=
  match fr.locals.lookup superTypeKey, fr.varnames[superSelfIndex]? with
  | some t, some v => (fr.locals.lookup v).map (fun o => (t, o))
  | _, _ => none

/-- Specification (PEP 3135): the `__class__` cell and the first argument of the *user's* function. -/
def superSpec (user : Frame) : Option (Nat × Nat) :=
  match user.locals.lookup "__class__", user.varnames with
  | some t, v :: _ => (user.locals.lookup v).map (fun o => (t, o))
  | _, _ => none

/-! ## What the user function's frame contains when `eval`/`locals` look at it

An assignment that the converter moved into a generated body function reaches the user function's
variable only if that body declares the name `nonlocal` (the converter does so for the names it
considers live after the block); otherwise it binds a local of the body. -/

structure Write where
  name : String
  value : Nat
  inBody : Bool          -- the assignment sits in a generated body function
  nonlocalDecl : Bool    -- that body function declares `nonlocal name`
  deriving DecidableEq, Repr

def applyWrites (keep : Write → Bool) : List Write → (String → Option Nat) → (String → Option Nat)
  | [], st => st
  | w :: ws, st => applyWrites keep ws (if keep w then (fun n => if n = w.name then some w.value else st n) else st)

/-- The original function's frame after the writes: every assignment binds the function's variable. -/
def origFrame (ws : List Write) (st : String → Option Nat) : String → Option Nat :=
  applyWrites (fun _ => true) ws st

/-- The converted function's own frame after the same writes. -/
def convFrame (ws : List Write) (st : String → Option Nat) : String → Option Nat :=
  applyWrites (fun w => !w.inBody || w.nonlocalDecl) ws st

/-- Class of the known finding C14-stale-dynamic-read: a name the call reads dynamically is assigned
in a generated body that does not declare it `nonlocal`. -/
def staleDynamicRead (needed : List String) (ws : List Write) : Bool :=
  needed.any (fun n => ws.any (fun w => w.name == n && w.inBody && !w.nonlocalDecl))

end Malt.Builtins
