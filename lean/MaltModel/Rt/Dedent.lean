/-
Model of `malt/pyct/parser.py`: `_unfold_continuations` and `dedent_block` (C15).

Import-free, total, executable.  Text is `List Char` (`Str`).  CPython's tokenizer is an INPUT
ORACLE: `dedentBlock` receives the token stream that `tokenize.generate_tokens` produced for the
unfolded code (type, string, start, end) and re-implements everything the code does with it:
the search for the block indentation, the tab/space check, the stripping of INDENT tokens,
`tokenize.untokenize` (3.12: position mode up to the first 2-tuple, then `compat` mode) and the
per-line leading-whitespace matching.

The second half of the file is the token/line model the theorems are stated over: tokens annotated
with the whitespace gap that precedes them (`ATok`), `renderA`, the well-formedness predicates the
driver evaluates on every real case (`wf`, `unfoldSafe`), the expected result (`adjust`) and the
line classifier (`classify`).
-/
namespace Malt.Dedent

abbrev Str := List Char

/-! ## `_unfold_continuations` : `code_string.replace('\\\n', '')` -/

def unfold : Str → Str
  | [] => []
  | [c] => [c]
  | c :: d :: r => if c = '\\' ∧ d = '\n' then unfold r else c :: unfold (d :: r)

/-- does the text contain a backslash immediately followed by a newline? -/
def hasCont : Str → Bool
  | [] => false
  | [_] => false
  | c :: d :: r => (c = '\\' ∧ d = '\n') || hasCont (d :: r)

/-! ## tokens (the oracle's output) -/

inductive Kind where
  | INDENT | DEDENT | NEWLINE | NL | COMMENT | STRING | NAME | NUMBER | OP
  | FSTRING_START | FSTRING_MIDDLE | FSTRING_END | ENDMARKER | ENCODING | OTHER
  deriving DecidableEq, Repr

def Kind.ofName? : String → Option Kind
  | "INDENT" => some .INDENT | "DEDENT" => some .DEDENT | "NEWLINE" => some .NEWLINE
  | "NL" => some .NL | "COMMENT" => some .COMMENT | "STRING" => some .STRING
  | "NAME" => some .NAME | "NUMBER" => some .NUMBER | "OP" => some .OP
  | "FSTRING_START" => some .FSTRING_START | "FSTRING_MIDDLE" => some .FSTRING_MIDDLE
  | "FSTRING_END" => some .FSTRING_END | "ENDMARKER" => some .ENDMARKER
  | "ENCODING" => some .ENCODING | _ => some .OTHER

structure Tok where
  kind : Kind
  text : Str
  srow : Nat := 0
  scol : Nat := 0
  erow : Nat := 0
  ecol : Nat := 0
  deriving DecidableEq, Repr

/-! ## per-line whitespace matching -/

/-- Python's `\s` on `str` (ASCII whitespace and the code points with `str.isspace()`). -/
def isSpace (c : Char) : Bool :=
  c = ' ' || c = '\t' || c = '\n' || c = '\r' || c = '\x0b' || c = '\x0c' ||
  c = '\x1c' || c = '\x1d' || c = '\x1e' || c = '\x1f' || c = '\u0085' || c = '\u00a0' ||
  c = '\u1680' || (0x2000 ≤ c.toNat && c.toNat ≤ 0x200a) || c = '\u2028' || c = '\u2029' ||
  c = '\u202f' || c = '\u205f' || c = '\u3000'

/-- `len(re.match(r'\s*', line).group())` -/
def lead (l : Str) : Nat := (l.takeWhile isSpace).length

/-- `s.split('\n')` -/
def splitNl : Str → List Str
  | [] => [[]]
  | c :: r =>
    if c = '\n' then [] :: splitNl r
    else match splitNl r with
      | [] => [[c]]
      | l :: ls => (c :: l) :: ls

/-- `'\n'.join(lines)` -/
def joinNl : List Str → Str
  | [] => []
  | [l] => l
  | l :: ls => l ++ '\n' :: joinNl ls

/-- one iteration of the final loop of `dedent_block` -/
def fixLine (o n : Str) : Str :=
  if lead o > lead n then o.drop (lead o - lead n) else o

/-- the final loop: `zip(code.split('\n'), new_code.split('\n'))`, then join -/
def matchLines (code new : Str) : Str :=
  joinNl (List.zipWith fixLine (splitNl code) (splitNl new))

/-! ## `tokenize.untokenize` (CPython 3.12.1) -/

/-- `re.sub('{', '{{', …)`, `re.sub('}', '}}', …)` -/
def escapeBraces (s : Str) : Str :=
  s.flatMap fun c => if c = '{' ∨ c = '}' then [c, c] else [c]

structure CState where
  indents : List Str      -- top of the stack first
  startline : Bool
  prevstring : Bool

/-- `Untokenizer.compat`: the tokens are (type, string) pairs; returns the text appended. `indents.pop()` on
an empty stack (IndexError in Python) cannot happen for a tokenizer's output; it is reported separately by
`popUnderflow`. -/
def compat (st : CState) : List Tok → Str
  | [] => []
  | t :: ts =>
    if t.kind = .ENCODING then compat st ts else
    let v0 : Str := if t.kind = .NAME ∨ t.kind = .NUMBER then t.text ++ [' '] else t.text
    let v : Str := if t.kind = .STRING ∧ st.prevstring then ' ' :: v0 else v0
    let ps : Bool := t.kind = .STRING
    if t.kind = .INDENT then compat ⟨v :: st.indents, st.startline, ps⟩ ts
    else if t.kind = .DEDENT then compat ⟨st.indents.tail, st.startline, ps⟩ ts
    else if t.kind = .NEWLINE ∨ t.kind = .NL then v ++ compat ⟨st.indents, true, ps⟩ ts
    else if st.startline ∧ st.indents ≠ [] then
      st.indents.headD [] ++ v ++ compat ⟨st.indents, false, ps⟩ ts
    else if t.kind = .FSTRING_MIDDLE then escapeBraces v ++ compat ⟨st.indents, st.startline, ps⟩ ts
    else v ++ compat ⟨st.indents, st.startline, ps⟩ ts

/-- would `indents.pop()` raise IndexError?  (depth = INDENTs seen so far in compat mode) -/
def popUnderflow (depth : Nat) : List Tok → Bool
  | [] => false
  | t :: ts =>
    if t.kind = .INDENT then popUnderflow (depth + 1) ts
    else if t.kind = .DEDENT then (depth = 0) || popUnderflow (depth - 1) ts
    else popUnderflow depth ts

/-- `Untokenizer.add_whitespace`; `none` = ValueError. -/
def addWhitespace (prevRow prevCol row col : Nat) : Option Str :=
  if row < prevRow ∨ (row = prevRow ∧ col < prevCol) then none
  else
    let rowOff := row - prevRow
    let pc := if rowOff ≠ 0 then 0 else prevCol
    some ((List.replicate rowOff ['\\', '\n']).flatten ++ List.replicate (col - pc) ' ')

def countBraces (s : Str) : Nat := (s.filter fun c => c = '{' ∨ c = '}').length

/-- `Untokenizer.untokenize`: position mode until the first 2-tuple.  In `dedent_block` exactly the INDENT
tokens are 2-tuples, so position mode never sees an INDENT (its `indents` stay empty and a DEDENT there is an
IndexError = `none`). -/
def untokFull (prevRow prevCol : Nat) : List Tok → Option Str
  | [] => some []
  | t :: ts =>
    if t.kind = .INDENT then
      if popUnderflow 0 (t :: ts) then none else some (compat ⟨[], false, false⟩ (t :: ts))
    else if t.kind = .ENCODING then untokFull prevRow prevCol ts
    else if t.kind = .ENDMARKER then some []
    else if t.kind = .DEDENT then none
    else
      let esc := t.kind = .FSTRING_MIDDLE ∧ countBraces t.text ≠ 0
      let text := if esc then escapeBraces t.text else t.text
      let ecol := if esc then t.ecol + countBraces t.text else t.ecol
      match addWhitespace prevRow prevCol t.srow t.scol with
      | none => none
      | some ws =>
        let rest :=
          if t.kind = .NEWLINE ∨ t.kind = .NL then untokFull (t.erow + 1) 0 ts
          else untokFull t.erow ecol ts
        rest.map fun r => ws ++ text ++ r

def untokenize (toks : List Tok) : Option Str := untokFull 1 0 toks

/-! ## `dedent_block` -/

inductive Err where
  | mixed      -- UnsupportedLanguageElementError: code mixing tabs and spaces
  | untok      -- ValueError / IndexError inside tokenize.untokenize
  deriving DecidableEq, Repr

/-- the first loop: `none` = the loop ends without `break` (block_indentation stays None) -/
def blockIndent : List Tok → Option Str
  | [] => none
  | t :: ts =>
    if t.kind = .INDENT then some t.text
    else if t.kind = .NL ∨ t.kind = .NEWLINE ∨ t.kind = .STRING ∨ t.kind = .COMMENT then blockIndent ts
    else some []

def mixes (usesTabs : Bool) (s : Str) : Bool :=
  (s.contains ' ' && usesTabs) || (s.contains '\t' && !usesTabs)

def stripTok (lvl : Nat) (t : Tok) : Tok :=
  if t.kind = .INDENT ∧ t.text.length ≥ lvl then { t with text := t.text.drop lvl } else t

/-- `dedent_block` after the unfolding; `toks` = tokens of `code` (possibly a prefix if the tokenizer raised
TokenError, which the code ignores). -/
def dedentCore (code : Str) (toks : List Tok) : Except Err Str :=
  match blockIndent toks with
  | none => .ok code
  | some bi =>
    if bi = [] then .ok code          -- `if not block_indentation: return code_string`
    else
      let usesTabs := bi.contains '\t'
      if toks.any (fun t => t.kind = .INDENT && mixes usesTabs t.text) then .error .mixed
      else match untokenize (toks.map (stripTok bi.length)) with
        | none => .error .untok
        | some new => .ok (matchLines code new)

/-- `dedent_block(code_string)`; `toks` is the oracle's answer for `unfold code`. -/
def dedentBlock (code : Str) (toks : List Tok) : Except Err Str :=
  dedentCore (unfold code) toks

/-! ## line classifier (from the same tokens) -/

inductive LineClass where
  | start            -- first physical line of a logical line
  | cont             -- continuation inside brackets
  | strInterior      -- the line begins inside a multi-line (string) token
  | blankOrComment
  | none             -- no token starts on the line (after the last newline)
  deriving DecidableEq, Repr

def zeroWidth (k : Kind) : Bool := k = .INDENT || k = .DEDENT || k = .ENDMARKER || k = .ENCODING

/-- classes of rows `lastRow+1 …`; `logical` = the next code token starts a logical line -/
def classifyGo (lastRow : Nat) (logical : Bool) : List Tok → List LineClass
  | [] => []
  | t :: ts =>
    if zeroWidth t.kind then classifyGo lastRow logical ts
    else
      let cls : LineClass :=
        if t.kind = .NL ∨ t.kind = .COMMENT then .blankOrComment
        else if t.kind = .NEWLINE then (if logical then .start else .cont)
        else if logical then .start else .cont
      let logical' := if t.kind = .NEWLINE then true
                      else if t.kind = .NL ∨ t.kind = .COMMENT then logical else false
      if t.srow > lastRow then
        List.replicate (t.srow - lastRow - 1) LineClass.none ++ [cls] ++
          List.replicate (t.erow - t.srow) LineClass.strInterior ++ classifyGo (max t.erow t.srow) logical' ts
      else if t.erow > lastRow then
        List.replicate (t.erow - lastRow) LineClass.strInterior ++ classifyGo t.erow logical' ts
      else classifyGo lastRow logical' ts

/-- class of each of the first `n` physical lines -/
def classify (toks : List Tok) (n : Nat) : List LineClass :=
  let cs := classifyGo 0 true toks
  (cs ++ List.replicate (n - cs.length) LineClass.none).take n

/-- does `out` arise from `line` by deleting leading whitespace only? -/
def wsTrimOf (line out : Str) : Bool :=
  out.length ≤ line.length && line.drop (line.length - out.length) == out &&
    (line.take (line.length - out.length)).all isSpace

/-- the text-level specification of dedenting by the prefix `p`, line by line -/
def specLine (p : Str) : LineClass → Str → Str → Bool
  | .start, line, out =>
      -- a logical line that does not start with the block prefix (only possible below the block's own
      -- level, i.e. in text that is not one block) is merely required to change in leading whitespace
      if p.isPrefixOf line then out == line.drop p.length else wsTrimOf line out
  | .strInterior, line, out => out == line
  | _, line, out => wsTrimOf line out

def specLines (p : Str) : List LineClass → List Str → List Str → Bool
  | [], [], [] => true
  | c :: cs, l :: ls, o :: os => specLine p c l o && specLines p cs ls os
  | _, _, _ => false

/-- `out` is `code` dedented by the block indentation the tokens announce (the spec the theorem proves of
the model and the harness checks of the real output). -/
def specOk (code : Str) (toks : List Tok) (out : Str) : Bool :=
  match blockIndent toks with
  | none => out == code
  | some p =>
    let ls := splitNl code
    specLines p (classify toks ls.length) ls (splitNl out)

/-! ## the token/line model of the theorems: tokens with the gap that precedes them -/

structure ATok where
  gap : Str
  tok : Tok
  deriving DecidableEq, Repr

/-- what a token contributes to the text: an INDENT is zero-width (its characters are the gap of the token
that follows it); the literal part of an f-string (FSTRING_MIDDLE) appears in the source with its braces
doubled (`{{` is tokenized as `{`), every other token appears as its string. -/
def vis (t : Tok) : Str :=
  if t.kind = .INDENT then [] else if t.kind = .FSTRING_MIDDLE then escapeBraces t.text else t.text

def renderA (as : List ATok) : Str := as.flatMap fun a => a.gap ++ vis a.tok

def isBlank (c : Char) : Bool := c = ' ' || c = '\t'

/-- keep at most the last `k` characters of a whitespace gap -/
def trimTo (k : Nat) (gap : Str) : Str :=
  if gap.length > k then gap.drop (gap.length - k) else gap

/-- Expected effect of `dedent_block` on the gaps (token texts are never changed): `stack` mirrors the
`indents` of `compat` (INDENT strings minus the first `lvl` characters), `startline` its flag. -/
def adjustGo (lvl : Nat) (stack : List Str) (startline : Bool) : List ATok → List ATok
  | [] => []
  | a :: as =>
    if a.tok.kind = .INDENT then a :: adjustGo lvl (a.tok.text.drop lvl :: stack) startline as
    else if a.tok.kind = .DEDENT then a :: adjustGo lvl stack.tail startline as
    else if a.tok.kind = .NEWLINE ∨ a.tok.kind = .NL then
      { a with gap := if startline then [] else a.gap } :: adjustGo lvl stack true as
    else
      { a with gap := if startline then trimTo (stack.headD []).length a.gap else a.gap } ::
        adjustGo lvl stack false as

/-- `compat` starts with `startline = False`, but the first INDENT, stripped, is empty, so prepending it or
not gives the same text: the expected result starts with `startline = true`. -/
def adjust (p : Str) (as : List ATok) : List ATok := adjustGo p.length [] true as

/-! ### well-formedness of an annotated token stream for the dedent theorem (decidable; evaluated by the
driver on the real token stream of every case, so on real cases it is checked, not assumed) -/

def noNl (s : Str) : Bool := s.all (· ≠ '\n')
def headNonSpace : Str → Bool
  | [] => false
  | c :: _ => !isSpace c
def lastNonSpace : Str → Bool
  | [] => false
  | [c] => !isSpace c
  | _ :: r => lastNonSpace r

/-- a single-line token: non-empty, no newline, starts with a non-blank -/
def wordLike (s : Str) : Bool := noNl s && headNonSpace s

structure WState where
  depth : Nat            -- height of compat's `indents` stack
  startline : Bool       -- compat's flag
  afterMiddle : Bool     -- the previous token was an FSTRING_MIDDLE: the physical line may still consist of
                         -- whitespace only, so no gap may follow

def wfGo (p : Str) (st : WState) : List ATok → Bool
  | [] => true
  | a :: as =>
    a.gap.all isBlank &&
    match a.tok.kind with
    | .INDENT => a.gap == [] && a.tok.text.all isBlank && decide (p.length ≤ a.tok.text.length) &&
        !mixes (p.contains '\t') a.tok.text && !st.afterMiddle && wfGo p ⟨st.depth + 1, st.startline, false⟩ as
    | .DEDENT => a.gap == [] && a.tok.text == [] && st.depth != 0 && !st.afterMiddle &&
        wfGo p ⟨st.depth - 1, st.startline, false⟩ as
    | .ENDMARKER => a.gap == [] && a.tok.text == [] && st.depth == 0 && as.isEmpty
    | .NEWLINE | .NL => a.tok.text == ['\n'] && (!st.afterMiddle || a.gap == []) && wfGo p ⟨st.depth, true, false⟩ as
    | .FSTRING_MIDDLE => a.gap == [] && !st.startline && wfGo p ⟨st.depth, false, true⟩ as
    | .STRING => headNonSpace a.tok.text && lastNonSpace a.tok.text && st.depth != 0 && !st.afterMiddle &&
        wfGo p ⟨st.depth, false, false⟩ as
    | .NAME | .NUMBER | .OP | .COMMENT | .FSTRING_START | .FSTRING_END =>
        wordLike a.tok.text && st.depth != 0 && (!st.afterMiddle || a.gap == []) &&
        wfGo p ⟨st.depth, false, false⟩ as
    | .ENCODING | .OTHER => false

/-- the stream starts with the INDENT that announces the block indentation `p` (non-empty, blanks only, not
mixing tabs and spaces) and continues with a code token -/
def wf (p : Str) (as : List ATok) : Bool :=
  match as with
  | a :: b :: rest => a.tok.kind = .INDENT && a.tok.text == p && a.gap == [] && p != [] &&
      p.all isBlank && !mixes (p.contains '\t') p &&
      !zeroWidth b.tok.kind && b.tok.kind != .FSTRING_MIDDLE &&
      wfGo p ⟨1, true, false⟩ (b :: rest)
  | _ => false

/-- the tokenizer's indentation discipline: the first token of every logical line is preceded by exactly
the indentation string on top of the INDENT stack, which extends `p`.  (`stack` holds the full INDENT
strings; `logical` = the next code token starts a logical line.) -/
def startsOkGo (p : Str) (stack : List Str) (logical : Bool) : List ATok → Bool
  | [] => true
  | a :: as =>
    if a.tok.kind = .INDENT then p.isPrefixOf a.tok.text && startsOkGo p (a.tok.text :: stack) logical as
    else if a.tok.kind = .DEDENT then startsOkGo p stack.tail logical as
    else if a.tok.kind = .NEWLINE then startsOkGo p stack true as
    else if a.tok.kind = .NL ∨ a.tok.kind = .COMMENT ∨ a.tok.kind = .ENDMARKER then startsOkGo p stack logical as
    else (!logical || a.gap == stack.headD []) && startsOkGo p stack false as

def startsOk (p : Str) (as : List ATok) : Bool := startsOkGo p [] true as

/-- The text-level specification of dedenting by `p`, token by token (`as` = before, `bs` = after):
tokens are never touched (so string literals, including their interior lines, are preserved verbatim);
the gap before the first token of a LOGICAL line loses exactly the prefix `p`; the gap before the first token
of any other physical line (blank line, comment line, continuation inside brackets) only loses leading blanks;
every other gap is unchanged.  `logical` = the next code token starts a logical line, `startline` = the next
token is the first of its physical line. -/
def dedentSpecGo (p : Str) (logical startline : Bool) : List ATok → List ATok → Bool
  | [], [] => true
  | a :: as, b :: bs =>
    a.tok == b.tok &&
    (if zeroWidth a.tok.kind then
       b.gap == a.gap && dedentSpecGo p logical startline as bs
     else if a.tok.kind = .NEWLINE ∨ a.tok.kind = .NL then
       (if startline then b.gap == [] else b.gap == a.gap) &&
         dedentSpecGo p (logical || a.tok.kind = .NEWLINE) true as bs
     else if a.tok.kind = .COMMENT then
       (if startline then b.gap == a.gap.drop (a.gap.length - b.gap.length) else b.gap == a.gap) &&
         dedentSpecGo p logical false as bs
     else
       (if startline && logical then a.gap == p ++ b.gap
        else if startline then b.gap == a.gap.drop (a.gap.length - b.gap.length)
        else b.gap == a.gap) &&
         dedentSpecGo p false false as bs)
  | _, _ => false

def dedentSpec (p : Str) (as bs : List ATok) : Bool := dedentSpecGo p true true as bs

/-! ### the token/line model for the unfolding theorem (tokens of the ORIGINAL code: gaps may contain
backslash-newline continuations) -/

/-- a gap is blanks and continuations only -/
def gapOk : Str → Bool
  | [] => true
  | [c] => isBlank c
  | c :: d :: r => if isBlank c then gapOk (d :: r) else c = '\\' && d = '\n' && gapOk r

def endsBs (s : Str) : Bool := s.getLast? = some '\\'

/-- no backslash-newline inside (or straddling the end of) a token text -/
def textSafe (t : Tok) : Bool := !hasCont (vis t) && !endsBs (vis t)

/-- hypothesis of `C15_unfold_partial`: every backslash-newline is a continuation between tokens -/
def unfoldSafe (as : List ATok) : Bool := as.all fun a => gapOk a.gap && textSafe a.tok

def unfoldGaps (as : List ATok) : List ATok := as.map fun a => { a with gap := unfold a.gap }

/-- class `backslash_newline_inside_string_or_comment` -/
def contInsideToken (as : List ATok) : Bool := as.any fun a => !textSafe a.tok

def isDelim (c : Char) : Bool :=
  c = '(' || c = ')' || c = '[' || c = ']' || c = '{' || c = '}' || c = ',' || c = ';'

/-- `prev` = text of the last visible token before the position (`none` at the start of a physical line) -/
def joinsGo (prev : Option Str) : List ATok → Bool
  | [] => false
  | a :: as =>
    let v := vis a.tok
    let here := match prev with
      | some pt => hasCont a.gap && unfold a.gap == [] && v ≠ [] &&
          !(pt.getLast?.any isDelim || v.head?.any isDelim)
      | none => false
    let prev' := if a.tok.kind = .NEWLINE ∨ a.tok.kind = .NL then none
                 else if v = [] then prev else some v
    here || joinsGo prev' as

/-- class `backslash_newline_joins_adjacent_tokens`: a continuation with no blank on either side between two
tokens that are not bracket/comma delimiters -/
def contJoinsTokens (as : List ATok) : Bool := joinsGo none as

def indentGo (lineStart : Bool) : List ATok → Bool
  | [] => false
  | a :: as =>
    let ls' := if a.tok.kind = .NEWLINE ∨ a.tok.kind = .NL then true
               else if vis a.tok = [] then lineStart else false
    (lineStart && hasCont a.gap) || indentGo ls' as

/-- class `backslash_newline_in_indentation`: a continuation before the first token of a physical line -/
def contInIndentation (as : List ATok) : Bool := indentGo true as

end Malt.Dedent
