import MaltModel.Util.Sexp
import MaltModel.Generated.Errors
/-!
# Model of malt's error location machinery (property C12)

* `createSourceMap`   — `origin_info.create_source_map`: the fold over the parallel walk of the
  transformed tree and the re-parsed generated source, with the overlap rules the code implements.
* `stackInsideMappedCode` — `error_utils._stack_trace_inside_mapped_code`.
* `Metadata.init`, `attach` — `error_utils.ErrorMetadataBase.__init__` (daisy chaining) and
  `api._attach_error_metadata`.
* `createException` — `ErrorMetadataBase.create_exception` + `api._ErrorMetadata.create_exception`.
* `origin inheritance` — `transformer.Base.visit`, `origin_info.copy_origin` on abstract node lists.

Small, total, computable definitions; the model describes the code that exists (including what it does
with entries that are not lines of the generated file, see `WalkItem`).
-/
namespace Malt.Errors

/-! ## Locations, origins, source maps -/

/-- `origin_info.LineLocation`. -/
structure LineLoc where
  file : String
  line : Nat
  deriving DecidableEq, Repr, Inhabited

/-- `origin_info.OriginInfo` (`loc.filename`, `loc.lineno`, `loc.col_offset`, `function_name`,
`source_code_line`; the comment is never used by the code modelled here). -/
structure Origin where
  file : String
  line : Nat
  col : Nat
  fn : Option String
  code : String
  deriving DecidableEq, Repr, Inhabited

def Origin.lineLoc (o : Origin) : LineLoc := ⟨o.file, o.line⟩

/-- One pair yielded by `ast_util.parallel_walk(nodes, reparsed_nodes)`:
`key` is the `ORIGIN` annotation of the re-parsed node (its position; `none` when the node kind has no
position), `origin` the `ORIGIN` annotation of the transformed node (`none` for generated nodes that
inherited nothing).  NB: `key.file` is *not* forced to be the generated file — the expression-context
singletons (`ast.Load()` …) are shared between both trees, so the pair (n, n) carries whatever
annotation `copy_origin` last left on them, on both sides. -/
structure WalkItem where
  key : Option LineLoc
  origin : Option Origin
  deriving DecidableEq, Repr, Inhabited

/-- The source map: a Python `dict` in insertion order. -/
abbrev SourceMap := List (LineLoc × Origin)

def get : SourceMap → LineLoc → Option Origin
  | [], _ => none
  | (k', o) :: m, k => if k' = k then some o else get m k

/-- `source_map[k] = o` (a replaced key keeps its position). -/
def set : SourceMap → LineLoc → Origin → SourceMap
  | [], k, o => [(k, o)]
  | (k', o') :: m, k, o => if k' = k then (k, o) :: m else (k', o') :: set m k o

/-- Does the existing entry `ex` survive a further node with origin `o` on the same generated line?
```
if existing.loc.line_loc == origin.loc.line_loc:
  if existing.loc.lineno >= origin.loc.lineno: continue        # "keep bottom node"
if existing.loc.col_offset <= origin.loc.col_offset: continue  # "keep the leftmost node"
``` -/
def keep (ex o : Origin) : Bool :=
  (decide (ex.lineLoc = o.lineLoc) && decide (ex.line ≥ o.line)) || decide (ex.col ≤ o.col)

def step (m : SourceMap) (it : WalkItem) : SourceMap :=
  match it.key, it.origin with
  | some k, some o =>
    match get m k with
    | some ex => if keep ex o then m else set m k o
    | none => set m k o
  | _, _ => m

/-- `origin_info.create_source_map`, given the walk. -/
def createSourceMap (items : List WalkItem) : SourceMap := items.foldl step []

/-- The per-line view of the overlap rules: what one generated line ends up mapped to, as a fold over
the origins of the annotated nodes on that line, in walk order. -/
def pickStep (cur : Option Origin) (o : Origin) : Option Origin :=
  match cur with
  | none => some o
  | some ex => if keep ex o then some ex else some o

def pick (os : List Origin) : Option Origin := os.foldl pickStep none

/-- Origins of the annotated nodes whose re-parsed counterpart sits at `k`, in walk order. -/
def originsAt (items : List WalkItem) (k : LineLoc) : List Origin :=
  items.filterMap fun it => if it.key = some k then it.origin else none

/-! ## Tracebacks and the translated stack -/

/-- One entry of `traceback.extract_tb` (`filename, lineno, name, line`). -/
structure Frame where
  file : String
  line : Nat
  fn : String
  code : String
  deriving DecidableEq, Repr, Inhabited

/-- `error_utils.FrameInfo`. -/
structure FrameInfo where
  file : String
  line : Nat
  fn : Option String
  code : String
  converted : Bool
  allowlisted : Bool
  deriving DecidableEq, Repr, Inhabited

def FrameInfo.ofOrigin (o : Origin) : FrameInfo :=
  { file := o.file, line := o.line, fn := o.fn, code := o.code, converted := true, allowlisted := false }

def FrameInfo.plain (f : Frame) : FrameInfo :=
  { file := f.file, line := f.line, fn := some f.fn, code := f.code, converted := false, allowlisted := false }

/-- `result_frames[-1] = prev._replace(is_converted=False, is_allowlisted=True)` when there is a previous frame. -/
def markAllow : List FrameInfo → List FrameInfo
  | [] => []
  | [x] => [{ x with converted := false, allowlisted := true }]
  | x :: y :: r => x :: markAllow (y :: r)

/-- The loop of `_stack_trace_inside_mapped_code` over `reversed(tb)`; `acc` is `result_frames`. -/
def scan (m : SourceMap) (conv : String) : List Frame → List FrameInfo → List FrameInfo
  | [], acc => acc
  | f :: rest, acc =>
    match get m ⟨f.file, f.line⟩ with
    | some o => acc ++ [FrameInfo.ofOrigin o]                       -- append, break
    | none =>
      if Gen.Errors.converterFrameTest f.file conv then scan m conv rest (markAllow acc)   -- elided, previous frame marked
      else scan m conv rest (acc ++ [FrameInfo.plain f])

/-- `error_utils._stack_trace_inside_mapped_code(tb, source_map, converter_filename)`;
`tb` outermost first, result innermost first. -/
def stackInsideMappedCode (tb : List Frame) (m : SourceMap) (conv : String) : List FrameInfo :=
  scan m conv tb.reverse []

/-- What the scan does to frames that are not in the map (no lookup). -/
def elide (conv : String) : List Frame → List FrameInfo → List FrameInfo
  | [], acc => acc
  | f :: rest, acc =>
    if Gen.Errors.converterFrameTest f.file conv then elide conv rest (markAllow acc) else elide conv rest (acc ++ [FrameInfo.plain f])

/-- `ErrorMetadataBase`: `translated_stack` (innermost first) and `cause_message`. -/
structure Metadata where
  stack : List FrameInfo
  cause : String
  deriving DecidableEq, Repr, Inhabited

/-- `ErrorMetadataBase.__init__`; `none` models the `IndexError` of `translated_stack[-1]` on an empty stack. -/
def Metadata.init (tb : List Frame) (causeMd : Option Metadata) (causeMsg : String)
    (m : SourceMap) (conv : String) : Option Metadata :=
  let ts := stackInsideMappedCode tb m conv
  match causeMd with
  | none => some ⟨ts, causeMsg⟩
  | some c =>
    match ts.getLast? with
    | some l => some ⟨c.stack ++ [l], c.cause⟩      -- daisy chain: only the outermost translated frame is added
    | none => none

/-- `api._attach_error_metadata(e, f)`: `fullTb = traceback.extract_tb(sys.exc_info()[2])` at the
`except` clause of `converted_call`; `prev = getattr(e, 'ag_error_metadata', None)`. -/
def attach (fullTb : List Frame) (prev : Option Metadata) (excName excStr : String)
    (m : SourceMap) (apiFile : String) : Option Metadata :=
  Metadata.init (fullTb.drop Gen.Errors.attachDropsFrames) prev (excName ++ ": " ++ excStr) m apiFile

/-- One converted_call level as the harness records it: the traceback and the source map of the callee. -/
structure Level where
  tb : List Frame
  map : SourceMap

/-- The metadata after the exception has travelled through the given `converted_call` levels,
innermost level first (the order in which `_attach_error_metadata` runs). -/
def attachAll (excName excStr apiFile : String) : List Level → Option Metadata → Option (Option Metadata)
  | [], prev => some prev
  | l :: ls, prev =>
    match attach l.tb prev excName excStr l.map apiFile with
    | none => none
    | some md => attachAll excName excStr apiFile ls (some md)

/-! ## Nested wrappers: the exception as it travels (re-raise path) -/

/-- What the error machinery looks at on an exception object in flight:
`getattr(e, 'ag_error_metadata', None)` and `hasattr(e, 'ag_pass_through')`. -/
structure ExcState where
  md : Option Metadata
  passThrough : Bool
  deriving DecidableEq, Repr, Inhabited

/-- `api._attach_error_metadata(e, f)` on the exception in flight (the `except` clause of one `converted_call`). -/
def attachState (fullTb : List Frame) (s : ExcState) (excName excStr : String) (m : SourceMap) (apiFile : String) :
    Option ExcState :=
  if Gen.Errors.attachHonoursPassThrough && s.passThrough then some s
  else (attach fullTb s.md excName excStr m apiFile).map fun md => { s with md := some md }

/-- `convert().wrapper`: `if hasattr(e, 'ag_error_metadata'): raise e.ag_error_metadata.to_exception(e)` — a NEW
exception object carrying the same metadata; `else: raise` — the same object. -/
def wrapperRethrow (s : ExcState) : ExcState :=
  match s.md with
  | some md => { md := some md, passThrough := Gen.Errors.toExceptionSetsPassThrough }
  | none => s

/-- What happens to the exception on its way out, innermost first. -/
inductive Event where
  | attach (lv : Level)      -- the `except` clause of a `converted_call` whose callee was converted
  | rethrow                  -- a `malt.convert` wrapper

def runEvents (excName excStr apiFile : String) : List Event → ExcState → Option ExcState
  | [], s => some s
  | .attach lv :: es, s =>
    match attachState lv.tb s excName excStr lv.map apiFile with
    | none => none
    | some s' => runEvents excName excStr apiFile es s'
  | .rethrow :: es, s => runEvents excName excStr apiFile es (wrapperRethrow s)

/-! ## The message -/

def isWs (c : Char) : Bool := c == ' ' || c == '\t' || c == '\n' || c == '\r'

/-- `str.strip()` (ASCII white space). -/
def strip (s : String) : String :=
  String.ofList ((s.toList.dropWhile isWs).reverse.dropWhile isWs).reverse

def splitLinesAux : List Char → List Char → List String
  | [], cur => [String.ofList cur.reverse]
  | c :: cs, cur => if c = '\n' then String.ofList cur.reverse :: splitLinesAux cs [] else splitLinesAux cs (c :: cur)

/-- `str.split('\n')` -/
def splitLines (s : String) : List String := splitLinesAux s.toList []

def frameLines (fi : FrameInfo) : List String :=
  [ "    File \"" ++ fi.file ++ "\", line " ++ toString fi.line ++ ", in " ++ (fi.fn.getD "None")
      ++ (if fi.converted then "  *" else if fi.allowlisted then "  **" else ""),
    "        " ++ strip fi.code ]

/-- `ErrorMetadataBase.get_message()` as a list of lines. -/
def getMessageLines (md : Metadata) : List String :=
  ["in user code:", ""] ++ (md.stack.reverse.flatMap frameLines) ++ [""]
    ++ (splitLines md.cause).map ("    " ++ ·) ++ [""]

/-! ## Re-creation of the exception -/

/-- The facts about the exception's type `T` that the code tests (and the ones the property speaks about). -/
structure ExcType where
  name : String
  /-- `T` is defined by the user (not a builtin and not one of malt's own error classes). -/
  userDefined : Bool
  /-- `T in (errors.PyCTError, AutoGraphError, ConversionError, StagingError)` -/
  isMaltError : Bool
  /-- `T.__init__ is Exception.__init__` -/
  initIsExceptionInit : Bool
  /-- some user-defined class in `T.__mro__` defines `__init__` (T's initialiser is not a builtin's) -/
  userInit : Bool
  /-- name of the first builtin class in `T.__mro__` -/
  nearestBuiltin : String
  deriving DecidableEq, Repr, Inhabited

inductive Created where
  | sameType           -- `T(message)`
  | keyErrorSubclass   -- `MultilineMessageKeyError(message, cause)`: a KeyError whose `__name__` is "KeyError"
  | staging            -- `StagingError(message)`
  deriving DecidableEq, Repr, Inhabited

/-- `T in KNOWN_STRING_CONSTRUCTOR_ERRORS` (membership of the class object: builtin of that name). -/
def inKnown (t : ExcType) : Bool :=
  !t.userDefined && !t.isMaltError && Gen.Errors.knownStringConstructorErrors.contains t.name

/-- `T is KeyError` -/
def isKeyError (t : ExcType) : Bool := !t.userDefined && !t.isMaltError && t.name == "KeyError"

/-- `error_utils.ErrorMetadataBase.create_exception`: `none` = returns `None`. -/
def baseCreate (t : ExcType) : Option Created :=
  let r0 : Option Created := if t.initIsExceptionInit then some .sameType else none
  let r1 : Option Created :=
    if inKnown t then some .sameType
    else if isKeyError t then some .keyErrorSubclass
    else r0
  r1

/-- `api._ErrorMetadata.create_exception`. -/
def createException (t : ExcType) : Created :=
  if t.isMaltError then .sameType
  else match baseCreate t with
    | some c => c
    | none => .staging

/-- The type of the exception a rewrite produces, as the next wrapper will see it:
`MultilineMessageKeyError` is a class of malt's (`__name__ == "KeyError"`, own `__init__(message, original_key)`). -/
def typeAfter (t : ExcType) : Created → ExcType
  | .sameType => t
  | .keyErrorSubclass => { name := "KeyError", userDefined := true, isMaltError := false, initIsExceptionInit := false,
                           userInit := true, nearestBuiltin := "KeyError" }
  | .staging => { name := Gen.Errors.fallbackError, userDefined := false, isMaltError := true, initIsExceptionInit := true,
                  userInit := false, nearestBuiltin := "Exception" }

/-- The type reaching the caller after `n+1` nested wrappers have each re-created the exception. -/
def rewriteN (t : ExcType) : Nat → ExcType
  | 0 => typeAfter t (createException t)
  | n + 1 => let t' := rewriteN t n; typeAfter t' (createException t')

/-- How CPython resolves `T.__init__` (a fact about the interpreter, checked on every class the harness uses):
it is `Exception.__init__` exactly when no user class in the MRO defines one and the first builtin in
the MRO is `Exception` itself (every other builtin exception type has its own slot wrapper). -/
def ExcType.wf (t : ExcType) : Bool :=
  (t.initIsExceptionInit == (!t.userInit && t.nearestBuiltin == "Exception"))
  && (t.userDefined || t.isMaltError || t.nearestBuiltin == t.name)     -- a builtin is its own nearest builtin
  && (t.userDefined || !t.userInit)                                       -- only user classes have user initialisers
  && (!t.isMaltError || (!t.userDefined && !t.userInit && t.nearestBuiltin == "Exception"))

/-- The nearest builtin base "takes a plain message": the documented builtins. -/
def plainBuiltin (nb : String) : Bool :=
  Gen.Errors.knownStringConstructorErrors.contains nb || nb == "Exception" || nb == "KeyError"

/-- The property's rule: the type is kept iff it "takes a plain message and defines no initialiser of
its own": the documented builtins (`KNOWN_STRING_CONSTRUCTOR_ERRORS`, `KeyError` as a same-named
subclass, `Exception` itself, malt's own errors) and every user class that adds no initialiser to one
of them. -/
def expectedSame (t : ExcType) : Bool :=
  t.isMaltError || inKnown t || isKeyError t ||
    (!t.userInit && ((t.userDefined && plainBuiltin t.nearestBuiltin) || (!t.userDefined && t.name == "Exception")))

/-- The class of types on which the pinned code deviates from the rule (known finding
`C12-builtin-derived-type`): a user class without an initialiser of its own whose nearest builtin
base takes a plain message but is not `Exception` — `T.__init__` is then that builtin's slot wrapper,
not `Exception.__init__`, and `T` itself is not in the list. -/
def inheritsBuiltinInit (t : ExcType) : Bool :=
  t.userDefined && !t.userInit && t.nearestBuiltin != "Exception" && plainBuiltin t.nearestBuiltin

/-! ## Origin inheritance (`transformer.Base.visit`, `origin_info.copy_origin`) -/

/-- An AST node as far as origins are concerned: its own annotation and its children. -/
inductive ONode where
  | mk (origin : Option Origin) (children : List ONode)
  deriving Repr, Inhabited

def ONode.origin : ONode → Option Origin
  | .mk o _ => o

/-- `Base.visit`: "all replacements receive the origin info of the replaced node" — only the top-level
replacement nodes, and only those that carry none yet. `inherited = node.origin or parent_origin`. -/
def inheritOrigin (nodeOrigin parentOrigin : Option Origin) (result : List ONode) : List ONode :=
  match nodeOrigin.orElse (fun _ => parentOrigin) with
  | none => result
  | some o => result.map fun
      | .mk none cs => .mk (some o) cs
      | n => n

mutual
/-- `copy_origin`: every node of `ast.walk(to_node)` receives the origin (overwriting). -/
def copyOriginNode (o : Origin) : ONode → ONode
  | .mk _ cs => .mk (some o) (copyOriginList o cs)
def copyOriginList (o : Origin) : List ONode → List ONode
  | [] => []
  | n :: ns => copyOriginNode o n :: copyOriginList o ns
end

def copyOrigin (from_ : Option Origin) (to : List ONode) : List ONode :=
  match from_ with
  | none => to
  | some o => copyOriginList o to

mutual
def allOrigins : ONode → List (Option Origin)
  | .mk o cs => o :: allOriginsList cs
def allOriginsList : List ONode → List (Option Origin)
  | [] => []
  | n :: ns => allOrigins n ++ allOriginsList ns
end

end Malt.Errors
