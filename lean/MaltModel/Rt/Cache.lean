import MaltModel.Rt.Options
/-
Model of the conversion cache of `malt.pyct.transpiler.PyToPy.transform_function` (C10).
Executable; imports only the options model (`Rt/Options.lean`, C20), whose `eq`/`hash` are the
subkey comparison of the buckets.

What is modelled, following the code statement by statement
(`transpiler.py: PyToPy.transform_function / _cached_factory`, `cache.py: _TransformedFnCache.has /
__getitem__`, `CodeObjectCache._get_key`):

    cache_subkey = self.get_caching_key(user_context)          -- idle   -> has1 false
    if self._cache.has(fn, cache_subkey):                      -- has1: parent = _cache.get(code)      (one dict op)
                                                               -- has2: subkey in parent               (one dict op)
      factory = self._cached_factory(fn, cache_subkey)         -- get1: parent = _cache.get(code)
                                                               -- get1c: _cache[code] = parent = {}    (only if get1 saw None)
                                                               -- get2: parent[subkey]                 (KeyError if absent)
    else:
      with self._cache_lock:                                   -- acq    (threading.RLock, re-entrant)
        if self._cache.has(fn, cache_subkey):                  -- has1 true / has2 true
          factory = self._cached_factory(fn, cache_subkey)     -- get1 true / get1c true / get2 true
        else:
          nodes, ctx = super().transform_function(fn, ...)     -- xform  (parse + transform_ast + factory.create; a
          factory = _PythonFnFactory(...); factory.create(...)     --   success is counted in `xlog`; an exception goes to `rel none`)
          self._cache[fn][cache_subkey] = factory              -- st1: parent = _cache.get(code); st1c: _cache[code] = {}
                                                               -- st2: parent[subkey] = factory
                                                               -- rel    (end of `with`, also on exception)
    transformed_fn = factory.instantiate(globals_=fn.__globals__, closure=fn.__closure__, defaults=...)   -- inst

Every dict operation is one atomic step (GIL granularity); thread-local values (`parent`, `factory`)
live in the program counter.

The outer dictionary is a `weakref.WeakKeyDictionary` keyed by the code object.  Two facts of
CPython are part of the model because the code depends on them:
* a live `weakref.ref` hashes and compares like its referent, and `code.__eq__` is *structural*
  (bytecode, constants, names, line table, first line — not the file name, not identity).  So the
  outer lookup matches on the *value* of the code object (`Code.val`), while the entry stays tied to
  the *identity* (`Code.id`) of the key object that created it and disappears when that object dies
  (`gc`);
* `d[k] = v` with an equal key already present keeps the old key object.

`transform` is the uninterpreted partial function `T (code object) (options) (sig of the requester's
namespace)` (`none` = the conversion raises, e.g. `UnsupportedLanguageElementError`; the exception
leaves the `with` block, which releases the lock, and nothing is cached — a later request retries):
the source text is found through the code *object* (`co_filename`, `co_firstlineno` —
the file name is not part of the value, and neither are annotations, decorators or default
expressions of the `def`), and the implementation feeds the namespace (globals + closure values) of
the function that happens to trigger the conversion to the directive resolver and to the namer.
`Env.sig` is that part of a function's environment that the conversion inspects.
-/
namespace Malt.Cache

abbrev Tid := Nat

/-- A code object: identity and structural value (what `code.__eq__`/`__hash__` see). -/
structure Code where
  id : Nat
  val : Nat
  deriving DecidableEq, Repr, Inhabited

/-- The environment of one function object: globals, closure cells, defaults (identity `id`), and
`sig`, the view of its namespace that the conversion depends on. -/
structure Env where
  id : Nat
  sig : Nat
  deriving DecidableEq, Repr, Inhabited

structure Request (Opts : Type) where
  code : Code
  opts : Opts
  env : Env
  deriving DecidableEq

section dicts
variable {Opts Factory : Type} [BEq Opts] [Hashable Opts]

/-- Key comparison of a Python `dict`: equal hash and `__eq__`. -/
def keyMatch (a b : Opts) : Bool := hash a == hash b && a == b

/-- `subkey in parent` / `parent[subkey]` on a bucket `{options: factory}`. -/
def bfind (o : Opts) : List (Opts × Factory) → Option Factory
  | [] => none
  | (k, v) :: r => if keyMatch k o then some v else bfind o r

/-- `parent[subkey] = factory` (an equal key already present keeps the old key object). -/
def bset (o : Opts) (f : Factory) : List (Opts × Factory) → List (Opts × Factory)
  | [] => [(o, f)]
  | (k, v) :: r => if keyMatch k o then (k, f) :: r else (k, v) :: bset o f r

/-- `WeakKeyDictionary.get(code)`: matches on the structural value of the code object. -/
def ofind (c : Code) : List (Code × Nat) → Option Nat
  | [] => none
  | (k, b) :: r => if k.val = c.val then some b else ofind c r

/-- `WeakKeyDictionary.__setitem__(code, bucket)`. -/
def oset (c : Code) (b : Nat) : List (Code × Nat) → List (Code × Nat)
  | [] => [(c, b)]
  | (k, b') :: r => if k.val = c.val then (k, b) :: r else (k, b') :: oset c b r

/-- The weak reference callback: the entry whose key *object* is `c` disappears. -/
def ogc (c : Code) (m : List (Code × Nat)) : List (Code × Nat) :=
  m.filter (fun e => decide (e.1 ≠ c))

end dicts

/-- Program counter of one thread inside `transform_function`; thread-local values are arguments.
`lk` = the thread is inside `with self._cache_lock`.  `own` is ghost: the factory was stored by this
very request (used only by the refinement mapping). -/
inductive Pc (Factory : Type) where
  | idle
  | has1 (lk : Bool)
  | has2 (lk : Bool) (b : Nat)
  | get1 (lk : Bool)
  | get1c (lk : Bool)
  | get2 (lk : Bool) (b : Nat)
  | acq
  | xform
  | st1 (f : Factory)
  | st1c (f : Factory)
  | st2 (f : Factory) (b : Nat)
  | rel (res : Option Factory) (own : Bool)
  | inst (f : Factory) (own : Bool)
  deriving Repr

/-- Is the thread inside the critical section? -/
def Pc.locked {Factory : Type} : Pc Factory → Bool
  | .has1 lk | .has2 lk _ | .get1 lk | .get1c lk | .get2 lk _ => lk
  | .xform | .st1 _ | .st1c _ | .st2 _ _ | .rel _ _ => true
  | .idle | .acq | .inst _ _ => false

/-- A thread: remaining requests (the head is the one in progress when `pc ≠ idle`) and the
outcomes of the finished ones: `some f` = the request returned `f.instantiate(own environment)`,
`none` = it raised (the conversion's own error, or `KeyError` from the cache). -/
structure Thread (Opts Factory : Type) where
  pc : Pc Factory
  todo : List (Request Opts)
  results : List (Request Opts × Option Factory)

/-- Global state.  `heap` holds the bucket objects (index = object identity; the first component is
ghost: the code value under which the bucket was created).  `lock` = owner and recursion depth of the
`RLock`.  `xlog` is the history of successful transformations (a conversion that raises is not
cached and is retried by every request; it is not counted). -/
structure State (Opts Factory : Type) where
  outer : List (Code × Nat)
  heap : List (Nat × List (Opts × Factory))
  lock : Option (Tid × Nat)
  xlog : List (Code × Opts)
  threads : List (Thread Opts Factory)

/-- Effects of one step on the shared state. -/
inductive Eff (Opts Factory : Type) where
  | nop
  | create (c : Code)
  | store (b : Nat) (o : Opts) (f : Factory)
  | acquire
  | release
  | logx (c : Code) (o : Opts)

/-- Continuation of a step. -/
inductive Next (Factory : Type) where
  | goto (pc : Pc Factory)
  | finish (res : Option Factory)
  | blocked

section step
variable {Opts Factory : Type} [BEq Opts] [Hashable Opts]

def bucketAt (s : State Opts Factory) (b : Nat) : List (Opts × Factory) :=
  match s.heap[b]? with
  | some e => e.2
  | none => []

/-- What a lookup of `(code, options)` in the cache finds (the composition of `has`'s two reads). -/
def table (s : State Opts Factory) (c : Code) (o : Opts) : Option Factory :=
  match ofind c s.outer with
  | some b => bfind o (bucketAt s b)
  | none => none

def miss (lk : Bool) : Pc Factory := if lk then .xform else .acq

/-- Control: what thread `t`, executing request `r` at `pc`, does next in state `s`. -/
def action (T : Code → Opts → Nat → Option Factory) (s : State Opts Factory) (t : Tid)
    (r : Request Opts) : Pc Factory → Eff Opts Factory × Next Factory
  | .idle => (.nop, .goto (.has1 false))
  | .has1 lk =>
      match ofind r.code s.outer with
      | some b => (.nop, .goto (.has2 lk b))
      | none => (.nop, .goto (miss lk))
  | .has2 lk b =>
      if (bfind r.opts (bucketAt s b)).isSome then (.nop, .goto (.get1 lk)) else (.nop, .goto (miss lk))
  | .get1 lk =>
      match ofind r.code s.outer with
      | some b => (.nop, .goto (.get2 lk b))
      | none => (.nop, .goto (.get1c lk))
  | .get1c lk => (.create r.code, .goto (.get2 lk s.heap.length))
  | .get2 lk b =>
      match bfind r.opts (bucketAt s b) with
      | some f => (.nop, .goto (if lk then .rel (some f) false else .inst f false))
      | none => if lk then (.nop, .goto (.rel none false)) else (.nop, .finish none)
  | .acq =>
      match s.lock with
      | none => (.acquire, .goto (.has1 true))
      | some (h, _) => if h = t then (.acquire, .goto (.has1 true)) else (.nop, .blocked)
  | .xform =>
      match T r.code r.opts r.env.sig with
      | some f => (.logx r.code r.opts, .goto (.st1 f))
      | none => (.nop, .goto (.rel none false))        -- the conversion raises: `with` releases, nothing is stored
  | .st1 f =>
      match ofind r.code s.outer with
      | some b => (.nop, .goto (.st2 f b))
      | none => (.nop, .goto (.st1c f))
  | .st1c f => (.create r.code, .goto (.st2 f s.heap.length))
  | .st2 f b => (.store b r.opts f, .goto (.rel (some f) true))
  | .rel res own =>
      match res with
      | some f => (.release, .goto (.inst f own))
      | none => (.release, .finish none)
  | .inst f _ => (.nop, .finish (some f))

def hstore (b : Nat) (o : Opts) (f : Factory) (h : List (Nat × List (Opts × Factory))) :
    List (Nat × List (Opts × Factory)) :=
  match h[b]? with
  | some e => h.set b (e.1, bset o f e.2)
  | none => h

/-- Data: the effect on the shared state. -/
def applyEff (s : State Opts Factory) (t : Tid) : Eff Opts Factory → State Opts Factory
  | .nop => s
  | .create c => { s with outer := oset c s.heap.length s.outer, heap := s.heap ++ [(c.val, [])] }
  | .store b o f => { s with heap := hstore b o f s.heap }
  | .acquire =>
      { s with lock := match s.lock with
                       | none => some (t, 1)
                       | some (h, n) => some (h, n + 1) }
  | .release =>
      { s with lock := match s.lock with
                       | some (h, n + 2) => some (h, n + 1)
                       | _ => none }
  | .logx c o => { s with xlog := s.xlog ++ [(c, o)] }

def applyNext (th : Thread Opts Factory) (r : Request Opts) : Next Factory → Thread Opts Factory
  | .goto pc => { th with pc := pc }
  | .finish res => { pc := .idle, todo := th.todo.tail, results := th.results ++ [(r, res)] }
  | .blocked => th

/-- One step of thread `t` (a no-op if `t` does not exist, has nothing to do, or is blocked). -/
def stepThread (T : Code → Opts → Nat → Option Factory) (s : State Opts Factory) (t : Tid) :
    State Opts Factory :=
  match s.threads[t]? with
  | none => s
  | some th =>
    match th.todo with
    | [] => s
    | r :: _ =>
      let a := action T s t r th.pc
      let s' := applyEff s t a.1
      { s' with threads := s'.threads.set t (applyNext th r a.2) }

/-- Does the thread still hold (or will it create) a function with this code object? -/
def Thread.needs (th : Thread Opts Factory) (c : Code) : Bool :=
  th.todo.any (fun r => decide (r.code = c))

inductive Label where
  | thr (t : Tid)
  | gc (c : Code)
  deriving Repr

/-- One transition.  `gc c` (the code object dies, its weak reference callback removes the entry) is
possible only when no function with that code object is alive, i.e. no thread has a current or future
request on it; otherwise the label is a no-op. -/
def step (T : Code → Opts → Nat → Option Factory) (s : State Opts Factory) : Label → State Opts Factory
  | .thr t => stepThread T s t
  | .gc c => if s.threads.any (fun th => th.needs c) then s else { s with outer := ogc c s.outer }

/-- Execution under an arbitrary schedule (fair or not). -/
def run (T : Code → Opts → Nat → Option Factory) (s : State Opts Factory) (sched : List Label) :
    State Opts Factory :=
  sched.foldl (step T) s

/-- Initial state: empty cache, free lock, thread `i` is to perform the requests `progs[i]` in order. -/
def init (progs : List (List (Request Opts))) : State Opts Factory :=
  { outer := [], heap := [], lock := none, xlog := [],
    threads := progs.map (fun p => { pc := .idle, todo := p, results := [] }) }

/-- Number of `transform_ast` runs for the pair (code object, options). -/
def xcount (s : State Opts Factory) (c : Code) (o : Opts) : Nat :=
  (s.xlog.filter (fun e => decide (e.1 = c) && e.2 == o)).length

/-- The set of live code objects (derived): those some thread still needs. -/
def live (s : State Opts Factory) (c : Code) : Bool := s.threads.any (fun th => th.needs c)

end step

/-! ## The atomic specification "lookup-or-convert"

One request = one atomic step: look the pair (code object, options) up; on a miss convert (with the
requester's own namespace view) and remember the factory; return the factory (to be instantiated with
the requester's environment).  Not executable (tables are functions); used only by the refinement
theorem. -/
namespace Spec

structure SThread (Opts Factory : Type) where
  todo : List (Request Opts)
  results : List (Request Opts × Option Factory)

structure SState (Opts Factory : Type) where
  table : Code → Opts → Option Factory
  threads : List (SThread Opts Factory)

inductive SLabel where
  | serve (t : Tid)
  | gc (c : Code)

variable {Opts Factory : Type} [BEq Opts]

def sstep (T : Code → Opts → Nat → Option Factory) (s : SState Opts Factory) : SLabel → SState Opts Factory
  | .serve t =>
    match s.threads[t]? with
    | none => s
    | some th =>
      match th.todo with
      | [] => s
      | r :: rest =>
        match s.table r.code r.opts with
        | some f =>
          { s with threads := s.threads.set t { todo := rest, results := th.results ++ [(r, some f)] } }
        | none =>
          match T r.code r.opts r.env.sig with
          | some f =>
            { table := fun c o => if c = r.code ∧ (o == r.opts) = true then some f else s.table c o,
              threads := s.threads.set t { todo := rest, results := th.results ++ [(r, some f)] } }
          | none =>
            { s with threads := s.threads.set t { todo := rest, results := th.results ++ [(r, none)] } }
  | .gc c =>
    if s.threads.any (fun th => th.todo.any (fun r => decide (r.code = c))) then s
    else { s with table := fun c' o => if c' = c then none else s.table c' o }

def srun (T : Code → Opts → Nat → Option Factory) (s : SState Opts Factory) (l : List SLabel) : SState Opts Factory :=
  l.foldl (sstep T) s

def sinit (progs : List (List (Request Opts))) : SState Opts Factory :=
  { table := fun _ _ => none, threads := progs.map (fun p => { todo := p, results := [] }) }

end Spec

/-! ## The abstract specification of the property: no cache at all

"A map from (function identity incl. closure / globals / defaults binding, options) to a fresh
conversion": a request is answered, atomically, by the conversion of exactly that function — its own
code object (source), its own options, its own namespace view — to be instantiated with its own
environment (`Request.env`, paired with the outcome in `results`).  There is no state besides the
threads' progress, so garbage collection and redefinition are invisible by construction. -/
namespace Ideal
open Spec

variable {Opts Factory : Type}

def istep (T : Code → Opts → Nat → Option Factory) (ths : List (SThread Opts Factory)) (t : Tid) :
    List (SThread Opts Factory) :=
  match ths[t]? with
  | none => ths
  | some th =>
    match th.todo with
    | [] => ths
    | r :: rest => ths.set t { todo := rest, results := th.results ++ [(r, T r.code r.opts r.env.sig)] }

def irun (T : Code → Opts → Nat → Option Factory) (ths : List (SThread Opts Factory)) (l : List Tid) :
    List (SThread Opts Factory) :=
  l.foldl (istep T) ths

def iinit (progs : List (List (Request Opts))) : List (SThread Opts Factory) :=
  progs.map (fun p => { todo := p, results := [] })

end Ideal

/-! ## Vocabulary of the property statements (C10) -/
section vocabulary
variable {Opts Factory : Type}

/-- Distinct code objects of the history have distinct values (no two live code objects compare
equal without being identical). -/
def ValInj (P : List (Request Opts)) : Prop := ∀ r ∈ P, ∀ r' ∈ P, r.code.val = r'.code.val → r.code = r'.code

instance (P : List (Request Opts)) : Decidable (ValInj P) := by unfold ValInj; infer_instance

/-- The thread is between requests. -/
def Pc.isIdle : Pc Factory → Bool
  | .idle => true
  | _ => false

/-- The death of code object `c'` in state `s` is *safe* (the dynamic, per-step form of `ValInj`):
either no cache entry hangs on `c'`, or the entry that disappears is not shared — no function whose
code object is distinct from but equal to `c'` is in the middle of a request, and none that is still
alive has been converted (its factory would sit in the bucket that dies).  In particular the usual
redefinition pattern — the old function dies, *then* the same source is exec'ed again — is safe. -/
def GcSafe [BEq Opts] [Hashable Opts] (s : State Opts Factory) (c' : Code) : Prop :=
  (∀ e ∈ s.outer, e.1 ≠ c') ∨
  ∀ th ∈ s.threads,
    (match th.todo with
     | r :: _ => th.pc.isIdle = false → r.code.val = c'.val → r.code = c'
     | [] => True) ∧
    (∀ r ∈ th.todo, r.code.val = c'.val → r.code ≠ c' → ∀ e ∈ s.xlog, e.1 ≠ r.code)

instance [BEq Opts] [Hashable Opts] (s : State Opts Factory) (c' : Code) : Decidable (GcSafe s c') := by
  unfold GcSafe
  have : ∀ th : Thread Opts Factory, Decidable (match th.todo with
      | r :: _ => th.pc.isIdle = false → r.code.val = c'.val → r.code = c'
      | [] => True) := by
    intro th; split <;> infer_instance
  infer_instance

/-- One step is safe: thread steps always; a `gc` step if it is disabled (a live function uses the
code object) or `GcSafe`. -/
def StepSafe [BEq Opts] [Hashable Opts] (s : State Opts Factory) : Label → Prop
  | .thr _ => True
  | .gc c' => live s c' = true ∨ GcSafe s c'

instance [BEq Opts] [Hashable Opts] (s : State Opts Factory) (l : Label) : Decidable (StepSafe s l) := by
  cases l <;> unfold StepSafe <;> infer_instance

/-- **The exact hypothesis of the once / no-error / lock theorems**: along this schedule no code
object dies while an equal-valued distinct one shares its cache entry.  A decidable property of
(history, schedule); implied by `ValInj` for every schedule (`schedSafe_of_valInj`). -/
def SchedSafe [BEq Opts] [Hashable Opts] (T : Code → Opts → Nat → Option Factory) :
    State Opts Factory → List Label → Prop
  | _, [] => True
  | s, l :: ls => StepSafe s l ∧ SchedSafe T (step T s l) ls

instance decSchedSafe [BEq Opts] [Hashable Opts] (T : Code → Opts → Nat → Option Factory) :
    (s : State Opts Factory) → (sched : List Label) → Decidable (SchedSafe T s sched)
  | _, [] => isTrue trivial
  | s, l :: ls =>
    have := decSchedSafe T (step T s l) ls
    by unfold SchedSafe; infer_instance

/-- All requests of a history. -/
def allReqs (progs : List (List (Request Opts))) : List (Request Opts) := progs.flatten

/-- The one modelling assumption the real code can falsify: the conversion does not depend on the
requester's namespace. -/
def EnvIrrelevant (T : Code → Opts → Nat → Option Factory) : Prop := ∀ c o s s', T c o s = T c o s'

/-- The conversion depends on the code *object* (through which the source text is found) only via
its value.  False of the real code: annotations, decorators and the file are not part of the value. -/
def SrcByVal (T : Code → Opts → Nat → Option Factory) : Prop := ∀ c c' o s, c.val = c'.val → T c o s = T c' o s

/-- Decidable form for one history: functions with equal code have the same conversion-relevant view
of their namespace. -/
def SigCoherent (P : List (Request Opts)) : Prop :=
  ∀ r ∈ P, ∀ r' ∈ P, r.code.val = r'.code.val → r.env.sig = r'.env.sig

instance (P : List (Request Opts)) : Decidable (SigCoherent P) := by unfold SigCoherent; infer_instance

/-- The finished requests of a state, with their outcome (`some f`: returned `f.instantiate(own
environment)`; `none`: raised). -/
def finished (s : State Opts Factory) : List (Request Opts × Option Factory) :=
  (s.threads.map (fun th => th.results)).flatten

end vocabulary

/-! ## The subkey type of the real cache: `ConversionOptions` (model of C20) -/

/-- `ConversionOptions.__eq__` (`Options.eq`: `as_tuple() == as_tuple()`). -/
instance optsBEq : BEq Malt.Options.Opts := ⟨Malt.Options.eq⟩

/-- Some hash of the `as_tuple()` value (the theorems hold for every hash *function*). -/
def tupleHash (t : Bool × Bool × Bool × List Malt.Gen.Feature) : UInt64 :=
  hash (t.1, t.2.1, t.2.2.1, t.2.2.2.map (fun f => Malt.Gen.Feature.all.idxOf f))

/-- `ConversionOptions.__hash__` (`hash(self.as_tuple())`). -/
instance optsHashable : Hashable Malt.Options.Opts := ⟨Malt.Options.hash tupleHash⟩

end Malt.Cache
