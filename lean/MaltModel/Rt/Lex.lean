import MaltModel.Rt.Dedent
/-
A small lexer for Python's LINE STRUCTURE over `List Char` (C15) — everything `_unfold_continuations` and
`dedent_block` depend on: string literals (single- and triple-quoted, escapes; prefixes are ordinary code
characters in front of the quote), comments, explicit backslash continuation, implicit continuation inside
brackets, NEWLINE/NL and INDENT/DEDENT.  Import-free (model files only), total, executable.

Part 1 is a one-character-at-a-time automaton (`step`): no look-ahead, so the effect of deleting characters
is a statement about states.  Part 2 cuts the text into tokens annotated with their gaps (`ATok`, the model
the dedent theorem is stated over), so that the theorems no longer need CPython's tokenizer as an oracle; the
lexer itself is tied to `tokenize` by a correspondence on every generated and every /repo source.
-/
namespace Malt.Lex
open Malt.Dedent

/-! ## Part 1: the automaton -/

inductive Mode where
  | c0                    -- code, nothing pending
  | cbs                   -- code, a backslash has just been read
  | cq1 (q : Char)        -- code: one quote read (a string has been opened)
  | cq2 (q : Char)        -- code: two quotes read (empty string so far, or the start of a triple quote)
  | s (q : Char)          -- inside a single-quoted string
  | sbs (q : Char)        -- … after a backslash
  | t (q : Char)          -- inside a triple-quoted string
  | tbs (q : Char)        -- … after a backslash
  | tq1 (q : Char)        -- … one closing quote read
  | tq2 (q : Char)        -- … two closing quotes read
  | m                     -- inside a comment
  deriving DecidableEq, Repr

def isQuote (c : Char) : Bool := c = '"' || c = '\''

/-- dispatch of a character read in plain code -/
def stepCode (c : Char) : Mode :=
  if c = '\\' then .cbs else if c = '#' then .m else if isQuote c then .cq1 c else .c0

def step : Mode → Char → Mode
  | .c0, c => stepCode c
  | .cbs, c => if c = '\n' then .c0 else stepCode c        -- continuation, or a stray backslash
  | .cq1 q, c => if c = q then .cq2 q else if c = '\\' then .sbs q else if c = '\n' then .c0 else .s q
  | .cq2 q, c => if c = q then .t q else stepCode c         -- the empty string is closed; `c` is code
  | .s q, c => if c = q then .c0 else if c = '\\' then .sbs q else if c = '\n' then .c0 else .s q
  | .sbs q, _ => .s q
  | .t q, c => if c = q then .tq1 q else if c = '\\' then .tbs q else .t q
  | .tbs q, _ => .t q
  | .tq1 q, c => if c = q then .tq2 q else if c = '\\' then .tbs q else .t q
  | .tq2 q, c => if c = q then .c0 else if c = '\\' then .tbs q else .t q
  | .m, c => if c = '\n' then .c0 else .m

/-- the run of the automaton: the mode BEFORE each character, with the character -/
def trace : Mode → Str → List (Mode × Char)
  | _, [] => []
  | m, c :: r => (m, c) :: trace (step m c) r

def final : Mode → Str → Mode
  | m, [] => m
  | m, c :: r => final (step m c) r

/-- delete the backslash-newline pairs from a run (same shape as `unfold`) -/
def dropConts : List (Mode × Char) → List (Mode × Char)
  | [] => []
  | [x] => [x]
  | x :: y :: r => if x.2 = '\\' ∧ y.2 = '\n' then dropConts r else x :: dropConts (y :: r)

/-- every backslash-newline of the text is read in plain code (`c0`): it is a line continuation between
tokens — not inside a string literal, not inside a comment, not after a pending quote or backslash.
THE FRAGMENT PREDICATE of the unfolding theorem; its negation is the finding class
`backslash_newline_inside_string_or_comment`. -/
def contsInCode : Mode → Str → Bool
  | _, [] => true
  | _, [_] => true
  | m, c :: d :: r =>
    if c = '\\' ∧ d = '\n' then m = .c0 && contsInCode .c0 r
    else contsInCode (step m c) (d :: r)

/-- what a token-aware unfolding does: delete exactly the continuations the automaton recognises -/
def specUnfold : Mode → Str → Str
  | _, [] => []
  | _, [c] => [c]
  | m, c :: d :: r =>
    if m = .c0 ∧ c = '\\' ∧ d = '\n' then specUnfold .c0 r
    else c :: specUnfold (step m c) (d :: r)

/-- number of textual backslash-newline pairs (what `unfold` deletes) -/
def countBs : Str → Nat
  | [] => 0
  | [_] => 0
  | c :: d :: r => if c = '\\' ∧ d = '\n' then countBs r + 1 else countBs (d :: r)

/-- number of continuations the automaton recognises (what `specUnfold` deletes) -/
def countCont : Mode → Str → Nat
  | _, [] => 0
  | _, [_] => 0
  | m, c :: d :: r =>
    if m = .c0 ∧ c = '\\' ∧ d = '\n' then countCont .c0 r + 1
    else countCont (step m c) (d :: r)

/-! character classes, for the correspondence with `tokenize` and for part 2 -/

inductive Cls where
  | code | nl | cont | str | comment
  deriving DecidableEq, Repr

/-- class of the character `c` read in mode `m` when the next character is `next` -/
def clsOf (m : Mode) (c : Char) (next : Option Char) : Cls :=
  match m with
  | .c0 | .cbs | .cq2 _ =>
    -- (`cq2` followed by something that is not the quote: the empty string is closed, `c` is code;
    --  `cq2 q` followed by `q` is the third opening quote)
    match m with
    | .cq2 q => if c = q then .str else
        if c = '\\' then (if next = some '\n' then .cont else .code)
        else if c = '#' then .comment else if isQuote c then .str else if c = '\n' then .nl else .code
    | .cbs => if c = '\n' then .cont else
        if c = '\\' then (if next = some '\n' then .cont else .code)
        else if c = '#' then .comment else if isQuote c then .str else .code
    | _ =>
        if c = '\\' then (if next = some '\n' then .cont else .code)
        else if c = '#' then .comment else if isQuote c then .str else if c = '\n' then .nl else .code
  | .m => if c = '\n' then .nl else .comment
  | .cq1 _ | .s _ => if c = '\n' then .nl else .str
  | _ => .str

def classes : Mode → Str → List Cls
  | _, [] => []
  | m, c :: r => clsOf m c r.head? :: classes (step m c) r

/-! ## Part 2: tokens with gaps

The text is cut into the `ATok` stream the dedent theorem is stated over.  A token is a CHUNK — a maximal run of
non-blank code characters and string-literal characters (so `rb"…"`, `foo(a,` or `x="""a⏎b"""` are one chunk
each; kind STRING if it contains a string character, else OP) —, a COMMENT, an NL/NEWLINE, or a zero-width
INDENT/DEDENT/ENDMARKER.  Blanks and continuation characters form the gaps.  This is coarser than `tokenize`
(which splits chunks into NAME/OP/NUMBER/…) but has the same line structure; the harness compares the two after
merging gap-free neighbours on `tokenize`'s side. -/

def isBlankCh (c : Char) : Bool := c = ' ' || c = '\t' || c = '\x0c'
def opens (c : Char) : Bool := c = '(' || c = '[' || c = '{'
def closes (c : Char) : Bool := c = ')' || c = ']' || c = '}'

inductive Cur where
  | none
  | chunk (rev : Str) (hasStr : Bool) (logicalStart : Bool)
  | comment (rev : Str)

structure LState where
  depth : Nat := 0
  gap : Str := []              -- reversed
  cur : Cur := .none
  lineHasTok : Bool := false   -- a chunk has been emitted on the current logical line
  stack : List Str := []       -- indentation strings, innermost first
  out : List ATok := []        -- reversed

def mkTok (k : Kind) (text : Str) : Tok := ⟨k, text, 0, 0, 0, 0⟩

/-- INDENT / DEDENT tokens in front of the first chunk of a logical line whose leading blanks are `ind` -/
def dedents (ind : Nat) : List Str → List Str × List ATok
  | [] => ([], [])
  | top :: rest =>
    if top.length > ind then
      let (st, ts) := dedents ind rest
      (st, ⟨[], mkTok .DEDENT []⟩ :: ts)
    else (top :: rest, [])

def flush (st : LState) : LState :=
  match st.cur with
  | .none => st
  | .comment rev =>
    { st with cur := .none, gap := [], out := ⟨st.gap.reverse, mkTok .COMMENT rev.reverse⟩ :: st.out }
  | .chunk rev hasStr logical =>
    let gap := st.gap.reverse
    let tok : ATok := ⟨gap, mkTok (if hasStr then .STRING else .OP) rev.reverse⟩
    if logical then
      let topLen := (st.stack.headD []).length
      -- CPython: if the leading blanks contain a continuation, the FIRST physical line decides the indentation
      let first := gap.takeWhile (· ≠ '\\')
      let indLen := if first.length = gap.length then gap.length
                    else if first.length ≠ 0 then first.length else (unfold gap).length
      if indLen > topLen then
        { st with cur := .none, gap := [], lineHasTok := true, stack := gap.take indLen :: st.stack,
                  out := tok :: ⟨[], mkTok .INDENT gap⟩ :: st.out }
      else
        let (stack', ds) := dedents indLen st.stack
        { st with cur := .none, gap := [], lineHasTok := true, stack := stack', out := tok :: (ds.reverse ++ st.out) }
    else { st with cur := .none, gap := [], lineHasTok := true, out := tok :: st.out }

def feed (st : LState) (c : Char) (k : Cls) : LState :=
  match k with
  | .str =>
    match st.cur with
    | .chunk rev _ lg => { st with cur := .chunk (c :: rev) true lg }
    | _ => let st := flush st
           { st with cur := .chunk [c] true (st.depth == 0 && !st.lineHasTok) }
  | .comment =>
    match st.cur with
    | .comment rev => { st with cur := .comment (c :: rev) }
    | _ => let st := flush st
           { st with cur := .comment [c] }
  | .cont => let st := flush st
             { st with gap := c :: st.gap }
  | .nl =>
    let st := flush st
    let kind : Kind := if st.depth == 0 && st.lineHasTok then .NEWLINE else .NL
    { st with gap := [], lineHasTok := (if st.depth == 0 then false else st.lineHasTok),
              out := ⟨st.gap.reverse, mkTok kind [c]⟩ :: st.out }
  | .code =>
    if isBlankCh c then
      let st := flush st
      { st with gap := c :: st.gap }
    else
      let st := match st.cur with
        | .chunk rev hs lg => { st with cur := .chunk (c :: rev) hs lg }
        | _ => let st := flush st
               { st with cur := .chunk [c] false (st.depth == 0 && !st.lineHasTok) }
      if opens c then { st with depth := st.depth + 1 }
      else if closes c then { st with depth := st.depth - 1 }
      else st

def feedAll (st : LState) : Str → List Cls → LState
  | c :: r, k :: ks => feedAll (feed st c k) r ks
  | _, _ => st

/-- the annotated token stream of a text -/
def lexA (s : Str) : List ATok :=
  let st := flush (feedAll {} s (classes .c0 s))
  -- a last line without newline: tokenize supplies an empty NEWLINE (an empty NL after a comment-only line)
  let out := if st.lineHasTok then ⟨[], mkTok .NEWLINE []⟩ :: st.out
             else match st.out with
               | a :: _ => if a.tok.kind = .COMMENT then ⟨[], mkTok .NL []⟩ :: st.out else st.out
               | [] => st.out
  let ds : List ATok := st.stack.map fun _ => ⟨[], mkTok .DEDENT []⟩
  (⟨st.gap.reverse, mkTok .ENDMARKER []⟩ :: (ds ++ out)).reverse

/-- does the chunk text contain an f-string prefix (`f"`, `fr'`, `Rf"` …)?  (conservative: also fires on such
characters inside another string) -/
def hasFPrefix : Str → Bool
  | [] => false
  | [_] => false
  | c :: d :: r =>
    ((c = 'f' || c = 'F') && (isQuote d || ((d = 'r' || d = 'R') && r.head?.any isQuote))) || hasFPrefix (d :: r)

/-- CPython 3.12 tokenizes the replacement fields of an f-string as code, so for an f-string that spans lines
`dedent_block` sees bracket-continuation lines where this lexer sees the inside of a string: such texts are
outside the lexer-level fragment (the oracle-level theorem `C15_dedent_text` covers them). -/
def multilineFString (as : List ATok) : Bool :=
  as.any fun a => a.tok.kind = .STRING && a.tok.text.contains '\n' && hasFPrefix a.tok.text

end Malt.Lex
