/-
Model of lambda source recovery in `malt/pyct/parser.py` (`_parse_lambda`, `_node_matches_argspec`) (C15).

Import-free, total, executable.  CPython supplies the facts the code reads: the module's top-level
statements with their line numbers, the `ast.Lambda` nodes below each statement (in `ast.walk`
order) with their line span and signature, the lambda object's `co_firstlineno` and its
`inspect.getfullargspec`.
-/
namespace Malt.Lambda

/-- the parameter list of an `ast.Lambda` node (`node.args`): names only; defaults are not looked at -/
structure Sig where
  posonly : List String
  args : List String
  vararg : Option String
  kwonly : List String
  kwarg : Option String
  deriving DecidableEq, Repr

/-- what `inspect.getfullargspec(func)` reports, as far as the code reads it -/
structure ArgSpec where
  args : List String
  varargs : Option String
  varkw : Option String
  kwonlyargs : List String
  deriving DecidableEq, Repr

/-- CPython fact: the argspec of the function object a lambda expression creates
(`args` lists positional-only parameters first). -/
def specOf (s : Sig) : ArgSpec := ⟨s.posonly ++ s.args, s.vararg, s.kwarg, s.kwonly⟩

/-- an `ast.Lambda` node: identity (preorder index in the module tree), line span, signature -/
structure Cand where
  id : Nat
  minl : Nat
  maxl : Nat
  sig : Sig
  deriving DecidableEq, Repr

/-- a top-level statement of the module: its `lineno` and the lambda nodes `ast.walk` finds in it -/
structure Top where
  lineno : Nat
  lams : List Cand
  deriving Repr

/-- `_node_matches_argspec(node, func)` (after /repo e1be7e7): compares `node.args.posonlyargs ++ node.args.args`
with `argspec.args` (both list the positional-only parameters first), vararg, kwarg and kwonly names.  Defaults
and the position of the `/` marker are not compared. -/
def nodeMatches (s : Sig) (a : ArgSpec) : Bool :=
  s.posonly ++ s.args == a.args && a.varargs == s.vararg && a.varkw == s.kwarg && s.kwonly == a.kwonlyargs

/-- the shortlist loop: statements up to (excluding) the first one starting after `def_line` -/
def searchNodes (defLine : Nat) : List Top → List Top
  | [] => []
  | t :: ts => if t.lineno ≤ defLine then t :: searchNodes defLine ts else []

def lambdaNodes (defLine : Nat) (tops : List Top) : List Cand :=
  (searchNodes defLine tops).flatMap (·.lams)

def spans (defLine : Nat) (c : Cand) : Bool := c.minl ≤ defLine && defLine ≤ c.maxl

inductive Sel where
  | ok (c : Cand)
  | noMatch        -- UnsupportedLanguageElementError: no matching AST found
  | ambiguous      -- UnsupportedLanguageElementError: multiple definitions with identical signatures
  deriving DecidableEq, Repr

/-- candidate selection of `_parse_lambda` -/
def select (cands : List Cand) (defLine : Nat) (spec : ArgSpec) : Sel :=
  match cands.filter (spans defLine) with
  | [] => .noMatch
  | [c] => .ok c
  | cs => match cs.filter (fun c => nodeMatches c.sig spec) with
    | [c] => .ok c
    | _ => .ambiguous

def parseLambda (tops : List Top) (defLine : Nat) (spec : ArgSpec) : Sel :=
  select (lambdaNodes defLine tops) defLine spec

/-- the candidates on the line are distinguishable from the target by what `_node_matches_argspec` compares
(parameter names in order — i.e. also arity —, vararg, kwarg, keyword-only names): no OTHER candidate spanning the
definition line has the target's visible signature.  Its negation is the only situation in which the code may
— and must — report ambiguity. -/
def distinguishable (cands : List Cand) (defLine : Nat) (tgt : Cand) : Bool :=
  (cands.filter (spans defLine)).all fun m => m == tgt || specOf m.sig != specOf tgt.sig

end Malt.Lambda
