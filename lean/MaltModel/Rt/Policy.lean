import MaltModel.Generated.Policy
import MaltModel.Util.Sexp
/-
Model of the call wrapper `malt.impl.api.converted_call` (C13): the conversion rule table, the allow-list
(`conversion.is_allowlisted`), the permanently-unsupported test (`conversion.is_unsupported`), the ordered
decision chain, `functools.partial` unwrapping, the fallback after a failed conversion and the negative
cache.  Import-free and executable.

Everything that can be read off the source is *interpreted* from `Generated/Policy.lean` (the rule table, the
order of the checks of `converted_call`, the `update_cache` flag of every branch, the order of the tests of
`is_unsupported` / `is_allowlisted`, the way the partial branch merges stored and call-site arguments, the
warning conditions of `_fall_back_unconverted`, …); the hand-written part is the meaning of each check in
terms of the boolean facts of the callable (`Desc`, `Ent`), which the harness derives from the *recipe* a
callable was built from.
-/
namespace Malt.Policy
open Malt.Gen.Policy

/-! ## Conversion rule table -/

/-- `Rule.matches(module_name)`.  Module names and prefixes are lists of dotted components:
`name == p or name.startswith(p + '.')` holds exactly when the components of `p` are a prefix of the
components of `name`. -/
def ruleMatches (r : Rule) (name : List String) : Bool :=
  match ruleMatch with
  | .equalOrDottedPrefix => r.pfx.isPrefixOf name
  | .unresolved => false

/-- The loop `for rule in rules: if rule matches: return rule` — for an arbitrary match predicate. -/
def firstMatch (m : Rule → Bool) : List Rule → Option Rule
  | [] => none
  | r :: rs => if m r then some r else firstMatch m rs

/-- Action of the first rule (of an arbitrary rule list) that matches the module name. -/
def ruleActionIn (rules : List Rule) (name : List String) : Option RuleKind :=
  (firstMatch (fun r => ruleMatches r name) rules).map (·.kind)

/-- Action of `config.CONVERSION_RULES` (as extracted) on a module name. -/
def ruleAction (name : List String) : Option RuleKind := ruleActionIn conversionRules name

/-- The rule loop of `is_allowlisted`: `some b` = return `b`, `none` = fall through to the next test. -/
def moduleRulesResult : Option (List String) → Option Bool
  | none => none
  | some name =>
    match ruleAction name with
    | some .convert => allowOnConvert
    | some .doNotConvert => allowOnDoNotConvert
    | _ => none

/-! ## Entities as seen by `is_allowlisted` -/

/-- The non-recursive facts `is_allowlisted(o, …)` tests on `o`. -/
structure EntFacts where
  /-- `inspect.getmodule(o).__name__` split at the dots, when there is a module with a name -/
  modName : Option (List String)
  /-- `hasattr(o, '__code__') and inspect.isgeneratorfunction(o)` -/
  genFn : Bool
  isClass : Bool
  hasCall : Bool
  /-- `type(o) != type(o.__call__)` -/
  callTypeDiffers : Bool
  /-- `inspect.ismethod(o)` -/
  isMethod : Bool
  /-- `inspect_utils.getmethodclass(o) is not None` -/
  ownerKnown : Bool
  /-- the owner class is a subclass of `unittest.TestCase` -/
  ownerIsTestCase : Bool
  /-- `inspect_utils.isnamedtuple(o)` -/
  isNamedtuple : Bool
  /-- `any(isnamedtuple(base) for base in o.__bases__)` -/
  ntBaseIsNamedtuple : Bool
  deriving DecidableEq, Repr

/-- An entity together with the two entities the allow-list recurses into: `o.__call__` and the class
that defines the method `o`.  `opaque` is an entity on which every test is negative (a method-wrapper, …). -/
inductive Ent where
  | opaque
  | mk (f : EntFacts) (call : Ent) (definer : Ent)
  deriving Repr

/-- One test of `is_allowlisted` on an entity whose recursive results are already known. -/
def allowStep (f : EntFacts) (callRes defRes checkCall ntSub : Bool) : AllowTest → Option Bool
  | .moduleRules => moduleRulesResult f.modName
  | .generator => if f.genFn then some true else none
  | .callOverride =>
      if checkCall && !f.isClass && f.hasCall && f.callTypeDiffers && callRes then some true else none
  | .methodOwner =>
      if f.isMethod && f.ownerKnown then
        if methodsOfTestCaseAllowed && f.ownerIsTestCase then some true
        else if defRes then some true else none
      else none
  | .namedtuple =>
      if f.isNamedtuple then
        if ntSub then (if !f.ntBaseIsNamedtuple then some true else none) else some true
      else none
  | .unresolved => none

/-- First test (of an arbitrary test list) that returns; `false` when none does (`return False`). -/
def runAllowTests (tests : List AllowTest) (f : EntFacts) (callRes defRes checkCall ntSub : Bool) : Bool :=
  match tests with
  | [] => false
  | t :: ts =>
    match allowStep f callRes defRes checkCall ntSub t with
    | some b => b
    | none => runAllowTests ts f callRes defRes checkCall ntSub

/-- `conversion.is_allowlisted(o, check_call_override, allow_namedtuple_subclass)`. -/
def allowlistedWith : Ent → Bool → Bool → Bool
  | .opaque, _, _ => false
  | .mk f call definer, checkCall, ntSub =>
      runAllowTests allowTests f
        (allowlistedWith call callRecCheckCall callRecNamedtupleSub)
        (allowlistedWith definer ownerRecCheckCall ownerRecNamedtupleSub)
        checkCall ntSub

/-- `conversion.is_allowlisted(o)` with the default flags. -/
def allowlisted (e : Ent) : Bool := allowlistedWith e allowDefaultCheckCall allowDefaultNamedtupleSub

/-! ## The callable as seen by `converted_call` -/

inductive BuiltinKind where
  /-- `inspect_utils.isbuiltin(f)` is false -/
  | notBuiltin
  /-- `eval`, `super`, `globals`, `locals`: evaluated in the caller's frame -/
  | special
  /-- member of `py_builtins.SUPPORTED_BUILTINS`: dispatched to its overload -/
  | overloaded
  /-- any other builtin / C function: `overload_of(f) is f` -/
  | plain
  deriving DecidableEq, Repr, Inhabited

inductive Kind where
  /-- `inspect.isfunction(f)` -/
  | function
  /-- `inspect.ismethod(f)` -/
  | method
  /-- neither, but `type(f).__call__` exists (in CPython: every other object) -/
  | callableObject
  /-- the `raise NotImplementedError` branch (unreachable in CPython, kept because the code has it) -/
  | other
  deriving DecidableEq, Repr, Inhabited

/-- Pipeline stage at which a conversion failure is injected / occurs. -/
inductive Stage where
  | sourceLookup | parse | featureCheck | analysis | converter | load
  deriving DecidableEq, Repr, Inhabited

/-- Class of the conversion error, as `_fall_back_unconverted` distinguishes them. -/
inductive ExcClass where
  | inaccessibleSource | unsupportedElement | other
  deriving DecidableEq, Repr, Inhabited

inductive CtxStatus where
  | unspecified | enabled | disabled
  deriving DecidableEq, Repr, Inhabited

/-- The facts the decision chain tests on a callable `f` (for a fixed options value). -/
structure Desc where
  /-- `(f, options)` is in the negative ("allow-list") cache -/
  inCache : Bool
  /-- `f` (its `__func__` for a method) is hashable and weak-referenceable: `cache_allowlisted` takes effect -/
  cacheable : Bool
  /-- `hasattr(f, 'autograph_info__')` -/
  artifact : Bool
  builtin : BuiltinKind
  wrapt : Bool
  lruCache : Bool
  /-- `inspect_utils.isconstructor(f)`: a class without a custom metaclass `__call__` -/
  constructor : Bool
  /-- `f` is a member of one of the loaded modules `collections, pdb, copy, inspect, re` -/
  knownModuleMember : Bool
  tfPlugin : Bool
  ent : Ent
  kind : Kind
  /-- the conversion target (`f`, or `type(f).__call__` for an object) has `__code__` -/
  targetHasCode : Bool
  /-- `target.__code__.co_filename == '<string>'` -/
  targetStringFile : Bool
  /-- converting the target fails at this stage with this class of error -/
  fail : Option (Stage × ExcClass)
  deriving Repr

/-- The fields of `ConversionOptions` the wrapper reads. -/
structure Opts where
  userRequested : Bool
  internalConvert : Bool
  deriving DecidableEq, Repr

structure Env where
  status : CtxStatus
  /-- `AUTOGRAPH_STRICT_CONVERSION` > 0 -/
  strict : Bool
  /-- `ag_ctx.INSPECT_SOURCE_SUPPORTED` -/
  inspectSourceSupported : Bool
  deriving DecidableEq, Repr

/-! ## `is_unsupported` -/

def unsupHolds (d : Desc) : UnsupTest → Bool
  | .wrapt => d.wrapt
  | .lruCache => d.lruCache
  | .constructor => d.constructor
  | .knownModule => d.knownModuleMember
  | .tfPlugin => d.tfPlugin
  | .unresolved => false

/-- first test of `is_unsupported` that holds -/
def unsupportedHit (d : Desc) : Option UnsupStep := unsupportedTests.find? (fun s => unsupHolds d s.test)

def isUnsupported (d : Desc) : Bool := (unsupportedHit d).isSome

/-- does `is_unsupported` emit a warning on its way (the wrapt test does)? -/
def unsupportedWarns (d : Desc) : Bool :=
  match unsupportedHit d with
  | some s => s.warns
  | none => false

/-! ## The decision chain -/

/-- Does the test of a step hold?  `isPartial` = `isinstance(f, functools.partial)`. -/
def fires (isPartial : Bool) (d : Desc) (env : Env) (o : Opts) : Check → Bool
  | .cacheHit => d.inCache
  | .ctxDisabled => env.status == .disabled
  | .artifact => d.artifact
  | .partialUnwrap => isPartial
  | .builtin => d.builtin != .notBuiltin
  | .unsupported => isUnsupported d
  | .allowlisted => (!allowlistSkippedWhenUserRequested || !o.userRequested) && allowlisted d.ent
  | .notInternal => !o.internalConvert
  | .kindDispatch => d.kind == .other
  | .noCode => !d.targetHasCode
  | .stringFile => d.targetStringFile
  | .convert => true
  | .invoke => true
  | .unresolved => false

inductive Action where
  /-- `return _call_unconverted(f, args, kwargs, options, updateCache)` from the branch of check `c` -/
  | skip (c : Check) (updateCache : Bool)
  /-- unwrap a `functools.partial` and redo all the checks on `f.func` -/
  | unwrap
  /-- builtin dispatch (`overload_of(f)(*args, **kwargs)` or evaluation in the caller's frame) -/
  | builtin
  /-- `raise NotImplementedError('unknown callable type')` inside the first try block -/
  | unknownKind
  /-- `_convert_actual(target)` then call the result -/
  | convert
  /-- the chain does not reach a decision (an unrecognised step, or no conversion step) -/
  | stuck
  deriving DecidableEq, Repr, Inhabited

def actionOf (s : Step) : Action :=
  match s.check with
  | .partialUnwrap => .unwrap
  | .builtin => .builtin
  | .kindDispatch => .unknownKind
  | .convert => .convert
  | .invoke => .stuck
  | .unresolved => .stuck
  | c => .skip c s.updateCache

/-- The decision of an arbitrary chain of steps: the first step whose test holds. -/
def decideIn (steps : List Step) (isPartial : Bool) (d : Desc) (env : Env) (o : Opts) : Action :=
  match steps.find? (fun s => fires isPartial d env o s.check) with
  | some s => actionOf s
  | none => .stuck

/-- The decision of `converted_call` (its extracted chain) for one level of a call. -/
def decide (isPartial : Bool) (d : Desc) (env : Env) (o : Opts) : Action := decideIn chain isPartial d env o

/-! ## Python dictionaries (insertion ordered) and the binding of a call -/

abbrev Kw (α : Type) := List (String × α)

def dictGet (k : String) : Kw α → Option α
  | [] => none
  | (k', v) :: r => if k' = k then some v else dictGet k r

/-- `d[k] = v` -/
def dictSet (d : Kw α) (k : String) (v : α) : Kw α :=
  match d with
  | [] => [(k, v)]
  | (k', v') :: r => if k' = k then (k, v) :: r else (k', v') :: dictSet r k v

/-- `d.update(u)` on a copy -/
def dictUpdate (d u : Kw α) : Kw α := u.foldl (fun acc kv => dictSet acc kv.1 kv.2) d

/-- the last value bound to `k` in a sequence of (key, value) items -/
def lastIn (k : String) : Kw α → Option α
  | [] => none
  | (k', v) :: r =>
    match lastIn k r with
    | some w => some w
    | none => if k' = k then some v else none

/-- What the underlying Python function finally receives. -/
structure Binding (α : Type) where
  pos : List α
  kw : Kw α
  deriving Repr, DecidableEq

/-- A callable: a base callable (with the value of `__self__` / the callable object itself, and whether
Python's own call protocol prepends it), or a `functools.partial` over another callable. -/
inductive Callable (α : Type) where
  | base (d : Desc) (self : Option α) (pyBindsSelf : Bool)
  | part (d : Desc) (args : List α) (kw : Kw α) (inner : Callable α)
  deriving Repr

/-- The binding produced by calling the callable **directly** (CPython: a bound method / callable object
prepends its receiver, `partial.__call__` is `func(*self.args, *args, **{**self.keywords, **kw})`). -/
def direct : Callable α → List α → Kw α → Binding α
  | .base _ self binds, args, kw => ⟨(if binds then self.toList else []) ++ args, kw⟩
  | .part _ a0 k0 inner, args, kw => direct inner (a0 ++ args) (dictUpdate k0 kw)

def srcArgs (s : Src) (stored callsite : List α) : List α :=
  match s with
  | .stored => stored
  | .callsite => callsite
  | _ => []

def srcKw (s : Src) (stored : Kw α) (callsite : Option (Kw α)) : Kw α :=
  match s with
  | .stored => stored
  | .callsite => callsite.getD []
  | _ => []

/-- `new_args` of the partial branch (as extracted) -/
def mergeArgs (stored callsite : List α) : List α :=
  srcArgs partialArgsFirst stored callsite ++ srcArgs partialArgsSecond stored callsite

/-- `new_kwargs` of the partial branch (as extracted) -/
def mergeKw (stored : Kw α) (callsite : Option (Kw α)) : Kw α :=
  dictUpdate (srcKw partialKwBase stored callsite) (srcKw partialKwUpdate stored callsite)

/-- `effective_args` of the target selection -/
def effectiveArgs (kind : Kind) (self : Option α) (args : List α) : List α :=
  match kind with
  | .callableObject => if kindObjectPrepended then self.toList ++ args else args
  | _ => if kindSelfPrepended then self.toList ++ args else args

/-! ## Effect of one wrapped call -/

structure Effect (α : Type) where
  /-- how many times the (possibly converted) target is invoked -/
  invocations : Nat
  binding : Binding α
  /-- the target ran as converted code produced by this call -/
  converted : Bool
  /-- a conversion was attempted (`_convert_actual` was entered) -/
  attempted : Bool
  warning : Bool
  /-- the wrapper itself raised (strict mode re-raise; `**None`; a stuck chain) instead of invoking the target -/
  raised : Bool
  /-- a builtin was dispatched to its overload -/
  overload : Bool
  /-- a builtin was evaluated in the caller's frame -/
  special : Bool
  deriving Repr, DecidableEq

def Effect.raise (attempted warning : Bool) : Effect α :=
  ⟨0, ⟨[], []⟩, false, attempted, warning, true, false, false⟩

/-- `_call_unconverted(f, args, kwargs, …)`: Python itself binds the arguments. -/
def unconvertedEff (c : Callable α) (args : List α) (kw : Option (Kw α)) (attempted warning : Bool) : Effect α :=
  if kw.isNone && !callUnconvertedHandlesNoneKwargs then Effect.raise attempted warning
  else ⟨1, direct c args (kw.getD []), false, attempted, warning, false, false, false⟩

/-- `cache_allowlisted(f, options)` under the `update_cache` flag. -/
def Desc.remember (d : Desc) (upd : Bool) : Desc :=
  if upd && callUnconvertedUpdatesCache && d.cacheable then { d with inCache := true } else d

def warnCond (w : WarnCond) (env : Env) (d : Desc) : Bool :=
  match w with
  | .always => true
  | .ifInspectSupported => env.inspectSourceSupported
  | .ifNotCached => !d.inCache
  | .never => false
  | .unresolved => false

/-- does `_fall_back_unconverted` warn for this class of error? -/
def fallbackWarns (e : ExcClass) (env : Env) (d : Desc) : Bool :=
  match e with
  | .inaccessibleSource => warnCond fallbackWarnInaccessibleSource env d
  | .unsupportedElement => warnCond fallbackWarnUnsupportedElement env d
  | .other => warnCond fallbackWarnOther env d

/-- An `except Exception` handler of `converted_call`: strict mode re-raises, otherwise
`_fall_back_unconverted` warns, remembers and calls the original. -/
def handleFailure (strictReraises fallsBack : Bool) (env : Env) (d : Desc) (c : Callable α) (args : List α)
    (kw : Option (Kw α)) (exc : ExcClass) (attempted : Bool) : Effect α × Desc :=
  if env.strict && strictReraises then (Effect.raise attempted false, d)
  else if fallsBack then
    (unconvertedEff c args kw attempted (fallbackWarns exc env d), d.remember fallbackUpdatesCache)
  else (Effect.raise attempted false, d)

/-- One level of `converted_call` that is not a partial unwrap: effect and updated facts of `f`. -/
def level (a : Action) (env : Env) (d : Desc) (self : Option α) (c : Callable α) (args : List α)
    (kw : Option (Kw α)) : Effect α × Desc :=
  match a with
  | .skip chk upd =>
      (unconvertedEff c args kw false (chk == .unsupported && unsupportedWarns d), d.remember upd)
  | .builtin =>
      if kw.isNone && !builtinKwargsOnlyWhenTruthy then (Effect.raise false false, d)
      else (⟨1, direct c args (kw.getD []), false, false, false, false,
             d.builtin == .overloaded && builtinUsesOverload, d.builtin == .special⟩, d)
  | .unknownKind => handleFailure kindStrictReraises kindFallsBack env d c args kw .other false
  | .convert =>
      match d.fail with
      | none =>
          if kw.isNone && !invokeHandlesNoneKwargs then (Effect.raise true false, d)
          else (⟨1, ⟨effectiveArgs d.kind self args, kw.getD []⟩, true, true, false, false, false, false⟩, d)
      | some (_, exc) => handleFailure convertStrictReraises convertFallsBack env d c args kw exc true
  | .unwrap => (Effect.raise false false, d)
  | .stuck => (Effect.raise false false, d)

/-- `converted_call(f, args, kwargs, options=o)`: the effect and the callable with its updated cache facts. -/
def call (env : Env) (o : Opts) : Callable α → List α → Option (Kw α) → Effect α × Callable α
  | .base d self binds, args, kw =>
      let r := level (decide false d env o) env d self (.base d self binds) args kw
      (r.1, .base r.2 self binds)
  | .part d a0 k0 inner, args, kw =>
      match decide true d env o with
      | .unwrap =>
          let r := call env o inner (mergeArgs a0 args) (some (mergeKw k0 kw))
          (r.1, .part d a0 k0 r.2)
      | a =>
          let r := level a env d none (.part d a0 k0 inner) args kw
          (r.1, .part r.2 a0 k0 inner)

/-! ## Shapes used by the theorems and the known-findings classes -/

/-- The base (innermost) description of a chain of partials. -/
def Callable.baseDesc : Callable α → Desc
  | .base d _ _ => d
  | .part _ _ _ inner => inner.baseDesc

/-- Facts of a genuine `functools.partial` object: not a builtin, an object whose `__call__` is native. -/
def Desc.partialLike (d : Desc) : Bool :=
  d.builtin == .notBuiltin && d.kind != .other && !d.targetHasCode && !isUnsupported d && !allowlisted d.ent

def Callable.partialsNatural : Callable α → Bool
  | .base _ _ _ => true
  | .part d _ _ inner => d.partialLike && inner.partialsNatural

/-- **Class predicate of finding C13-foreign-self**: the base callable carries a non-None `__self__` that
Python's call protocol does not bind (a plain function with a user-set `__self__` attribute). -/
def Callable.foreignSelf : Callable α → Bool
  | .base _ self binds => self.isSome && !binds
  | .part _ _ _ inner => inner.foreignSelf

/-- **Class predicate of finding C13-uncacheable**: the callable whose conversion fails cannot be put in
the negative cache (unhashable, or no weak references). -/
def Callable.uncacheableBase : Callable α → Bool
  | .base d _ _ => !d.cacheable
  | .part _ _ _ inner => inner.uncacheableBase


/-! ## Specification-level definitions used in the statements of the C13 theorems -/

/-- The documented exclusions: any one of them prevents the conversion of a (non-partial) callable.
(`isUnsupported` is characterised by `C13_unsupported_iff`, `allowlisted` by `C13_allowlist`.) -/
def Excluded (d : Desc) (env : Env) (o : Opts) : Prop :=
  d.inCache = true ∨ env.status = .disabled ∨ d.artifact = true ∨ d.builtin ≠ .notBuiltin ∨
  isUnsupported d = true ∨
  (o.userRequested = false ∧ allowlisted d.ent = true) ∨ o.internalConvert = false ∨ d.kind = .other ∨
  d.targetHasCode = false ∨ d.targetStringFile = true

/-- No `functools.partial` level of the chain is remembered in the negative cache or is an artifact. -/
def Callable.passes : Callable α → Bool
  | .base _ _ _ => true
  | .part d _ _ inner => !d.inCache && !d.artifact && inner.passes

/-- The callable after a failure has been remembered: its base is in the negative cache if it can be. -/
def Callable.remembered : Callable α → Callable α
  | .base d self binds => .base (if d.cacheable then { d with inCache := true } else d) self binds
  | .part d a0 k0 inner => .part d a0 k0 inner.remembered

/-- Positional arguments stored along a chain, innermost partial first (after the bound receiver). -/
def storedArgs : Callable α → List α
  | .base _ self binds => if binds then self.toList else []
  | .part _ a0 _ inner => storedArgs inner ++ a0

/-- keys of a keyword dictionary -/
def keys {α} (d : Kw α) : List String := d.map Prod.fst

/-- keyword lookup through the stored keywords: the outermost partial wins over the inner ones -/
def storedKw {α} (k : String) : Callable α → Option α
  | .base _ _ _ => none
  | .part _ _ k0 inner =>
    match dictGet k k0 with
    | some v => some v
    | none => storedKw k inner

/-- every stored keyword dictionary is a real dict (distinct keys) -/
def Callable.kwDistinct {α} : Callable α → Prop
  | .base _ _ _ => True
  | .part _ _ k0 inner => (keys k0).Nodup ∧ inner.kwDistinct

/-- Documented condition of the fallback warning: always, except for source-less environments. -/
def warnsFor (exc : ExcClass) (env : Env) : Bool :=
  match exc with
  | .inaccessibleSource => env.inspectSourceSupported
  | _ => true

/-! ## Histories: the negative cache as state threaded through a list of calls -/

/-- The exclusions that do not depend on the context of the call (nor on the cache): the only reasons, besides a
failed conversion, for which `converted_call` writes the negative cache. -/
def StableExcluded (d : Desc) (o : Opts) : Prop :=
  d.artifact = true ∨ d.builtin ≠ .notBuiltin ∨ isUnsupported d = true ∨
  (o.userRequested = false ∧ allowlisted d.ent = true) ∨ o.internalConvert = false ∨ d.kind = .other ∨
  d.targetHasCode = false ∨ d.targetStringFile = true ∨ d.fail.isSome = true

/-- Boolean version (for the driver: class predicate of finding C13-shared-function-owner-allowlist). -/
def stableExcludedB (d : Desc) (o : Opts) : Bool :=
  d.artifact || d.builtin != .notBuiltin || isUnsupported d || (!o.userRequested && allowlisted d.ent) ||
  !o.internalConvert || d.kind == .other || !d.targetHasCode || d.targetStringFile || d.fail.isSome

/-- `c'` is `c` with some more entries in the negative cache, each of them benign: a partial level is
remembered only if it is an artifact, the base only if a context-free exclusion (or a deterministic failure) holds. -/
def Benign (o : Opts) : Callable α → Callable α → Prop
  | .base d s b, .base d' s' b' =>
      s' = s ∧ b' = b ∧ (d' = d ∨ (d' = { d with inCache := true } ∧ StableExcluded d o))
  | .part d a k i, .part d' a' k' i' =>
      a' = a ∧ k' = k ∧ (d' = d ∨ (d' = { d with inCache := true } ∧ d.artifact = true)) ∧ Benign o i i'
  | _, _ => False

/-- The callable after a sequence of wrapped calls with the same options (any contexts, any arguments). -/
def callSeq (o : Opts) (c : Callable α) : List (Env × List α × Option (Kw α)) → Callable α
  | [] => c
  | (env, args, kw) :: rest => callSeq o (call env o c args kw).2 rest

/-- Identities of a callable (object identities as opaque numbers): the object itself, its bound target
(`__func__` of a bound method, the object itself otherwise) and its code object, if it has one.  Distinct closures of one
factory, or the wrappers produced by one `functools.wraps` decorator, have distinct `obj`/`func` but the same `code`. -/
structure Ident where
  obj : Nat
  func : Nat
  code : Option Nat
  deriving DecidableEq, Repr

/-- What a remembered verdict is filed under. -/
inductive CacheKey where
  | entity (n : Nat)
  | code (n : Nat)
  deriving DecidableEq, Repr

/-- `_ALLOWLIST_CACHE._get_key(entity)` for the cache class extracted from `conversion.py`:
`UnboundInstanceCache` keys a bound method by its `__func__` and anything else by itself;
`CodeObjectCache` keys whatever has a `__code__` by that code object. -/
def cacheKey (i : Ident) : CacheKey :=
  match allowlistCacheKind with
  | .unboundInstance => .entity (if cacheKeyDropsReceiver then i.func else i.obj)
  | .codeObject =>
    match i.code with
    | some c => .code c
    | none => .entity i.obj
  | .unresolved => .entity i.obj

/-- The negative cache: remembered (cache key of the entity, key of the options value) pairs. -/
abbrev CacheState := List (CacheKey × Nat)

/-- set the in-cache facts of every level from the cache state (`ids`: identities per level, outermost first) -/
def Callable.load (st : CacheState) (ok : Nat) : Callable α → List Ident → Callable α
  | .base d s b, i :: _ => .base { d with inCache := d.inCache || st.contains (cacheKey i, ok) } s b
  | .base d s b, [] => .base d s b
  | .part d a k0 inner, i :: is =>
      .part { d with inCache := d.inCache || st.contains (cacheKey i, ok) } a k0 (inner.load st ok is)
  | .part d a k0 inner, [] => .part d a k0 (inner.load st ok [])

/-- write the in-cache facts of every level back into the cache state -/
def Callable.store (ok : Nat) : Callable α → List Ident → CacheState → CacheState
  | .base d _ _, i :: _, st => if d.inCache && !st.contains (cacheKey i, ok) then (cacheKey i, ok) :: st else st
  | .base _ _ _, [], st => st
  | .part d _ _ inner, i :: is, st =>
      inner.store ok is (if d.inCache && !st.contains (cacheKey i, ok) then (cacheKey i, ok) :: st else st)
  | .part _ _ _ inner, [], st => inner.store ok [] st

/-- One call of a history: which callable, in which context, with which options (and the key of that options value). -/
structure HCall (α : Type) where
  slot : Nat
  env : Env
  optsKey : Nat
  opts : Opts
  args : List α
  kw : Option (Kw α)

/-- A history of wrapped calls over several callables sharing one negative cache: the effect of every call. -/
def runHistory (cs : List (Callable α × List Ident)) (st : CacheState) : List (HCall α) → List (Effect α)
  | [] => []
  | h :: rest =>
    match cs[h.slot]? with
    | none => runHistory cs st rest
    | some (c, keys) =>
      let r := call h.env h.opts (c.load st h.optsKey keys) h.args h.kw
      r.1 :: runHistory cs (r.2.store h.optsKey keys st) rest

/-! ## Threads: the context status a call reads is the one of ITS OWN thread -/

/-- Context-status stacks (innermost first) indexed by the owner of the storage; an empty stack stands for the lazily
created default stack. -/
abbrev Stacks := Nat → List CtxStatus

/-- Which stack thread `t` uses, for the storage extracted from `ag_ctx`: its own, when the storage is a plain
`threading.local()` initialised lazily per thread; otherwise (not recognised) one stack for everybody. -/
def stackOwner (t : Nat) : Nat :=
  match ctxStorage with
  | .threadLocalLazy => t
  | .unresolved => 0

/-- `ControlStatusCtx(status).__enter__()` executed by thread `t` -/
def Stacks.enter (s : Stacks) (t : Nat) (st : CtxStatus) : Stacks :=
  fun u => if u = stackOwner t then st :: s u else s u

/-- `ControlStatusCtx.__exit__` executed by thread `t` -/
def Stacks.leave (s : Stacks) (t : Nat) : Stacks :=
  fun u => if u = stackOwner t then (s u).tail else s u

/-- `ag_ctx.control_status_ctx().status` as read by thread `t` -/
def currentStatus (s : Stacks) (t : Nat) : CtxStatus :=
  (s (stackOwner t)).headD (if ctxDefaultIsUnspecified then .unspecified else .disabled)

/-- a context event of some thread: enter a region with a status, or leave the innermost region -/
abbrev CtxEvent := Nat × Option CtxStatus

def Stacks.apply (s : Stacks) : List CtxEvent → Stacks
  | [] => s
  | (t, some st) :: rest => (s.enter t st).apply rest
  | (t, none) :: rest => (s.leave t).apply rest

/-- One event of a multi-threaded schedule. -/
inductive TEvent (α : Type) where
  | ctx (e : CtxEvent)
  | call (t : Nat) (strict : Bool) (o : Opts) (c : Callable α) (args : List α) (kw : Option (Kw α))

/-- The effects of the wrapped calls of a schedule (each call on its own callable). -/
def runThreads (s : Stacks) : List (TEvent α) → List (Effect α)
  | [] => []
  | .ctx e :: rest => runThreads (s.apply [e]) rest
  | .call t strict o c args kw :: rest =>
      (call ⟨currentStatus s t, strict, true⟩ o c args kw).1 :: runThreads s rest

end Malt.Policy
