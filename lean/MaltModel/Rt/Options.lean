import MaltModel.Generated.Options
import MaltModel.Util.Sexp
/-
Model of `malt.core.converter.ConversionOptions` (C20).  Import-free and executable.

The frozenset of features is modelled as its characteristic function; `featList` is its
canonical listing (in enum declaration order).  `toAst` takes the *iteration order* of the
frozenset as an explicit argument: CPython's order depends on PYTHONHASHSEED, so the theorem
quantifies over every permutation.
-/
namespace Malt.Options
open Malt.Gen

structure Opts where
  recursive : Bool
  userRequested : Bool
  internal : Bool
  features : Feature → Bool

/-- `frozenset(...)` of the constructor's normalised argument. -/
def featSet : FeatSpelling → Feature → Bool
  | .none, _ => false
  | .single f, g => f == g
  | .many fs, g => fs.contains g
  | .unresolved, _ => false

/-- `ConversionOptions.__init__`. -/
def ctor (r u i : Bool) (sp : FeatSpelling) : Opts := ⟨r, u, i, featSet sp⟩

def featList (o : Opts) : List Feature := Feature.all.filter o.features

/-- `as_tuple()` with the set canonicalised. -/
def asTuple (o : Opts) : Bool × Bool × Bool × List Feature :=
  (o.recursive, o.userRequested, o.internal, featList o)

/-- `__eq__` : `self.as_tuple() == other.as_tuple()`. -/
def eq (a b : Opts) : Bool := asTuple a == asTuple b

/-- `__hash__` for an arbitrary hash of tuples. -/
def hash {α} (h : Bool × Bool × Bool × List Feature → α) (o : Opts) : α := h (asTuple o)

/-- `uses(feature)`. -/
def uses (o : Opts) (f : Feature) : Bool := o.features .ALL || o.features f

def fieldB (o : Opts) (dflt : Bool) : FieldSrc → Bool
  | .recursive => o.recursive
  | .userRequested => o.userRequested
  | .internal => o.internal
  | .constB b => b
  | _ => dflt

def fieldF (o : Opts) : FieldSrc → FeatSpelling
  | .features => .many (featList o)
  | .default => ctorDefaultFeatures
  | _ => .unresolved

/-- `call_options()`, with the source of each keyword taken from the extracted table. -/
def callOptions (o : Opts) : Opts :=
  ctor (fieldB o ctorDefaultRecursive callOptsRecursive)
       (fieldB o ctorDefaultUserRequested callOptsUserRequested)
       (fieldB o ctorDefaultInternal callOptsInternal)
       (fieldF o callOptsFeatures)

def std : Opts := ctor stdRecursive stdUserRequested stdInternal stdFeatures

/-- The expression `to_ast` builds (after `templates.replace`). `feats` is the *expression* for
`optional_features_val`: `'({})'.format(', '.join(...))` parses to an empty tuple for no feature,
to the bare (parenthesised) attribute for one feature, and to a tuple for two or more. -/
inductive FeatExpr where
  | emptyTuple
  | bare (f : Feature)
  | tuple (fs : List Feature)
  deriving Repr, DecidableEq

inductive OptAst where
  | std                                   -- `ag__.STD`
  | call (recursive userRequested : Bool) (feats : FeatExpr) (internal : Bool)
  deriving Repr, DecidableEq

def featExprOf : List Feature → FeatExpr
  | [] => .emptyTuple
  | [f] => .bare f
  | fs => .tuple fs

/-- `to_ast()`; `order` is the iteration order of the feature frozenset. -/
def toAst (o : Opts) (order : List Feature) : OptAst :=
  if eq o std then .std
  else .call o.recursive o.userRequested (featExprOf order) o.internal

def evalFeatExpr : FeatExpr → FeatSpelling
  | .emptyTuple => .many []
  | .bare f => .single f
  | .tuple fs => .many fs

/-- Evaluation of the emitted expression in a namespace where `ag__.STD`, `ag__.Feature` and
`ag__.ConversionOptions` are the real objects (`api.get_extra_locals`). -/
def evalAst : OptAst → Opts
  | .std => std
  | .call r u fe i => ctor r u i (evalFeatExpr fe)

/-- The options a generated `FunctionScope` hands to callees (`self.callopts`): `call_options()` of the scope's
options, as long as the extracted shape fact says so (otherwise left as the raw options, which the theorem rejects). -/
def scopeCallopts (o : Opts) : Opts := if scopeCalloptsFromCallOptions then callOptions o else o

/-- The conversion-cache sub-key of a request (`PyToPy.get_caching_key`). -/
def cacheKey (o : Opts) : Opts := if cachingKeyIsOptions then o else callOptions o

/-! Driver glue -/
open Malt in
def tupleSexp (o : Opts) : Sexp :=
  .list [Sexp.ofBool o.recursive, Sexp.ofBool o.userRequested, Sexp.ofBool o.internal,
         Sexp.ofStrs ((featList o).map Feature.name)]

end Malt.Options
