import MaltModel.Sem.Core
/-!
`Malt.Func` — the **target language** of functionalisation (`malt/converters/control_flow.py`) and its two
semantics.  Import-free apart from `Malt.Sem` (expressions, values, events, outcomes are shared with the
source language, so that a source run and a target run can be compared literally).

Syntax = the simple statements of `Malt.Sem` (assign, expression statement, pass, return, raise) plus

* `undefAssign x`                            `x = ag__.Undefined('x')`
* `ifF c body orelse declared nouts`         `ag__.if_stmt(c, if_body, else_body, get_state, set_state, names, nouts)`
* `whileF test body declared`                `ag__.while_stmt(loop_test, loop_body, get_state, set_state, names, opts)`
* `forF x it extra body declared`            `ag__.for_stmt(it, extra_test, loop_body, get_state, set_state, names, opts)`
* `withT tag body`, `tryT body handlers fin`  `with` / `try … except E<tag> … finally`: NOT functionalised (the pass leaves
  them in place); their blocks may contain the forms above and run in the SAME frame; semantics as `Sem.withS`/`Sem.tryS`

where `declared` is the list of simple names that the generated functions (`if_body`, `else_body`, `loop_body`,
`extra_test`, `set_state`) declare `nonlocal` = the names returned by `get_state()` = `symbol_names`, in that
order.  (The language after the jump-lowering passes contains no `break`/`continue`, and the control-flow pass
rewrites *every* `if`/`while`/`for`, so no native compound statement is left in its output.)

## State.  A variable slot is `unbound`, `undef` (bound to an `ag__.Undefined` placeholder) or `val v`.
Every read of a simple name in generated code goes through `ag__.ld`, which raises `UnboundLocalError` for a
placeholder; a read of an unbound name raises `NameError`/`UnboundLocalError`.  Both are the *same* observation
`Exc.nameError x` here — exactly the identification the property allows ("only some NameError is required").
The two slots are nevertheless kept apart because `get_state()` reads the raw variable: a placeholder is passed
on as a value, an unbound variable makes the getter itself raise (this is what the `Undefined` pre-assignments
are for, and it matters for the functional semantics `execF`).

## Python scoping of the generated body functions (the point of this model).
A body runs as a *function*: its local variables are the names **assigned directly in its own code** (plain
assignments, `x = ag__.Undefined('x')` pre-assignments emitted for nested statements, and — for a `for` body —
the loop target, which the template assigns inside `loop_body`) that are **not** in `declared`.  Assignments inside
*nested* generated functions do not make a name local to the outer body.  Reading such a local before its
assignment raises `UnboundLocalError` even if the enclosing frame binds the name; writes to it do not reach the
enclosing frame and vanish when the body returns.  All other names (declared `nonlocal`, or only read) refer to
the enclosing frames.

**Flat "mask and restore" formulation.**  States are flat environments.  Calling a body with local set `L` from
state σ runs the body on `mask L σ` (the slots of `L` set to `unbound`) and afterwards `restore`s the slots of
`L` from σ.  For this closure-free fragment this is equivalent to a frame stack: the only access path to a
variable is its name; inside the body a name in `L` denotes the fresh frame's slot (initially unbound) and any
other name denotes the slot visible in the caller (which is what the unmasked part of the flat environment
holds — including the caller's own locals, which are *its* masked-and-later-restored slots); when the body
returns, the fresh frame is dropped (the names in `L` denote the caller's slots again — `restore`) and all writes
to other names persist (they were made in place).  No generated function outlives its call and none is called
re-entrantly, so no two live frames of the same function exist.  The harness validates this model against
CPython running the real generated code on every run (correspondence `execN` ↔ real default operators).
-/
namespace Malt.Func
open Malt.Sem

inductive Slot where
  | unbound
  | undef
  | val (v : Val)
  deriving Repr, DecidableEq, Inhabited

/-- What a read through `ag__.ld` sees. -/
def Slot.toOpt : Slot → Option Val
  | .val v => some v
  | _ => none

structure TSt where
  env : Name → Slot
  log : List Event

/-- The source-level view of a target state: placeholders read as unbound. -/
def TSt.view (σ : TSt) : St := ⟨fun x => (σ.env x).toOpt, σ.log⟩

def TSt.setSlot (σ : TSt) (x : Name) (s : Slot) : TSt :=
  { σ with env := fun y => if y = x then s else σ.env y }

def TSt.set (σ : TSt) (x : Name) (v : Val) : TSt := σ.setSlot x (.val v)

/-- Expression evaluation in a target state: every name is read through `ld`; the environment is never
changed by an expression, only the log. -/
def evalT (X : Ext) (e : Expr) (σ : TSt) : Except Exc Val × TSt :=
  let r := evalE X e σ.view
  (r.1, { σ with log := r.2.log })

inductive TStmt where
  | assign (x : Name) (e : Expr)
  | expr (e : Expr)
  | pass
  | ret (e : Option Expr)
  | raise (tag : Nat)
  | undefAssign (x : Name)
  | ifF (c : Expr) (body orelse : List TStmt) (declared : List Name) (nouts : Nat)
  | whileF (c : Expr) (body : List TStmt) (declared : List Name)
  | forF (x : Name) (it : Expr) (extra : Option Expr) (body : List TStmt) (declared : List Name)
  /-- `with cm(tag):` — NOT functionalised by the control-flow pass (pass-through); its block may contain
  functionalised statements and runs in the same frame. -/
  | withT (tag : Int) (body : List TStmt)
  /-- `try / except E<tag> … / finally` — pass-through; body, handlers and finally block run in the same frame. -/
  | tryT (body : List TStmt) (handlers : List (Nat × List TStmt)) (fin : List TStmt)
  deriving Repr, Inhabited

abbrev TBlock := List TStmt

def TSt.push (σ : TSt) (e : Event) : TSt := { σ with log := σ.log ++ [e] }

/-- Does `except E<tag>` among the handlers catch this exception? (first match; as `Sem.findHandler`) -/
def findHandlerT (hs : List (Nat × TBlock)) : Exc → Option TBlock
  | .user t => (hs.find? (fun h => h.1 == t)).map (·.2)
  | _ => none

mutual
/-- Names assigned directly by a statement of a function's own code (not inside nested generated functions).
The blocks of `with` / `try` are part of the function's own code. -/
def directS : TStmt → List Name
  | .assign x _ => [x]
  | .undefAssign x => [x]
  | .withT _ b => direct b
  | .tryT b hs f => direct b ++ (directH hs ++ direct f)
  | _ => []
def direct : List TStmt → List Name
  | [] => []
  | s :: rest => directS s ++ direct rest
def directH : List (Nat × List TStmt) → List Name
  | [] => []
  | (_, b) :: rest => direct b ++ directH rest
end

/-- Local variables of a generated body function. -/
def localsOf (body : TBlock) (declared : List Name) : List Name :=
  (direct body).filter (fun x => !declared.contains x)

/-- Local variables of a generated `for` body function: the template assigns the target inside it. -/
def localsFor (x : Name) (body : TBlock) (declared : List Name) : List Name :=
  (x :: direct body).filter (fun y => !declared.contains y)

def mask (L : List Name) (σ : TSt) : TSt :=
  { σ with env := fun x => if L.contains x then .unbound else σ.env x }

def restore (L : List Name) (σ₀ τ : TSt) : TSt :=
  { τ with env := fun x => if L.contains x then σ₀.env x else τ.env x }

/-- Outcome of a call of a generated function whose result the operator discards: a `return` inside it just
ends the call (the jump-free fragment has none). Exceptions propagate. -/
def fnOut : Out → Out
  | .exc e => .exc e
  | _ => .normal

/-- Wrap the run of a body on the masked state into a function call from σ. -/
def withFrame (L : List Name) (σ : TSt) (r : Option (Out × TSt)) : Option (Out × TSt) :=
  match r with
  | none => none
  | some (o, τ) => some (fnOut o, restore L σ τ)

mutual
/-- **Native semantics**: the Python fallbacks `_py_if_stmt`, `_py_while_stmt`, `_py_for_stmt`, literally. -/
def execN (X : Ext) : Nat → TStmt → TSt → Option (Out × TSt)
  | 0, _, _ => none
  | n+1, s, σ =>
    match s with
    | .assign x e => (match evalT X e σ with
        | (.ok v, σ') => some (.normal, σ'.set x v)
        | (.error ex, σ') => some (.exc ex, σ'))
    | .expr e => (match evalT X e σ with
        | (.ok _, σ') => some (.normal, σ')
        | (.error ex, σ') => some (.exc ex, σ'))
    | .pass => some (.normal, σ)
    | .ret none => some (.ret .none, σ)
    | .ret (some e) => (match evalT X e σ with
        | (.ok v, σ') => some (.ret v, σ')
        | (.error ex, σ') => some (.exc ex, σ'))
    | .raise t => some (.exc (.user t), σ)
    | .undefAssign x => some (.normal, σ.setSlot x .undef)
    | .ifF c body orelse decl _ => (match evalT X c σ with      -- `return body() if cond else orelse()`
        | (.ok v, σ') =>
          if truthy v then withFrame (localsOf body decl) σ' (execNB X n body (mask (localsOf body decl) σ'))
          else withFrame (localsOf orelse decl) σ' (execNB X n orelse (mask (localsOf orelse decl) σ'))
        | (.error ex, σ') => some (.exc ex, σ'))
    | .whileF c body decl => (match evalT X c σ with            -- `while test(): body()`
        | (.ok v, σ') =>
          if !truthy v then some (.normal, σ') else
            (match withFrame (localsOf body decl) σ' (execNB X n body (mask (localsOf body decl) σ')) with
             | none => none
             | some (.normal, σ'') => execN X n (.whileF c body decl) σ''
             | some r => some r)
        | (.error ex, σ') => some (.exc ex, σ'))
    | .forF x it extra body decl => (match evalT X it σ with
        | (.ok v, σ') => (match iterItems v with
            | .ok items => (match extra with
                | none => execNFor X n x none body decl items σ'
                | some t => (match evalT X t σ' with      -- `if guarded_extra_test(): for …`
                    | (.ok tv, σ'') => if truthy tv then execNFor X n x (some t) body decl items σ'' else some (.normal, σ'')
                    | (.error ex, σ'') => some (.exc ex, σ'')))
            | .error ex => some (.exc ex, σ'))
        | (.error ex, σ') => some (.exc ex, σ'))
    | .withT tag body =>                                          -- as `Sem.exec` on `withS`
        (match execNB X n body (σ.push (.enter tag)) with
         | none => none
         | some (o, σ') => some (o, σ'.push (.exit tag)))
    | .tryT body hs fin =>                                        -- as `Sem.exec` on `tryS`
        (match execNB X n body σ with
         | none => none
         | some (o, σ') =>
           let afterH : Option (Out × TSt) := match o with
             | .exc ex => (match findHandlerT hs ex with
                 | some hb => execNB X n hb σ'
                 | none => some (o, σ'))
             | _ => some (o, σ')
           match afterH with
           | none => none
           | some (o', σ'') =>
             (match execNB X n fin σ'' with
              | none => none
              | some (.normal, σ₃) => some (o', σ₃)
              | some r => some r))
def execNB (X : Ext) : Nat → TBlock → TSt → Option (Out × TSt)
  | 0, _, _ => none
  | _+1, [], σ => some (.normal, σ)
  | n+1, s :: rest, σ => (match execN X n s σ with
      | none => none
      | some (.normal, σ') => execNB X n rest σ'
      | some r => some r)
/-- `for target in iter_: body(target); if not guarded_extra_test(): break` over the remaining items.
`body(target)` is the generated `loop_body(itr)`: `x = itr` followed by the body, as one function. -/
def execNFor (X : Ext) : Nat → Name → Option Expr → TBlock → List Name → List Val → TSt → Option (Out × TSt)
  | 0, _, _, _, _, _, _ => none
  | _+1, _, _, _, _, [], σ => some (.normal, σ)
  | n+1, x, extra, body, decl, v :: items, σ =>
      (match withFrame (localsFor x body decl) σ
               (execNB X n (.assign x (.const v) :: body) (mask (localsFor x body decl) σ)) with
       | none => none
       | some (.normal, σ') =>
           (match extra with
            | none => execNFor X n x extra body decl items σ'
            | some t => (match evalT X t σ' with
                | (.ok tv, σ'') => if truthy tv then execNFor X n x extra body decl items σ'' else some (.normal, σ'')
                | (.error ex, σ'') => some (.exc ex, σ'')))
       | some r => some r)
end

/-! ## Functional (tracing) semantics `execF`

A tracing-style backend touches the enclosing function's variables only through `get_state`/`set_state`
(g3doc/reference/control_flow.md "All Python code paths are executed during tracing"; module docstring of
`malt/operators/control_flow.py`).  `get_state()` is `return (x₁, …, xₖ)` over `declared` — reading an *unbound*
variable there raises; a placeholder is passed on as a value.  `set_state(vs)` assigns the `declared` variables.

* `ifF`: `s0 = get_state(); body(); sb = get_state(); set_state(s0); orelse(); so = get_state()`; the result
  state is the first `nouts` entries of the selected branch's snapshot, the rest restored from `s0`
  (those are inputs only: "Vars which are not outputs will not be passed through staged control flow").
* `whileF`/`forF`: `s0 = get_state()`; the body is traced once **out of band** (also for zero iterations; for a
  `for` with the first item, or `0` for an empty iterable) and the state restored with `set_state(s0)`; then the
  loop runs with the carried state re-injected by `set_state(carried)` before every iteration and
  `carried = get_state()` after it.
An exception raised by any of these runs (including the out-of-band ones) propagates.  Effects on variables
that are not in `declared` are whatever Python scoping makes of them (frame-local ones vanish; the others persist)
— the backend has no handle on them.
-/

/-- `get_state()`: the raw slots of the declared variables; `none` if one of them is unbound (the getter raises). -/
def getState (decl : List Name) (σ : TSt) : Except Name (List Slot) :=
  match decl with
  | [] => .ok []
  | x :: rest => match σ.env x with
      | .unbound => .error x
      | s => (match getState rest σ with
          | .ok ss => .ok (s :: ss)
          | .error y => .error y)

/-- `set_state(vs)`: `x₁, …, xₖ = vs`. -/
def setState : List Name → List Slot → TSt → TSt
  | x :: xs, s :: ss, σ => setState xs ss (σ.setSlot x s)
  | _, _, σ => σ

/-- First `nouts` entries from the selected branch, the rest from the initial snapshot. -/
def selectOuts (nouts : Nat) (sel s0 : List Slot) : List Slot := sel.take nouts ++ s0.drop nouts

/-! ### Finding class `state_var_unbound_local_of_enclosing_body`
A static predicate on generated code: some functionalised statement nested in a generated body function has a
state variable `x` that is a *local* of that body function (assigned directly in it, not declared `nonlocal`)
and is not yet assigned when the statement starts — because the direct assignment that makes it local comes
*later* in the body.  `get_state()` of the nested statement then reads an unbound local and raises.  Natively
nothing happens (the getter is never called).  The pinned `_get_block_vars` emits no `Undefined` placeholder in
this situation when the variable is (may-)defined before the *outer* statement. -/
mutual
def riskS (L B : List Name) : TStmt → Bool
  | .ifF _ b e decl _ => decl.any (fun x => L.contains x && !B.contains x) ||
      riskB (localsOf b decl) [] b || riskB (localsOf e decl) [] e
  | .whileF _ b decl => decl.any (fun x => L.contains x && !B.contains x) || riskB (localsOf b decl) [] b
  | .forF x _ _ b decl => decl.any (fun y => L.contains y && !B.contains y) || riskB (localsFor x b decl) [x] b
  | .withT _ b => riskB L B b
  | .tryT b hs f => riskB L B b || riskH L B hs || riskB L B f
  | _ => false
def riskB (L B : List Name) : List TStmt → Bool
  | [] => false
  | s :: r => riskS L B s || riskB L (B ++ directS s) r
def riskH (L B : List Name) : List (Nat × List TStmt) → Bool
  | [] => false
  | (_, b) :: r => riskB L B b || riskH L B r
end

/-- The class predicate on a whole generated function body (the function's own frame is not at risk: every
state variable possibly unbound there gets its `Undefined` placeholder). -/
def stateUnboundRisk (t : TBlock) : Bool := riskB [] [] t

mutual
def execF (X : Ext) : Nat → TStmt → TSt → Option (Out × TSt)
  | 0, _, _ => none
  | n+1, s, σ =>
    match s with
    | .assign x e => (match evalT X e σ with
        | (.ok v, σ') => some (.normal, σ'.set x v)
        | (.error ex, σ') => some (.exc ex, σ'))
    | .expr e => (match evalT X e σ with
        | (.ok _, σ') => some (.normal, σ')
        | (.error ex, σ') => some (.exc ex, σ'))
    | .pass => some (.normal, σ)
    | .ret none => some (.ret .none, σ)
    | .ret (some e) => (match evalT X e σ with
        | (.ok v, σ') => some (.ret v, σ')
        | (.error ex, σ') => some (.exc ex, σ'))
    | .raise t => some (.exc (.user t), σ)
    | .undefAssign x => some (.normal, σ.setSlot x .undef)
    | .ifF c body orelse decl nouts => (match evalT X c σ with
        | (.error ex, σ') => some (.exc ex, σ')
        | (.ok v, σ') =>
          (match getState decl σ' with
           | .error y => some (.exc (.nameError y), σ')
           | .ok s0 =>
             (match withFrame (localsOf body decl) σ' (execFB X n body (mask (localsOf body decl) σ')) with
              | none => none
              | some (.normal, σb) =>
                (match getState decl σb with
                 | .error y => some (.exc (.nameError y), σb)
                 | .ok sb =>
                   let σr := setState decl s0 σb
                   (match withFrame (localsOf orelse decl) σr (execFB X n orelse (mask (localsOf orelse decl) σr)) with
                    | none => none
                    | some (.normal, σo) =>
                      (match getState decl σo with
                       | .error y => some (.exc (.nameError y), σo)
                       | .ok so =>
                         some (.normal, setState decl (selectOuts nouts (if truthy v then sb else so) s0) σo))
                    | some r => some r))
              | some r => some r)))
    | .whileF c body decl =>
        (match getState decl σ with
         | .error y => some (.exc (.nameError y), σ)
         | .ok s0 =>
           -- out-of-band trace of the body, then restore
           (match withFrame (localsOf body decl) σ (execFB X n body (mask (localsOf body decl) σ)) with
            | none => none
            | some (.normal, σt) => execFWhile X n c body decl s0 (setState decl s0 σt)
            | some r => some r))
    | .forF x it extra body decl => (match evalT X it σ with
        | (.error ex, σ') => some (.exc ex, σ')
        | (.ok v, σ') => (match iterItems v with
            | .error ex => some (.exc ex, σ')
            | .ok items =>
              (match getState decl σ' with
               | .error y => some (.exc (.nameError y), σ')
               | .ok s0 =>
                 (match withFrame (localsFor x body decl) σ'
                          (execFB X n (.assign x (.const (items.headD (.int 0))) :: body) (mask (localsFor x body decl) σ')) with
                  | none => none
                  | some (.normal, σt) =>
                    let σr := setState decl s0 σt
                    (match extra with
                     | none => execFFor X n x none body decl items s0 σr
                     | some t => (match evalT X t σr with
                         | (.ok tv, σ'') => if truthy tv then execFFor X n x (some t) body decl items s0 σ'' else some (.normal, σ'')
                         | (.error ex, σ'') => some (.exc ex, σ'')))
                  | some r => some r))))
    | .withT tag body =>
        (match execFB X n body (σ.push (.enter tag)) with
         | none => none
         | some (o, σ') => some (o, σ'.push (.exit tag)))
    | .tryT body hs fin =>
        (match execFB X n body σ with
         | none => none
         | some (o, σ') =>
           let afterH : Option (Out × TSt) := match o with
             | .exc ex => (match findHandlerT hs ex with
                 | some hb => execFB X n hb σ'
                 | none => some (o, σ'))
             | _ => some (o, σ')
           match afterH with
           | none => none
           | some (o', σ'') =>
             (match execFB X n fin σ'' with
              | none => none
              | some (.normal, σ₃) => some (o', σ₃)
              | some r => some r))
def execFB (X : Ext) : Nat → TBlock → TSt → Option (Out × TSt)
  | 0, _, _ => none
  | _+1, [], σ => some (.normal, σ)
  | n+1, s :: rest, σ => (match execF X n s σ with
      | none => none
      | some (.normal, σ') => execFB X n rest σ'
      | some r => some r)
/-- The iterations of a functional `while`: `set_state(carried)`; test; body; `carried = get_state()`. -/
def execFWhile (X : Ext) : Nat → Expr → TBlock → List Name → List Slot → TSt → Option (Out × TSt)
  | 0, _, _, _, _, _ => none
  | n+1, c, body, decl, carried, σ =>
    let σi := setState decl carried σ
    (match evalT X c σi with
     | (.error ex, σ') => some (.exc ex, σ')
     | (.ok v, σ') =>
       if !truthy v then some (.normal, σ') else
         (match withFrame (localsOf body decl) σ' (execFB X n body (mask (localsOf body decl) σ')) with
          | none => none
          | some (.normal, σ'') =>
            (match getState decl σ'' with
             | .error y => some (.exc (.nameError y), σ'')
             | .ok carried' => execFWhile X n c body decl carried' σ'')
          | some r => some r))
def execFFor (X : Ext) : Nat → Name → Option Expr → TBlock → List Name → List Val → List Slot → TSt → Option (Out × TSt)
  | 0, _, _, _, _, _, _, _ => none
  | _+1, _, _, _, decl, [], carried, σ => some (.normal, setState decl carried σ)
  | n+1, x, extra, body, decl, v :: items, carried, σ =>
    let σi := setState decl carried σ
    (match withFrame (localsFor x body decl) σi
             (execFB X n (.assign x (.const v) :: body) (mask (localsFor x body decl) σi)) with
     | none => none
     | some (.normal, σ') =>
       (match getState decl σ' with
        | .error y => some (.exc (.nameError y), σ')
        | .ok carried' =>
          (match extra with
           | none => execFFor X n x extra body decl items carried' σ'
           | some t => (match evalT X t σ' with
               | (.ok tv, σ'') => if truthy tv then execFFor X n x extra body decl items carried' σ'' else some (.normal, σ'')
               | (.error ex, σ'') => some (.exc ex, σ''))))
     | some r => some r)
end

end Malt.Func
