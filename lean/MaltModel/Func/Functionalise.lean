import MaltModel.Func.Target
/-!
`Malt.Func` — the functionalisation pass (`ControlFlowTransformer`) as a function on annotated programs, and the
statement of what the real pass guarantees about the annotations it consumes.

**Fragment** (`AStmt`): the jump-free language that reaches `ControlFlowTransformer` — assign, expression
statement, pass, raise, `if`/`while`/`for` (with the optional EXTRA_LOOP_TEST), and `return`; no
`break`/`continue` (lowered by the jump passes), no `try`/`with` (not covered by the proof; stated in the
theorem names).  `return` is only meaningful at the top level of the function body (`RetTop`).

Every statement carries an `Info`: the static-analysis facts the converter reads from the tree
(`LIVE_VARS_IN`, `LIVE_VARS_OUT`, `DEFINED_VARS_IN`) and the two results of `_get_block_vars` that determine the
generated code (`declared` = `scope_vars` = the `nonlocal` list = the state tuple, in order; `undefined`;
`nouts`).  The annotation is *abstract*: `funcS` uses only `declared`, `undefined`, `nouts`; the theorems
assume only inclusions between these and the liveness/definedness facts.  `annotB` turns a plain `Sem.Block`
plus a position-indexed annotation into an `AStmt` program (and rejects programs outside the fragment), so the
main theorem can also be read as "for every jump-free `Sem` program and every annotation".
-/
namespace Malt.Func
open Malt.Sem

structure Info where
  liveIn : List Name := []
  liveOut : List Name := []
  definedIn : List Name := []
  declared : List Name := []
  undefined : List Name := []
  nouts : Nat := 0
  deriving Repr, Inhabited

inductive AStmt where
  | assign (i : Info) (x : Name) (e : Expr)
  | expr (i : Info) (e : Expr)
  | pass (i : Info)
  | ret (i : Info) (e : Option Expr)
  | raise (i : Info) (tag : Nat)
  | ifS (i : Info) (c : Expr) (t e : List AStmt)
  | whileS (i : Info) (c : Expr) (b : List AStmt)
  | forS (i : Info) (x : Name) (it : Expr) (extra : Option Expr) (b : List AStmt)
  deriving Repr, Inhabited

abbrev ABlock := List AStmt

def AStmt.info : AStmt → Info
  | .assign i .. => i | .expr i .. => i | .pass i => i | .ret i .. => i | .raise i .. => i
  | .ifS i .. => i | .whileS i .. => i | .forS i .. => i

mutual
/-- The underlying `Malt.Sem` program. -/
def eraseS : AStmt → Stmt
  | .assign _ x e => .assign x e
  | .expr _ e => .expr e
  | .pass _ => .pass
  | .ret _ e => .ret e
  | .raise _ t => .raise t
  | .ifS _ c t e => .ifS c (eraseB t) (eraseB e)
  | .whileS _ c b => .whileS c (eraseB b)
  | .forS _ x it extra b => .forS x it extra (eraseB b)
def eraseB : List AStmt → Block
  | [] => []
  | s :: r => eraseS s :: eraseB r
end

mutual
/-- Simple names a statement may assign, at any depth (`scope.bound`/`modified` of activity analysis, for
simple names; the `for` target belongs to the loop: `body_scope.bound | iter_scope.bound`). -/
def asgS : AStmt → List Name
  | .assign _ x _ => [x]
  | .ifS _ _ t e => asgB t ++ asgB e
  | .whileS _ _ b => asgB b
  | .forS _ x _ _ b => x :: asgB b
  | _ => []
def asgB : List AStmt → List Name
  | [] => []
  | s :: r => asgS s ++ asgB r
end

def undefs (us : List Name) : TBlock := us.map .undefAssign

mutual
/-- The three templates of `visit_If`/`visit_While`/`visit_For`: the `Undefined` pre-assignments followed by the
operator call; the bodies become generated functions declaring `declared` nonlocal. -/
def funcS : AStmt → TBlock
  | .assign _ x e => [.assign x e]
  | .expr _ e => [.expr e]
  | .pass _ => [.pass]
  | .ret _ e => [.ret e]
  | .raise _ t => [.raise t]
  | .ifS i c t e => undefs i.undefined ++ [.ifF c (funcB t) (funcB e) i.declared i.nouts]
  | .whileS i c b => undefs i.undefined ++ [.whileF c (funcB b) i.declared]
  | .forS i x it extra b => undefs i.undefined ++ [.forF x it extra (funcB b) i.declared]
def funcB : List AStmt → TBlock
  | [] => []
  | s :: r => funcS s ++ funcB r
end

/-! ### Variables read by an expression -/
mutual
def vars : Expr → List Name
  | .const _ => []
  | .var x => [x]
  | .not e => vars e
  | .and a b => vars a ++ vars b
  | .or a b => vars a ++ vars b
  | .ite c t e => vars c ++ (vars t ++ vars e)
  | .bin _ a b => vars a ++ vars b
  | .call _ args => varsL args
def varsL : List Expr → List Name
  | [] => []
  | e :: es => vars e ++ varsL es
end

def varsO : Option Expr → List Name
  | none => []
  | some e => vars e

/-- Live-in of a block whose continuation has live set `O`. -/
def blockIn : List AStmt → List Name → List Name
  | [], O => O
  | s :: _, _ => s.info.liveIn

/-! ### `LiveConsistent`: a structured post-fixed point of the liveness equations

* simple statement: `liveIn ⊇ reads ∪ (liveOut \ writes)`;
* sequence `s₁; s₂`: `liveOut s₁ ⊇ liveIn s₂` (for the last statement of a block: ⊇ what is live after the block);
* `if`: `liveIn ⊇ reads(test) ∪ liveIn(body) ∪ liveIn(orelse)`, the branches continue with `liveOut(if)`;
* `while`: `liveIn ⊇ reads(test) ∪ liveIn(body) ∪ liveOut`, the body continues with `liveIn(while)` (back edge);
* `for x`: `liveIn ⊇ reads(iter) ∪ reads(extra test) ∪ liveOut ∪ (liveIn(body) \ {x})`, the body continues with
  `liveIn(for)` (back edge).  Note `liveIn ⊇ liveOut` **including the target `x`**: the loop may run zero
  times (this is the inclusion the pinned `liveness.py` violates: it kills the target on the exit edge).
-/
mutual
def LiveS : AStmt → Prop
  | .assign i x e => vars e ⊆ i.liveIn ∧ i.liveOut.filter (fun y => y != x) ⊆ i.liveIn
  | .expr i e => vars e ⊆ i.liveIn ∧ i.liveOut ⊆ i.liveIn
  | .pass i => i.liveOut ⊆ i.liveIn
  | .ret i e => varsO e ⊆ i.liveIn
  | .raise _ _ => True
  | .ifS i c t e => vars c ⊆ i.liveIn ∧ blockIn t i.liveOut ⊆ i.liveIn ∧ blockIn e i.liveOut ⊆ i.liveIn ∧
      LiveB t i.liveOut ∧ LiveB e i.liveOut
  | .whileS i c b => vars c ⊆ i.liveIn ∧ blockIn b i.liveIn ⊆ i.liveIn ∧ i.liveOut ⊆ i.liveIn ∧ LiveB b i.liveIn
  | .forS i x it extra b => vars it ⊆ i.liveIn ∧ varsO extra ⊆ i.liveIn ∧ i.liveOut ⊆ i.liveIn ∧
      (blockIn b i.liveIn).filter (fun y => y != x) ⊆ i.liveIn ∧ LiveB b i.liveIn
/-- `LiveB b O`: block `b` is consistently annotated when `O` is live after it. -/
def LiveB : List AStmt → List Name → Prop
  | [], _ => True
  | s :: r, O => LiveS s ∧ blockIn r O ⊆ s.info.liveOut ∧ LiveB r O
end

/-- The liveness annotation of program `p` (with `O` live at its end) is consistent. -/
def LiveConsistent (p : ABlock) (O : List Name) : Prop := LiveB p O

def subB (A B : List Name) : Bool := A.all (fun x => B.contains x)

mutual
def liveS : AStmt → Bool
  | .assign i x e => subB (vars e) i.liveIn && subB (i.liveOut.filter (fun y => y != x)) i.liveIn
  | .expr i e => subB (vars e) i.liveIn && subB i.liveOut i.liveIn
  | .pass i => subB i.liveOut i.liveIn
  | .ret i e => subB (varsO e) i.liveIn
  | .raise _ _ => true
  | .ifS i c t e => subB (vars c) i.liveIn && subB (blockIn t i.liveOut) i.liveIn && subB (blockIn e i.liveOut) i.liveIn &&
      liveB t i.liveOut && liveB e i.liveOut
  | .whileS i c b => subB (vars c) i.liveIn && subB (blockIn b i.liveIn) i.liveIn && subB i.liveOut i.liveIn && liveB b i.liveIn
  | .forS i x it extra b => subB (vars it) i.liveIn && subB (varsO extra) i.liveIn && subB i.liveOut i.liveIn &&
      subB ((blockIn b i.liveIn).filter (fun y => y != x)) i.liveIn && liveB b i.liveIn
def liveB : List AStmt → List Name → Bool
  | [], _ => true
  | s :: r, O => liveS s && subB (blockIn r O) s.info.liveOut && liveB r O
end

/-- Executable checker for `LiveConsistent` (run by the harness on the REAL `LIVE_VARS_IN/OUT`). -/
def liveConsistent (p : ABlock) (O : List Name) : Bool := liveB p O

/-! ### Finding class `for_target_live_across_zero_trip`
The one inclusion of `LiveConsistent` that the pinned `liveness.py` violates: the loop header kills the `for`
target also on the exit edge, so a target that is live after the loop is not live into it. -/
mutual
def forTargetZeroTripS : AStmt → Bool
  | .forS i x _ _ b => (i.liveOut.contains x && !i.liveIn.contains x) || forTargetZeroTripB b
  | .ifS _ _ t e => forTargetZeroTripB t || forTargetZeroTripB e
  | .whileS _ _ b => forTargetZeroTripB b
  | _ => false
def forTargetZeroTripB : List AStmt → Bool
  | [] => false
  | s :: r => forTargetZeroTripS s || forTargetZeroTripB r
end

/-! ### What the real pass guarantees about `declared` / `undefined` (`_get_block_vars`)

`DeclS`: for every compound statement, with `modified` = the names its bodies may assign,
* `declared ⊇ {v ∈ modified | v ∈ liveIn ∨ v ∈ liveOut}`   (`_get_block_basic_vars`, simple names, no nonlocal/global),
* `undefined ⊆ modified`                                    (`possibly_undefined = modified - defined_in - …`).
-/
def liveEither (i : Info) (v : Name) : Bool := i.liveIn.contains v || i.liveOut.contains v

/-- `modified` of a compound statement as `_get_block_vars` receives it. -/
def AStmt.modified : AStmt → List Name
  | .ifS _ _ t e => asgB t ++ asgB e
  | .whileS _ _ b => asgB b
  | .forS _ x _ _ b => x :: asgB b
  | _ => []

mutual
def DeclS : AStmt → Prop
  | .ifS i _ t e => (asgB t ++ asgB e).filter (liveEither i) ⊆ i.declared ∧ i.undefined ⊆ asgB t ++ asgB e ∧ DeclB t ∧ DeclB e
  | .whileS i _ b => (asgB b).filter (liveEither i) ⊆ i.declared ∧ i.undefined ⊆ asgB b ∧ DeclB b
  | .forS i x _ _ b => (x :: asgB b).filter (liveEither i) ⊆ i.declared ∧ i.undefined ⊆ x :: asgB b ∧ DeclB b
  | _ => True
def DeclB : List AStmt → Prop
  | [] => True
  | s :: r => DeclS s ∧ DeclB r
end

mutual
def declS : AStmt → Bool
  | .ifS i _ t e => subB ((asgB t ++ asgB e).filter (liveEither i)) i.declared && subB i.undefined (asgB t ++ asgB e) && declB t && declB e
  | .whileS i _ b => subB ((asgB b).filter (liveEither i)) i.declared && subB i.undefined (asgB b) && declB b
  | .forS i x _ _ b => subB ((x :: asgB b).filter (liveEither i)) i.declared && subB i.undefined (x :: asgB b) && declB b
  | _ => true
def declB : List AStmt → Bool
  | [] => true
  | s :: r => declS s && declB r
end

/-! ### Definedness: `undefined` only names variables that are really unbound on entry

`DefB D b`: `D` over-approximates the variables that may be bound when `b` starts (nothing is ever unbound in
this fragment, so the set only grows: after `s` it is `D ∪ assigned(s)`; a loop body may also see what earlier
iterations assigned).  For every compound statement: `definedIn ⊇ D` (the real `DEFINED_VARS_IN` is a
may-analysis) and `undefined ∩ definedIn = ∅` (`modified - defined_in`).
-/
def disjB (A B : List Name) : Bool := A.all (fun x => !B.contains x)

mutual
def DefS : List Name → AStmt → Prop
  | D, .ifS i _ t e => D ⊆ i.definedIn ∧ (∀ u ∈ i.undefined, u ∉ i.definedIn) ∧ DefB D t ∧ DefB D e
  | D, .whileS i _ b => D ⊆ i.definedIn ∧ (∀ u ∈ i.undefined, u ∉ i.definedIn) ∧ DefB (D ++ asgB b) b
  | D, .forS i x _ _ b => D ⊆ i.definedIn ∧ (∀ u ∈ i.undefined, u ∉ i.definedIn) ∧ DefB (D ++ (x :: asgB b)) b
  | _, _ => True
def DefB : List Name → List AStmt → Prop
  | _, [] => True
  | D, s :: r => DefS D s ∧ DefB (D ++ asgS s) r
end

mutual
def defS : List Name → AStmt → Bool
  | D, .ifS i _ t e => subB D i.definedIn && disjB i.undefined i.definedIn && defB D t && defB D e
  | D, .whileS i _ b => subB D i.definedIn && disjB i.undefined i.definedIn && defB (D ++ asgB b) b
  | D, .forS i x _ _ b => subB D i.definedIn && disjB i.undefined i.definedIn && defB (D ++ (x :: asgB b)) b
  | _, _ => true
def defB : List Name → List AStmt → Bool
  | _, [] => true
  | D, s :: r => defS D s && defB (D ++ asgS s) r
end

/-! ### Jump-freeness: `return` only at the top level of the function body -/
mutual
def noRetS : AStmt → Bool
  | .ret .. => false
  | .ifS _ _ t e => noRetB t && noRetB e
  | .whileS _ _ b => noRetB b
  | .forS _ _ _ _ b => noRetB b
  | _ => true
def noRetB : List AStmt → Bool
  | [] => true
  | s :: r => noRetS s && noRetB r
end

/-- A top-level statement: it may be a `return`, but contains none. -/
def retTopS : AStmt → Bool
  | .ifS _ _ t e => noRetB t && noRetB e
  | .whileS _ _ b => noRetB b
  | .forS _ _ _ _ b => noRetB b
  | _ => true

def retTopB : List AStmt → Bool
  | [] => true
  | s :: r => retTopS s && retTopB r

/-! ### All hypotheses of `control_flow_correct` in one record, and one checker -/
structure FuncHyp (D : List Name) (p : ABlock) (O : List Name) : Prop where
  live : LiveConsistent p O
  decl : DeclB p
  defd : DefB D p
  jump : retTopB p = true

def funcHyp (D : List Name) (p : ABlock) (O : List Name) : Bool :=
  liveConsistent p O && declB p && defB D p && retTopB p

/-! ### Additional facts about `_get_block_vars` used by the functional semantics (C02)

For every compound statement: the state tuple has no duplicates (`scope_vars` is built from a set), contains
only modified names (`basic_scope_vars ⊆ modified`), and — for a conditional — the entries after the first
`nouts` are not live after the statement (`input_only = basic_scope_vars & live_in - live_out` is sorted last).
-/
def nodupB : List Name → Bool
  | [] => true
  | x :: xs => !xs.contains x && nodupB xs

mutual
def HypFS : AStmt → Prop
  | .ifS i _ t e => i.declared.Nodup ∧ i.declared ⊆ asgB t ++ asgB e ∧ (∀ y ∈ i.declared.drop i.nouts, y ∉ i.liveOut) ∧
      HypFB t ∧ HypFB e
  | .whileS i _ b => i.declared ⊆ asgB b ∧ HypFB b
  | .forS i x _ _ b => i.declared ⊆ x :: asgB b ∧ HypFB b
  | _ => True
def HypFB : List AStmt → Prop
  | [] => True
  | s :: r => HypFS s ∧ HypFB r
end

mutual
def hypFS : AStmt → Bool
  | .ifS i _ t e => nodupB i.declared && subB i.declared (asgB t ++ asgB e) && disjB (i.declared.drop i.nouts) i.liveOut &&
      hypFB t && hypFB e
  | .whileS i _ b => subB i.declared (asgB b) && hypFB b
  | .forS i x _ _ b => subB i.declared (x :: asgB b) && hypFB b
  | _ => true
def hypFB : List AStmt → Bool
  | [] => true
  | s :: r => hypFS s && hypFB r
end

/-! ### Position-indexed annotations of plain `Sem` programs
`Ann` maps a position to an `Info`.  For a *statement* annotation `a`: `a []` is the statement's own info and
`fun p => a (j :: p)` annotates its `j`-th sub-block; for a *block* annotation `A`, `fun p => A (k :: p)`
annotates its `k`-th statement. -/
abbrev Ann := List Nat → Info

mutual
def annotS (a : Ann) : Stmt → Option AStmt
  | .assign x e => some (.assign (a []) x e)
  | .expr e => some (.expr (a []) e)
  | .pass => some (.pass (a []))
  | .ret e => some (.ret (a []) e)
  | .raise t => some (.raise (a []) t)
  | .ifS c t e => (match annotB (fun p => a (0 :: p)) 0 t, annotB (fun p => a (1 :: p)) 0 e with
      | some t', some e' => some (.ifS (a []) c t' e')
      | _, _ => none)
  | .whileS c b => (match annotB (fun p => a (0 :: p)) 0 b with
      | some b' => some (.whileS (a []) c b')
      | none => none)
  | .forS x it extra b => (match annotB (fun p => a (0 :: p)) 0 b with
      | some b' => some (.forS (a []) x it extra b')
      | none => none)
  | .brk => none
  | .cont => none
  | .tryS .. => none
  | .withS .. => none
def annotB (A : Ann) (k : Nat) : Block → Option (List AStmt)
  | [] => some []
  | s :: r => (match annotS (fun p => A (k :: p)) s, annotB A (k+1) r with
      | some s', some r' => some (s' :: r')
      | _, _ => none)
end

/-- `func ann p`: the functionalised program, `none` iff `p` is outside the fragment. -/
def func (ann : Ann) (p : Block) : Option TBlock := (annotB ann 0 p).map funcB

end Malt.Func
