import MaltModel.Func.Target
/-!
`Malt.Func` — the functionalisation pass (`ControlFlowTransformer`) as a function on annotated programs, and the
statement of what the real pass guarantees about the annotations it consumes.

**Fragment** (`AStmt`): the jump-free language that reaches `ControlFlowTransformer` — assign, expression
statement, pass, raise, `if`/`while`/`for` (with the optional EXTRA_LOOP_TEST), `return`, and — as
**pass-through** statements, which the pass does not functionalise but whose blocks may contain `if`/`while`/`for` —
`with` and `try` (handlers `except E<tag>` + `finally`), with exactly the semantics of `Sem.withS`/`Sem.tryS`.
No `break`/`continue` (lowered by the jump passes).  `return` is only meaningful at the top level of the function
body (`retTopB`): the lowered return is the last top-level statement; the blocks of every compound statement,
including `with`/`try`, contain none.

Every statement carries an `Info`: the static-analysis facts the converter reads from the tree
(`LIVE_VARS_IN`, `LIVE_VARS_OUT`, `DEFINED_VARS_IN`) and the two results of `_get_block_vars` that determine the
generated code (`declared` = `scope_vars` = the `nonlocal` list = the state tuple, in order; `undefined`;
`nouts`).  The annotation is *abstract*: `funcS` uses only `declared`, `undefined`, `nouts`; the theorems
assume only inclusions between these and the liveness/definedness facts.  `annotB` turns a plain `Sem.Block`
plus a position-indexed annotation into an `AStmt` program (and rejects programs outside the fragment: only
`break`/`continue` are), so the main theorem can also be read as "for every jump-free `Sem` program and every
annotation".

Scoping of the pass-through statements: body, handlers and `finally` block of a `try`, and the block of a `with`,
are part of the code of the function they occur in (the top-level function or a generated body function): they run
in the same frame, their direct assignments count as direct assignments of that function (`Target.directS`).
-/
namespace Malt.Func
open Malt.Sem

structure Info where
  liveIn : List Name := []
  liveOut : List Name := []
  definedIn : List Name := []
  declared : List Name := []
  undefined : List Name := []
  nouts : Nat := 0
  deriving Repr, Inhabited

inductive AStmt where
  | assign (i : Info) (x : Name) (e : Expr)
  | expr (i : Info) (e : Expr)
  | pass (i : Info)
  | ret (i : Info) (e : Option Expr)
  | raise (i : Info) (tag : Nat)
  | ifS (i : Info) (c : Expr) (t e : List AStmt)
  | whileS (i : Info) (c : Expr) (b : List AStmt)
  | forS (i : Info) (x : Name) (it : Expr) (extra : Option Expr) (b : List AStmt)
  | withS (i : Info) (tag : Int) (b : List AStmt)
  | tryS (i : Info) (body : List AStmt) (handlers : List (Nat × List AStmt)) (fin : List AStmt)
  deriving Repr, Inhabited

abbrev ABlock := List AStmt

def AStmt.info : AStmt → Info
  | .assign i .. => i | .expr i .. => i | .pass i => i | .ret i .. => i | .raise i .. => i
  | .ifS i .. => i | .whileS i .. => i | .forS i .. => i | .withS i .. => i | .tryS i .. => i

mutual
/-- The underlying `Malt.Sem` program. -/
def eraseS : AStmt → Stmt
  | .assign _ x e => .assign x e
  | .expr _ e => .expr e
  | .pass _ => .pass
  | .ret _ e => .ret e
  | .raise _ t => .raise t
  | .ifS _ c t e => .ifS c (eraseB t) (eraseB e)
  | .whileS _ c b => .whileS c (eraseB b)
  | .forS _ x it extra b => .forS x it extra (eraseB b)
  | .withS _ tag b => .withS tag (eraseB b)
  | .tryS _ b hs f => .tryS (eraseB b) (eraseH hs) (eraseB f)
def eraseB : List AStmt → Block
  | [] => []
  | s :: r => eraseS s :: eraseB r
def eraseH : List (Nat × List AStmt) → List (Nat × Block)
  | [] => []
  | (t, b) :: r => (t, eraseB b) :: eraseH r
end

mutual
/-- Simple names a statement may assign, at any depth (`scope.bound`/`modified` of activity analysis, for
simple names; the `for` target belongs to the loop: `body_scope.bound | iter_scope.bound`). -/
def asgS : AStmt → List Name
  | .assign _ x _ => [x]
  | .ifS _ _ t e => asgB t ++ asgB e
  | .whileS _ _ b => asgB b
  | .forS _ x _ _ b => x :: asgB b
  | .withS _ _ b => asgB b
  | .tryS _ b hs f => asgB b ++ (asgH hs ++ asgB f)
  | _ => []
def asgB : List AStmt → List Name
  | [] => []
  | s :: r => asgS s ++ asgB r
def asgH : List (Nat × List AStmt) → List Name
  | [] => []
  | (_, b) :: r => asgB b ++ asgH r
end

mutual
/-- Tags of the explicit `raise` statements, at any depth (an over-approximation of the user exceptions a
statement may end with: what a `try` catches is not subtracted). -/
def raisesS : AStmt → List Nat
  | .raise _ t => [t]
  | .ifS _ _ t e => raisesB t ++ raisesB e
  | .whileS _ _ b => raisesB b
  | .forS _ _ _ _ b => raisesB b
  | .withS _ _ b => raisesB b
  | .tryS _ b hs f => raisesB b ++ (raisesH hs ++ raisesB f)
  | _ => []
def raisesB : List AStmt → List Nat
  | [] => []
  | s :: r => raisesS s ++ raisesB r
def raisesH : List (Nat × List AStmt) → List Nat
  | [] => []
  | (_, b) :: r => raisesB b ++ raisesH r
end

def undefs (us : List Name) : TBlock := us.map .undefAssign

mutual
/-- The three templates of `visit_If`/`visit_While`/`visit_For`: the `Undefined` pre-assignments followed by the
operator call; the bodies become generated functions declaring `declared` nonlocal.  `with` and `try` stay in
place (generic traversal: only their blocks are rewritten). -/
def funcS : AStmt → TBlock
  | .assign _ x e => [.assign x e]
  | .expr _ e => [.expr e]
  | .pass _ => [.pass]
  | .ret _ e => [.ret e]
  | .raise _ t => [.raise t]
  | .ifS i c t e => undefs i.undefined ++ [.ifF c (funcB t) (funcB e) i.declared i.nouts]
  | .whileS i c b => undefs i.undefined ++ [.whileF c (funcB b) i.declared]
  | .forS i x it extra b => undefs i.undefined ++ [.forF x it extra (funcB b) i.declared]
  | .withS _ tag b => [.withT tag (funcB b)]
  | .tryS _ b hs f => [.tryT (funcB b) (funcH hs) (funcB f)]
def funcB : List AStmt → TBlock
  | [] => []
  | s :: r => funcS s ++ funcB r
def funcH : List (Nat × List AStmt) → List (Nat × TBlock)
  | [] => []
  | (t, b) :: r => (t, funcB b) :: funcH r
end

/-! ### Variables read by an expression -/
mutual
def vars : Expr → List Name
  | .const _ => []
  | .var x => [x]
  | .not e => vars e
  | .and a b => vars a ++ vars b
  | .or a b => vars a ++ vars b
  | .ite c t e => vars c ++ (vars t ++ vars e)
  | .bin _ a b => vars a ++ vars b
  | .call _ args => varsL args
def varsL : List Expr → List Name
  | [] => []
  | e :: es => vars e ++ varsL es
end

def varsO : Option Expr → List Name
  | none => []
  | some e => vars e

/-- Live-in of a block whose continuation has live set `O`. -/
def blockIn : List AStmt → List Name → List Name
  | [], O => O
  | s :: _, _ => s.info.liveIn

/-! ### Exception contexts

What must be live when an exception is raised at a program point.  `hs` lists, innermost `try` first, the tags the
enclosing `try` bodies catch together with the live-in of the handler that catches them; `other` is what must be
live for anything else: an *implicit* exception (NameError / TypeError raised by an expression — never caught by
`except E<tag>`) or a user exception no enclosing handler catches.  Both pass every enclosing `finally` block, so
`other` is the live-in of the innermost enclosing `finally` (empty at the top level of the function: an escaping
exception is observed only by its type and the log).

This mirrors what the pinned CFG gives: only an explicit `raise` is wired to handlers (`K.get (.user t) ⊆ liveIn`
is required at `raise t` statements only), while a `finally` whose block reads variables requires those to be
live at every statement under it that evaluates an expression — which the pinned liveness does not guarantee
("the CFG does not wire raise to finally": such programs fall outside `LiveConsistent`, as the property text
exempts them). -/
structure ExcCtx where
  hs : List (Nat × List Name) := []
  other : List Name := []
  deriving Repr, Inhabited

def ExcCtx.top : ExcCtx := {}

def ExcCtx.get (K : ExcCtx) : Exc → List Name
  | .user t => match K.hs.find? (fun h => h.1 == t) with
      | some h => h.2
      | none => K.other
  | _ => K.other

def hsAll : List (Nat × List Name) → List Name
  | [] => []
  | (_, l) :: r => l ++ hsAll r

/-- Everything some exception may need. -/
def ExcCtx.all (K : ExcCtx) : List Name := K.other ++ hsAll K.hs

/-- Context of a handler body / of anything whose exceptions go to a `finally` with live-in `Fi` first. -/
def ExcCtx.toFin (Fi : List Name) : ExcCtx := { hs := [], other := Fi }

/-- The handler table of a `try`: tag ↦ live-in of the handler block (continuing with the `finally` live-in `Fi`). -/
def handlerIns (Fi : List Name) : List (Nat × List AStmt) → List (Nat × List Name)
  | [] => []
  | (t, b) :: r => (t, blockIn b Fi) :: handlerIns Fi r

/-! ### Variables read, and the restriction of an annotation to a set of variables

A `finally` block is annotated once, for its *normal* continuation.  When it runs with a pending exception, what the
simulation needs at the raise point is not its whole live-in (which also carries everything live after the `try`
through the block) but only the part of it inside `S = reads(finally) ∪ K.all`: restricting every live set of a
consistent annotation to a set `S ⊇ reads` gives a consistent annotation again (`Proofs/FuncRestrict.lean`), for the
continuation restricted to `S`. -/
def fl (S l : List Name) : List Name := l.filter (fun x => S.contains x)

def Info.restrict (S : List Name) (i : Info) : Info := { i with liveIn := fl S i.liveIn, liveOut := fl S i.liveOut }

mutual
def restrictS (S : List Name) : AStmt → AStmt
  | .assign i x e => .assign (i.restrict S) x e
  | .expr i e => .expr (i.restrict S) e
  | .pass i => .pass (i.restrict S)
  | .ret i e => .ret (i.restrict S) e
  | .raise i t => .raise (i.restrict S) t
  | .ifS i c t e => .ifS (i.restrict S) c (restrictB S t) (restrictB S e)
  | .whileS i c b => .whileS (i.restrict S) c (restrictB S b)
  | .forS i x it extra b => .forS (i.restrict S) x it extra (restrictB S b)
  | .withS i tag b => .withS (i.restrict S) tag (restrictB S b)
  | .tryS i b hs f => .tryS (i.restrict S) (restrictB S b) (restrictH S hs) (restrictB S f)
def restrictB (S : List Name) : List AStmt → List AStmt
  | [] => []
  | s :: r => restrictS S s :: restrictB S r
def restrictH (S : List Name) : List (Nat × List AStmt) → List (Nat × List AStmt)
  | [] => []
  | (t, b) :: r => (t, restrictB S b) :: restrictH S r
end

mutual
/-- Variables read by the expressions of a statement, at any depth. -/
def readsS : AStmt → List Name
  | .assign _ _ e => vars e
  | .expr _ e => vars e
  | .ret _ e => varsO e
  | .ifS _ c t e => vars c ++ (readsB t ++ readsB e)
  | .whileS _ c b => vars c ++ readsB b
  | .forS _ _ it extra b => vars it ++ (varsO extra ++ readsB b)
  | .withS _ _ b => readsB b
  | .tryS _ b hs f => readsB b ++ (readsH hs ++ readsB f)
  | _ => []
def readsB : List AStmt → List Name
  | [] => []
  | s :: r => readsS s ++ readsB r
def readsH : List (Nat × List AStmt) → List Name
  | [] => []
  | (_, b) :: r => readsB b ++ readsH r
end

def ExcCtx.filt (S : List Name) (K : ExcCtx) : ExcCtx :=
  { hs := K.hs.map (fun h => (h.1, fl S h.2)), other := fl S K.other }

/-- What must be live where an exception may be raised that goes to the `finally` block `f` of a `try` with
live-out `O` in context `K`: the part of the block's live-in that the block itself reads or an enclosing handler /
`finally` needs. -/
def finExcIn (K : ExcCtx) (f : List AStmt) (O : List Name) : List Name :=
  fl (readsB f ++ K.all) (blockIn f (O ++ K.all))

/-! ### `LiveConsistent`: a structured post-fixed point of the liveness equations

* simple statement: `liveIn ⊇ reads ∪ (liveOut \ writes)`;
* sequence `s₁; s₂`: `liveOut s₁ ⊇ liveIn s₂` (for the last statement of a block: ⊇ what is live after the block);
* `if`: `liveIn ⊇ reads(test) ∪ liveIn(body) ∪ liveIn(orelse)`, the branches continue with `liveOut(if)`;
* `while`: `liveIn ⊇ reads(test) ∪ liveIn(body) ∪ liveOut`, the body continues with `liveIn(while)` (back edge);
* `for x`: `liveIn ⊇ reads(iter) ∪ reads(extra test) ∪ liveOut ∪ (liveIn(body) \ {x})`, the body continues with
  `liveIn(for)` (back edge).  Note `liveIn ⊇ liveOut` **including the target `x`**: the loop may run zero
  times (this is the inclusion the pinned `liveness.py` violates: it kills the target on the exit edge).
* `with`: `liveIn ⊇ liveIn(body)`, the body continues with `liveOut(with)`;
* `try`: the `finally` block continues with `C = liveOut(try) ∪ K.all` (after it, execution goes on normally or the
  pending exception propagates); handlers and body continue with `Fi = liveIn(finally)`; exceptions raised in a
  handler go to the `finally` with a pending exception, which needs `Fx = finExcIn` (the part of `Fi` that the block
  reads or `K` needs — `ExcCtx.toFin Fx`); in the body, `raise t` goes to the first handler for `t` (`handlerIns`),
  anything else to the `finally` (`Fx`); `liveIn ⊇ liveIn(body)`.
* exceptions, in context `K`: a statement that evaluates an expression has `liveIn ⊇ K.other`; `raise t` has
  `liveIn ⊇ K.get (user t)`; a functionalised statement has `liveIn ∪ liveOut ⊇ K.get (user t)` for every `raise t`
  inside it (the raise leaves the generated function: what the handler needs must not be frame-local).
-/
def raiseOK (K : ExcCtx) (i : Info) (ts : List Nat) : Prop :=
  ∀ t ∈ ts, K.get (.user t) ⊆ i.liveIn ++ i.liveOut

mutual
def LiveS : ExcCtx → AStmt → Prop
  | K, .assign i x e => vars e ⊆ i.liveIn ∧ i.liveOut.filter (fun y => y != x) ⊆ i.liveIn ∧ K.other ⊆ i.liveIn
  | K, .expr i e => vars e ⊆ i.liveIn ∧ i.liveOut ⊆ i.liveIn ∧ K.other ⊆ i.liveIn
  | _, .pass i => i.liveOut ⊆ i.liveIn
  | K, .ret i e => varsO e ⊆ i.liveIn ∧ K.other ⊆ i.liveIn
  | K, .raise i t => K.get (.user t) ⊆ i.liveIn
  | K, .ifS i c t e => vars c ⊆ i.liveIn ∧ blockIn t i.liveOut ⊆ i.liveIn ∧ blockIn e i.liveOut ⊆ i.liveIn ∧
      LiveB K t i.liveOut ∧ LiveB K e i.liveOut ∧ K.other ⊆ i.liveIn ∧ raiseOK K i (raisesB t ++ raisesB e)
  | K, .whileS i c b => vars c ⊆ i.liveIn ∧ blockIn b i.liveIn ⊆ i.liveIn ∧ i.liveOut ⊆ i.liveIn ∧ LiveB K b i.liveIn ∧
      K.other ⊆ i.liveIn ∧ raiseOK K i (raisesB b)
  | K, .forS i x it extra b => vars it ⊆ i.liveIn ∧ varsO extra ⊆ i.liveIn ∧ i.liveOut ⊆ i.liveIn ∧
      (blockIn b i.liveIn).filter (fun y => y != x) ⊆ i.liveIn ∧ LiveB K b i.liveIn ∧
      K.other ⊆ i.liveIn ∧ raiseOK K i (raisesB b)
  | K, .withS i _ b => blockIn b i.liveOut ⊆ i.liveIn ∧ LiveB K b i.liveOut
  | K, .tryS i b hs f =>
      LiveB K f (i.liveOut ++ K.all) ∧
      LiveH (ExcCtx.toFin (finExcIn K f i.liveOut)) hs (blockIn f (i.liveOut ++ K.all)) ∧
      LiveB { hs := handlerIns (blockIn f (i.liveOut ++ K.all)) hs, other := finExcIn K f i.liveOut } b
        (blockIn f (i.liveOut ++ K.all)) ∧
      blockIn b (blockIn f (i.liveOut ++ K.all)) ⊆ i.liveIn
/-- `LiveB K b O`: block `b` is consistently annotated when `O` is live after it, in exception context `K`. -/
def LiveB : ExcCtx → List AStmt → List Name → Prop
  | _, [], _ => True
  | K, s :: r, O => LiveS K s ∧ blockIn r O ⊆ s.info.liveOut ∧ LiveB K r O
def LiveH : ExcCtx → List (Nat × List AStmt) → List Name → Prop
  | _, [], _ => True
  | K, (_, b) :: r, O => LiveB K b O ∧ LiveH K r O
end

/-- The liveness annotation of program `p` (with `O` live at its end) is consistent.  At the top level of the
function an escaping exception needs nothing live (`ExcCtx.top`). -/
def LiveConsistent (p : ABlock) (O : List Name) : Prop := LiveB ExcCtx.top p O

def subB (A B : List Name) : Bool := A.all (fun x => B.contains x)

def raiseOKb (K : ExcCtx) (i : Info) (ts : List Nat) : Bool :=
  ts.all (fun t => subB (K.get (.user t)) (i.liveIn ++ i.liveOut))

mutual
def liveS : ExcCtx → AStmt → Bool
  | K, .assign i x e => subB (vars e) i.liveIn && subB (i.liveOut.filter (fun y => y != x)) i.liveIn && subB K.other i.liveIn
  | K, .expr i e => subB (vars e) i.liveIn && subB i.liveOut i.liveIn && subB K.other i.liveIn
  | _, .pass i => subB i.liveOut i.liveIn
  | K, .ret i e => subB (varsO e) i.liveIn && subB K.other i.liveIn
  | K, .raise i t => subB (K.get (.user t)) i.liveIn
  | K, .ifS i c t e => subB (vars c) i.liveIn && subB (blockIn t i.liveOut) i.liveIn && subB (blockIn e i.liveOut) i.liveIn &&
      liveB K t i.liveOut && liveB K e i.liveOut && subB K.other i.liveIn && raiseOKb K i (raisesB t ++ raisesB e)
  | K, .whileS i c b => subB (vars c) i.liveIn && subB (blockIn b i.liveIn) i.liveIn && subB i.liveOut i.liveIn &&
      liveB K b i.liveIn && subB K.other i.liveIn && raiseOKb K i (raisesB b)
  | K, .forS i x it extra b => subB (vars it) i.liveIn && subB (varsO extra) i.liveIn && subB i.liveOut i.liveIn &&
      subB ((blockIn b i.liveIn).filter (fun y => y != x)) i.liveIn && liveB K b i.liveIn &&
      subB K.other i.liveIn && raiseOKb K i (raisesB b)
  | K, .withS i _ b => subB (blockIn b i.liveOut) i.liveIn && liveB K b i.liveOut
  | K, .tryS i b hs f =>
      liveB K f (i.liveOut ++ K.all) &&
      liveH (ExcCtx.toFin (finExcIn K f i.liveOut)) hs (blockIn f (i.liveOut ++ K.all)) &&
      liveB { hs := handlerIns (blockIn f (i.liveOut ++ K.all)) hs, other := finExcIn K f i.liveOut } b
        (blockIn f (i.liveOut ++ K.all)) &&
      subB (blockIn b (blockIn f (i.liveOut ++ K.all))) i.liveIn
def liveB : ExcCtx → List AStmt → List Name → Bool
  | _, [], _ => true
  | K, s :: r, O => liveS K s && subB (blockIn r O) s.info.liveOut && liveB K r O
def liveH : ExcCtx → List (Nat × List AStmt) → List Name → Bool
  | _, [], _ => true
  | K, (_, b) :: r, O => liveB K b O && liveH K r O
end

/-- Executable checker for `LiveConsistent` (run by the harness on the REAL `LIVE_VARS_IN/OUT`). -/
def liveConsistent (p : ABlock) (O : List Name) : Bool := liveB ExcCtx.top p O

/-! ### Finding class `for_target_live_across_zero_trip`
The one inclusion of `LiveConsistent` that the pinned `liveness.py` violates: the loop header kills the `for`
target also on the exit edge, so a target that is live after the loop is not live into it. -/
mutual
def forTargetZeroTripS : AStmt → Bool
  | .forS i x _ _ b => (i.liveOut.contains x && !i.liveIn.contains x) || forTargetZeroTripB b
  | .ifS _ _ t e => forTargetZeroTripB t || forTargetZeroTripB e
  | .whileS _ _ b => forTargetZeroTripB b
  | .withS _ _ b => forTargetZeroTripB b
  | .tryS _ b hs f => forTargetZeroTripB b || forTargetZeroTripH hs || forTargetZeroTripB f
  | _ => false
def forTargetZeroTripB : List AStmt → Bool
  | [] => false
  | s :: r => forTargetZeroTripS s || forTargetZeroTripB r
def forTargetZeroTripH : List (Nat × List AStmt) → Bool
  | [] => false
  | (_, b) :: r => forTargetZeroTripB b || forTargetZeroTripH r
end

/-! ### What the real pass guarantees about `declared` / `undefined` (`_get_block_vars`)

`DeclS`: for every functionalised statement, with `modified` = the names its bodies may assign,
* `declared ⊇ {v ∈ modified | v ∈ liveIn ∨ v ∈ liveOut}`   (`_get_block_basic_vars`, simple names, no nonlocal/global),
* `undefined ⊆ modified`                                    (`possibly_undefined = modified - defined_in - …`).
-/
def liveEither (i : Info) (v : Name) : Bool := i.liveIn.contains v || i.liveOut.contains v

/-- `modified` of a functionalised statement as `_get_block_vars` receives it. -/
def AStmt.modified : AStmt → List Name
  | .ifS _ _ t e => asgB t ++ asgB e
  | .whileS _ _ b => asgB b
  | .forS _ x _ _ b => x :: asgB b
  | _ => []

mutual
def DeclS : AStmt → Prop
  | .ifS i _ t e => (asgB t ++ asgB e).filter (liveEither i) ⊆ i.declared ∧ i.undefined ⊆ asgB t ++ asgB e ∧ DeclB t ∧ DeclB e
  | .whileS i _ b => (asgB b).filter (liveEither i) ⊆ i.declared ∧ i.undefined ⊆ asgB b ∧ DeclB b
  | .forS i x _ _ b => (x :: asgB b).filter (liveEither i) ⊆ i.declared ∧ i.undefined ⊆ x :: asgB b ∧ DeclB b
  | .withS _ _ b => DeclB b
  | .tryS _ b hs f => DeclB b ∧ DeclH hs ∧ DeclB f
  | _ => True
def DeclB : List AStmt → Prop
  | [] => True
  | s :: r => DeclS s ∧ DeclB r
def DeclH : List (Nat × List AStmt) → Prop
  | [] => True
  | (_, b) :: r => DeclB b ∧ DeclH r
end

mutual
def declS : AStmt → Bool
  | .ifS i _ t e => subB ((asgB t ++ asgB e).filter (liveEither i)) i.declared && subB i.undefined (asgB t ++ asgB e) && declB t && declB e
  | .whileS i _ b => subB ((asgB b).filter (liveEither i)) i.declared && subB i.undefined (asgB b) && declB b
  | .forS i x _ _ b => subB ((x :: asgB b).filter (liveEither i)) i.declared && subB i.undefined (x :: asgB b) && declB b
  | .withS _ _ b => declB b
  | .tryS _ b hs f => declB b && declH hs && declB f
  | _ => true
def declB : List AStmt → Bool
  | [] => true
  | s :: r => declS s && declB r
def declH : List (Nat × List AStmt) → Bool
  | [] => true
  | (_, b) :: r => declB b && declH r
end

/-! ### Definedness: `undefined` only names variables that are really unbound on entry

`DefB D b`: `D` over-approximates the variables that may be bound when `b` starts (nothing is ever unbound in
this fragment, so the set only grows: after `s` it is `D ∪ assigned(s)`; a loop body may also see what earlier
iterations assigned; a handler starts after any part of the `try` body, the `finally` block after body and
handlers).  For every functionalised statement: `definedIn ⊇ D` (the real `DEFINED_VARS_IN` is a may-analysis) and
`undefined ∩ definedIn = ∅` (`modified - defined_in`).
-/
def disjB (A B : List Name) : Bool := A.all (fun x => !B.contains x)

mutual
def DefS : List Name → AStmt → Prop
  | D, .ifS i _ t e => D ⊆ i.definedIn ∧ (∀ u ∈ i.undefined, u ∉ i.definedIn) ∧ DefB D t ∧ DefB D e
  | D, .whileS i _ b => D ⊆ i.definedIn ∧ (∀ u ∈ i.undefined, u ∉ i.definedIn) ∧ DefB (D ++ asgB b) b
  | D, .forS i x _ _ b => D ⊆ i.definedIn ∧ (∀ u ∈ i.undefined, u ∉ i.definedIn) ∧ DefB (D ++ (x :: asgB b)) b
  | D, .withS _ _ b => DefB D b
  | D, .tryS _ b hs f => DefB D b ∧ DefH (D ++ asgB b) hs ∧ DefB (D ++ asgB b ++ asgH hs) f
  | _, _ => True
def DefB : List Name → List AStmt → Prop
  | _, [] => True
  | D, s :: r => DefS D s ∧ DefB (D ++ asgS s) r
def DefH : List Name → List (Nat × List AStmt) → Prop
  | _, [] => True
  | D, (_, b) :: r => DefB D b ∧ DefH D r
end

mutual
def defS : List Name → AStmt → Bool
  | D, .ifS i _ t e => subB D i.definedIn && disjB i.undefined i.definedIn && defB D t && defB D e
  | D, .whileS i _ b => subB D i.definedIn && disjB i.undefined i.definedIn && defB (D ++ asgB b) b
  | D, .forS i x _ _ b => subB D i.definedIn && disjB i.undefined i.definedIn && defB (D ++ (x :: asgB b)) b
  | D, .withS _ _ b => defB D b
  | D, .tryS _ b hs f => defB D b && defH (D ++ asgB b) hs && defB (D ++ asgB b ++ asgH hs) f
  | _, _ => true
def defB : List Name → List AStmt → Bool
  | _, [] => true
  | D, s :: r => defS D s && defB (D ++ asgS s) r
def defH : List Name → List (Nat × List AStmt) → Bool
  | _, [] => true
  | D, (_, b) :: r => defB D b && defH D r
end

/-! ### Jump-freeness: `return` only at the top level of the function body -/
mutual
def noRetS : AStmt → Bool
  | .ret .. => false
  | .ifS _ _ t e => noRetB t && noRetB e
  | .whileS _ _ b => noRetB b
  | .forS _ _ _ _ b => noRetB b
  | .withS _ _ b => noRetB b
  | .tryS _ b hs f => noRetB b && noRetH hs && noRetB f
  | _ => true
def noRetB : List AStmt → Bool
  | [] => true
  | s :: r => noRetS s && noRetB r
def noRetH : List (Nat × List AStmt) → Bool
  | [] => true
  | (_, b) :: r => noRetB b && noRetH r
end

/-- A top-level statement: it may be a `return`, but contains none (also not inside `with`/`try` blocks: the
lowered return is the last top-level statement). -/
def retTopS : AStmt → Bool
  | .ifS _ _ t e => noRetB t && noRetB e
  | .whileS _ _ b => noRetB b
  | .forS _ _ _ _ b => noRetB b
  | .withS _ _ b => noRetB b
  | .tryS _ b hs f => noRetB b && noRetH hs && noRetB f
  | _ => true

def retTopB : List AStmt → Bool
  | [] => true
  | s :: r => retTopS s && retTopB r

/-! ### All hypotheses of `control_flow_correct` in one record, and one checker -/
structure FuncHyp (D : List Name) (p : ABlock) (O : List Name) : Prop where
  live : LiveConsistent p O
  decl : DeclB p
  defd : DefB D p
  jump : retTopB p = true

def funcHyp (D : List Name) (p : ABlock) (O : List Name) : Bool :=
  liveConsistent p O && declB p && defB D p && retTopB p

/-! ### Additional facts about `_get_block_vars` used by the functional semantics (C02)

For every functionalised statement: the state tuple has no duplicates (`scope_vars` is built from a set), contains
only modified names (`basic_scope_vars ⊆ modified`), and — for a conditional — the entries after the first
`nouts` are not live after the statement (`input_only = basic_scope_vars & live_in - live_out` is sorted last).
-/
def nodupB : List Name → Bool
  | [] => true
  | x :: xs => !xs.contains x && nodupB xs

mutual
def HypFS : AStmt → Prop
  | .ifS i _ t e => i.declared.Nodup ∧ i.declared ⊆ asgB t ++ asgB e ∧ (∀ y ∈ i.declared.drop i.nouts, y ∉ i.liveOut) ∧
      HypFB t ∧ HypFB e
  | .whileS i _ b => i.declared ⊆ asgB b ∧ HypFB b
  | .forS i x _ _ b => i.declared ⊆ x :: asgB b ∧ HypFB b
  | .withS _ _ b => HypFB b
  | .tryS _ b hs f => HypFB b ∧ HypFH hs ∧ HypFB f
  | _ => True
def HypFB : List AStmt → Prop
  | [] => True
  | s :: r => HypFS s ∧ HypFB r
def HypFH : List (Nat × List AStmt) → Prop
  | [] => True
  | (_, b) :: r => HypFB b ∧ HypFH r
end

mutual
def hypFS : AStmt → Bool
  | .ifS i _ t e => nodupB i.declared && subB i.declared (asgB t ++ asgB e) && disjB (i.declared.drop i.nouts) i.liveOut &&
      hypFB t && hypFB e
  | .whileS i _ b => subB i.declared (asgB b) && hypFB b
  | .forS i x _ _ b => subB i.declared (x :: asgB b) && hypFB b
  | .withS _ _ b => hypFB b
  | .tryS _ b hs f => hypFB b && hypFH hs && hypFB f
  | _ => true
def hypFB : List AStmt → Bool
  | [] => true
  | s :: r => hypFS s && hypFB r
def hypFH : List (Nat × List AStmt) → Bool
  | [] => true
  | (_, b) :: r => hypFB b && hypFH r
end

/-! ### Position-indexed annotations of plain `Sem` programs
`Ann` maps a position to an `Info`.  For a *statement* annotation `a`: `a []` is the statement's own info and
`fun p => a (j :: p)` annotates its `j`-th sub-block; for a *block* annotation `A`, `fun p => A (k :: p)`
annotates its `k`-th statement.  Sub-blocks of a `try`: 0 = body, 1 = finally, 2 + j = the j-th handler. -/
abbrev Ann := List Nat → Info

mutual
def annotS (a : Ann) : Stmt → Option AStmt
  | .assign x e => some (.assign (a []) x e)
  | .expr e => some (.expr (a []) e)
  | .pass => some (.pass (a []))
  | .ret e => some (.ret (a []) e)
  | .raise t => some (.raise (a []) t)
  | .ifS c t e => (match annotB (fun p => a (0 :: p)) 0 t, annotB (fun p => a (1 :: p)) 0 e with
      | some t', some e' => some (.ifS (a []) c t' e')
      | _, _ => none)
  | .whileS c b => (match annotB (fun p => a (0 :: p)) 0 b with
      | some b' => some (.whileS (a []) c b')
      | none => none)
  | .forS x it extra b => (match annotB (fun p => a (0 :: p)) 0 b with
      | some b' => some (.forS (a []) x it extra b')
      | none => none)
  | .brk => none
  | .cont => none
  | .tryS b hs f => (match annotB (fun p => a (0 :: p)) 0 b, annotH a 2 hs, annotB (fun p => a (1 :: p)) 0 f with
      | some b', some hs', some f' => some (.tryS (a []) b' hs' f')
      | _, _, _ => none)
  | .withS tag b => (match annotB (fun p => a (0 :: p)) 0 b with
      | some b' => some (.withS (a []) tag b')
      | none => none)
def annotB (A : Ann) (k : Nat) : Block → Option (List AStmt)
  | [] => some []
  | s :: r => (match annotS (fun p => A (k :: p)) s, annotB A (k+1) r with
      | some s', some r' => some (s' :: r')
      | _, _ => none)
def annotH (a : Ann) (j : Nat) : List (Nat × Block) → Option (List (Nat × List AStmt))
  | [] => some []
  | (t, b) :: r => (match annotB (fun p => a (j :: p)) 0 b, annotH a (j+1) r with
      | some b', some r' => some ((t, b') :: r')
      | _, _ => none)
end

/-- `func ann p`: the functionalised program, `none` iff `p` is outside the fragment. -/
def func (ann : Ann) (p : Block) : Option TBlock := (annotB ann 0 p).map funcB

end Malt.Func
