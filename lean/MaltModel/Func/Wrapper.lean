import MaltModel.Func.Functionalise
/-!
`Malt.Func` — the **function wrapper**: what `converters/functions.py` (`FunctionTransformer.visit_FunctionDef`) and
the return pass (`return_statements.py`) generate around a converted body, and the run-time protocol of
`operators/function_wrappers.py` (`FunctionScope`) and `operators/variables.py` (`UndefinedReturnValue`).

Generated shape (both observed on the real code, `./check C02`, obligation `correspondence:wrapper-shape`):

```
def f(params):
    with ag__.FunctionScope('f', 'fscope', <options>) as fscope:      # functions.py
        <body>                                                        # (a) the source has no `return`
```
```
def f(params):
    with ag__.FunctionScope('f', 'fscope', <options>) as fscope:
        do_return = False                                             # return pass
        retval_ = ag__.UndefinedReturnValue()
        <body: every `return e` lowered to  do_return = True; retval_ = e  + guards>
        return fscope.ret(retval_, do_return)                         # (b) the source has a `return`
```
`<options>` are the user's options for the converted entity itself (`_Function.level == 2`) and
`options.call_options()` — `user_requested = False` — for every nested `def` (which additionally keeps its
decorators and gets `@ag__.autograph_artifact`).

Run-time protocol modelled here:
* `FunctionScope.__enter__`: pushes a `ControlStatusCtx(ENABLED)` iff `options.user_requested`; returns `self`
  (bound to the generated name `fscope`, which no user expression reads — not represented in the state);
* `FunctionScope.__exit__(exc_type, exc_val, tb)`: pops that context iff it was pushed, on EVERY exit of the
  `with` block (normal, `return`, exception), and **returns None**: the `with` statement therefore never swallows
  an exception (`exitSwallows = false`).  This is an assumption of the model about the real class; it is tied to
  the class on every run by the harness (`correspondence:function-scope-protocol`: `__exit__` of a real instance
  returns a falsy value for both option kinds and with/without exception; the status stack is restored);
* `FunctionScope.ret(value, did_return)`: `None` if `value` is the `UndefinedReturnValue` placeholder, else `value`
  (`did_return` is deleted unread);
* falling off the end of the `with` block: the `def` returns `None`.

The `UndefinedReturnValue()` placeholder is the slot `Slot.undef` of the target state (a placeholder object that
is *not* `None`); `retval_` is read raw by `fscope.ret(retval_, …)` (no `ag__.ld`), so an unbound `retval_` would
be a `NameError` there.
-/
namespace Malt.Func
open Malt.Sem

/-- `ag_ctx.Status` of one entry of the conversion-status stack. -/
inductive CtxStatus where
  | enabled | disabled | unspecified
  deriving Repr, DecidableEq

abbrev CtxStack := List CtxStatus

/-- One generated wrapper. -/
structure Wrapper where
  fnName : String := "f"
  scopeName : Name := "fscope"
  /-- `options.user_requested` of the options embedded in the generated code: `true` for the converted entity,
  `false` (`call_options()`) for nested defs. -/
  userRequested : Bool := true
  /-- `(do_return, retval_)` when the return pass lowered a `return`; `none` for a body without `return`. -/
  retVars : Option (Name × Name) := none
  deriving Repr

/-- `FunctionScope.__enter__` on the status stack. -/
def Wrapper.enter (w : Wrapper) (stk : CtxStack) : CtxStack := if w.userRequested then .enabled :: stk else stk

/-- `FunctionScope.__exit__` on the status stack. -/
def Wrapper.exit (w : Wrapper) (stk : CtxStack) : CtxStack := if w.userRequested then stk.tail else stk

/-- The truth value of what `FunctionScope.__exit__` returns (it has no `return` statement: `None`). -/
def exitSwallows : Bool := false

/-- `fscope.ret(value, did_return)` on the raw slot of `retval_`. -/
def fscopeRet (rv : Name) : Slot → Out
  | .undef => .ret .none                 -- isinstance(value, UndefinedReturnValue) → None
  | .val v => .ret v
  | .unbound => .exc (.nameError rv)     -- evaluating the argument `retval_` fails

/-- The block inside the `with`: the return pass's initialisation followed by the (functionalised) body. -/
def Wrapper.inner (w : Wrapper) (b : TBlock) : TBlock :=
  match w.retVars with
  | none => b
  | some (dr, rv) => .assign dr (.const (.int 0)) :: .undefAssign rv :: b

/-- What the `def` returns once the block inside the `with` has ended with outcome `o` in state `τ`. -/
def Wrapper.result (w : Wrapper) (o : Out) (τ : TSt) : Out :=
  match o with
  | .normal => (match w.retVars with
      | none => .ret .none                                  -- fell off the end: None
      | some (_, rv) => fscopeRet rv (τ.env rv))            -- `return fscope.ret(retval_, do_return)`
  | .exc e => if exitSwallows then .ret .none else .exc e   -- `__exit__` does not swallow
  | o => o                                                  -- a `return` inside the block (not generated)

/-- **Calling the converted function** (native operators): enter the scope, run the block, leave the scope on every
outcome, produce the result.  `none` = out of fuel. -/
def callW (X : Ext) (n : Nat) (w : Wrapper) (b : TBlock) (σ : TSt) (stk : CtxStack) : Option (Out × TSt × CtxStack) :=
  match execNB X n (w.inner b) σ with
  | none => none
  | some (o, τ) => some (w.result o τ, τ, w.exit (w.enter stk))

/-- The same with the tracing backend inside. -/
def callWF (X : Ext) (n : Nat) (w : Wrapper) (b : TBlock) (σ : TSt) (stk : CtxStack) : Option (Out × TSt × CtxStack) :=
  match execFB X n (w.inner b) σ with
  | none => none
  | some (o, τ) => some (w.result o τ, τ, w.exit (w.enter stk))

/-- What the caller of a *source* function sees: falling off the end is `return None`. -/
def fnOutcome : Out → Out
  | .normal => .ret .none
  | o => o

/-- Calling the source function. -/
def callS (X : Ext) (n : Nat) (body : Block) (σ : St) : Option (Out × St) :=
  (execB X n body σ).map fun r => (fnOutcome r.1, r.2)

/-! ### The shape of a lowered function body (output of the return pass), annotated -/

/-- `do_return = False; retval_ = <None>; mid…; return retval_` — the `Malt.Sem` rendering of shape (b) that the
jump-lowering model produces (`lowerReturn`: the placeholder is `None` there), with annotations. -/
def retShape (dr rv : Name) (i₁ i₂ i₃ : Info) (mid : ABlock) : ABlock :=
  .assign i₁ dr (.const (.int 0)) :: .assign i₂ rv (.const .none) :: (mid ++ [.ret i₃ (some (.var rv))])

/-! ### A lowered function body in one of its two shapes, and the converted function made from it -/

/-- The output of the return pass for one function body, annotated. -/
inductive Lowered where
  /-- shape (a): the source has no `return`; the body is unchanged -/
  | plain (q : ABlock)
  /-- shape (b): `do_return = False; retval_ = …; mid; return retval_` -/
  | rets (dr rv : Name) (i₁ i₂ i₃ : Info) (mid : ABlock)

/-- The lowered body as an annotated `Malt.Sem` program (what the source-side theorems talk about). -/
def Lowered.prog : Lowered → ABlock
  | .plain q => q
  | .rets dr rv i₁ i₂ i₃ mid => retShape dr rv i₁ i₂ i₃ mid

/-- The statements that go inside the `with` after the initialisation. -/
def Lowered.inner : Lowered → ABlock
  | .plain q => q
  | .rets _ _ _ _ _ mid => mid

def Lowered.retVars : Lowered → Option (Name × Name)
  | .plain _ => none
  | .rets dr rv _ _ _ _ => some (dr, rv)

/-- Well-formedness of the return pass's output (executable; checked on the real output by the harness): no
`return` is left inside and nothing inside reads `retval_`. -/
def Lowered.wf : Lowered → Bool
  | .plain q => noRetB q
  | .rets _ rv _ _ _ mid => noRetB mid && !(readsB mid).contains rv

/-- What `converters/functions.py` makes of it: the wrapper description and the block inside the `with`
(`userRequested = true` for the converted entity, `false` for nested defs). -/
def Lowered.wrapper (l : Lowered) (name : String) (userRequested : Bool) : Wrapper :=
  { fnName := name, userRequested := userRequested, retVars := l.retVars }

/-- **Calling the converted function** made from `l`. -/
def callConverted (X : Ext) (n : Nat) (l : Lowered) (name : String) (userRequested : Bool) (σ : TSt) (stk : CtxStack) :
    Option (Out × TSt × CtxStack) :=
  callW X n (l.wrapper name userRequested) (funcB l.inner) σ stk

/-- The same with the tracing backend. -/
def callConvertedF (X : Ext) (n : Nat) (l : Lowered) (name : String) (userRequested : Bool) (σ : TSt) (stk : CtxStack) :
    Option (Out × TSt × CtxStack) :=
  callWF X n (l.wrapper name userRequested) (funcB l.inner) σ stk

/-- The un-annotated (`Malt.Sem`) version of the two shapes: exactly what the jump-lowering model's `lowerReturn`
produces. -/
inductive SrcLowered where
  | plain (p : Block)
  | rets (dr rv : Name) (r : Block)

def SrcLowered.prog : SrcLowered → Block
  | .plain p => p
  | .rets dr rv r => .assign dr (.const (.int 0)) :: .assign rv (.const .none) :: (r ++ [.ret (some (.var rv))])

/-- Annotating a lowered body position by position (the same positions as `annotB ann 0` on `prog`). -/
def annotL (ann : Ann) : SrcLowered → Option Lowered
  | .plain p => (annotB ann 0 p).map .plain
  | .rets dr rv r => (annotB ann 2 r).map fun mid => .rets dr rv (ann [0]) (ann [1]) (ann [2 + r.length]) mid

/-- The frame of a call: the parameters bound to the argument values, the caller's effect log. -/
def argState (ps : List Name) (vs : List Val) (log : List Event) : St :=
  ⟨fun x => ((ps.zip vs).find? (fun b => b.1 == x)).map (·.2), log⟩

end Malt.Func
