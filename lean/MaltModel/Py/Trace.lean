import MaltModel.Py.Ast
/-!
# `Py.Trace` — control-skeleton semantics (DESIGN.md §3.4; used by C05, later C06/C07)

`walkFn fuel f ω` executes only the *control* of a function body: the oracle `ω` (a list of choices,
`0` when exhausted) decides every `if`/`while` test, every `for` continuation, and which handler (if any)
of an enclosing `try` catches an explicit `raise`.  It returns the ids of the CFG-relevant nodes in the
order they are executed, the way the walk ended, and the unused part of the oracle.

CFG-relevant nodes (exactly the nodes `malt/pyct/cfg.py` creates for a function graph):
 * the `arguments` node of the function (entry, preceded by lambdas in its defaults/annotations);
 * every simple statement (its own id), preceded by the outermost lambdas nested in its expressions in
   field/DFS order (a lambda *definition* is a pseudo-statement executed just before its statement);
 * `if`: the test expression; `while`: the test expression (once per iteration; lambdas of the test once,
   before the loop); `for`: the `iter` expression (once per iteration, it is the loop header);
 * `with`: each `withitem`; nested `def`/`class`: the statement id (bodies have their own graphs).

Conventions that implement the documented exemptions of C05:
 * an explicit `raise` that is not caught inside the function, or that would have to propagate through a
   `finally` block, ends the trace **at the raise node** (`Outcome.raise` at top level / `Outcome.exempt`);
 * implicit exceptions do not exist in this semantics (data never matters).

Total: structurally recursive on `fuel` (every recursive call uses `fuel - 1`); `Outcome.fuel` = out of fuel.
-/
namespace Malt.Py

/-! ## CFG-relevant nodes inside expressions: outermost lambdas, in `generic_visit` order -/
mutual
/-- Ids of the outermost lambdas of `e` (including `e` itself), in the order `AstToCfg.visit(e)` meets them. -/
def Expr.lams : Expr → List Nat
  | .lambda i _ _ => [i]
  | .name .. => []
  | .const .. => []
  | .noneMarker => []
  | .attr _ v _ _ => v.lams
  | .subscript _ v s _ => v.lams ++ s.lams
  | .call _ f as ks => f.lams ++ (lamsL as ++ lamsL ks)
  | .keyword _ _ _ v => v.lams
  | .boolop _ _ vs => lamsL vs
  | .unary _ _ e => e.lams
  | .binop _ _ l r => l.lams ++ r.lams
  | .compare _ l _ rs => l.lams ++ lamsL rs
  | .ifexp _ t b e => t.lams ++ (b.lams ++ e.lams)
  | .seq _ _ es _ => lamsL es
  | .starred _ v _ => v.lams
  | .namedexpr _ t v => t.lams ++ v.lams
  | .comp _ _ es gs => lamsL es ++ lamsL gs
  | .comprehension _ t it ifs _ => t.lams ++ (it.lams ++ lamsL ifs)
  | .arguments _ po ar va ko kd kw df =>
      lamsL po ++ (lamsL ar ++ (lamsL va ++ (lamsL ko ++ (lamsL kd ++ (lamsL kw ++ lamsL df)))))
  | .arg _ _ an => lamsL an
  | .withitem _ c v => c.lams ++ lamsL v
  | .other _ _ _ kids => lamsL kids
def lamsL : List Expr → List Nat
  | [] => []
  | e :: es => e.lams ++ lamsL es
end

/-- `generic_visit(e)`: the children of `e` only (a lambda that *is* `e` is not met). -/
def Expr.kidLams : Expr → List Nat
  | .lambda _ a b => a.lams ++ b.lams
  | e => e.lams

/-- Lambdas met by `generic_visit(s)` for a simple statement `s` (added to the graph before `s` itself). -/
def Stmt.headLams : Stmt → List Nat
  | .ret _ v => lamsL v
  | .delete _ ts => lamsL ts
  | .assign _ ts v => lamsL ts ++ v.lams
  | .augAssign _ t _ v => t.lams ++ v.lams
  | .annAssign _ t an v _ => t.lams ++ (an.lams ++ lamsL v)
  | .raise _ e c => lamsL e ++ lamsL c
  | .assert_ _ t m => t.lams ++ lamsL m
  | .expr _ v => v.lams
  | _ => []

/-! ## The walk -/

inductive Outcome where
  | normal | brk | cont | ret
  | raise     -- explicit raise propagating (not yet caught)
  | exempt    -- an exception would propagate through a `finally` block: trace ended at the raise node
  | fuel      -- out of fuel (the trace is a prefix of the real one)
  deriving DecidableEq, Repr, Inhabited

abbrev Oracle := List Nat

def Oracle.pop : Oracle → Nat × Oracle
  | [] => (0, [])
  | d :: r => (d, r)

/-- Result of walking a piece of code: emitted node ids, how it ended, remaining oracle. -/
abbrev WalkRes := List Nat × Outcome × Oracle

/-- Nodes of the `with` items, each preceded by its lambdas. -/
def withItemNodes : List Expr → List Nat
  | [] => []
  | it :: its => it.kidLams ++ (it.id :: withItemNodes its)

/-- After a `finally` body ran with outcome `o4`, resume the pending outcome `o` unless overridden. -/
def resume (o o4 : Outcome) : Outcome := if o4 = .normal then o else o4

mutual
def walkStmt : Nat → Stmt → Oracle → WalkRes
  | 0, _, ω => ([], .fuel, ω)
  | f+1, s, ω =>
    match s with
    | .if_ _ test body orelse =>
        let (d, ω) := ω.pop
        let (tr, o, ω) := if d ≠ 0 then walkBlock f body ω else walkBlock f orelse ω
        (test.kidLams ++ (test.id :: tr), o, ω)
    | .while_ _ test body orelse =>
        let (tr, o, ω) := walkLoop f test.id [] body orelse ω
        (test.kidLams ++ tr, o, ω)
    | .for_ _ _ iter body orelse extra false =>
        let pre := match extra with
          | [] => []
          | x :: _ => x.kidLams ++ [x.id]
        let (tr, o, ω) := walkLoop f iter.id pre body orelse ω
        (iter.kidLams ++ tr, o, ω)
    | .with_ _ items body false =>
        let (tr, o, ω) := walkBlock f body ω
        (withItemNodes items ++ tr, o, ω)
    | .try_ _ body handlers orelse final =>
        let (t1, o1, ω) := walkBlock f body ω
        -- the `else` block continues a body that completed normally
        let (t2, o2, ω) := if o1 = .normal then walkBlock f orelse ω else ([], o1, ω)
        -- handler selection applies to an explicit raise coming out of the *body* only
        let (t3, o3, ω) :=
          if o1 = .raise && !handlers.isEmpty then
            let (k, ω) := ω.pop
            match handlers[k]? with
            | some (.handler _ ty _ hbody) =>
                let (t, o, ω) := walkBlock f hbody ω
                (lamsL ty ++ t, o, ω)
            | _ => ([], Outcome.raise, ω)
          else ([], o2, ω)
        let pre := t1 ++ (t2 ++ t3)
        if final.isEmpty then (pre, o3, ω)
        else match o3 with
          | .raise => (pre, .exempt, ω)
          | .exempt => (pre, .exempt, ω)
          | .fuel => (pre, .fuel, ω)
          | o =>
              let (t4, o4, ω) := walkBlock f final ω
              (pre ++ t4, resume o o4, ω)
    | .ret i v => (lamsL v ++ [i], .ret, ω)
    | .raise i e c => (lamsL e ++ (lamsL c ++ [i]), .raise, ω)
    | .break_ i => ([i], .brk, ω)
    | .continue_ i => ([i], .cont, ω)
    | .functionDef i _ _ _ _ _ false => ([i], .normal, ω)
    | .classDef i .. => ([i], .normal, ω)
    -- constructs outside the modelled language (async, match, …): no nodes; excluded by `supported`
    | .functionDef .. => ([], .normal, ω)
    | .for_ .. => ([], .normal, ω)
    | .with_ .. => ([], .normal, ω)
    | .handler .. => ([], .normal, ω)
    | .other .. => ([], .normal, ω)
    -- simple statements
    | s => (s.headLams ++ [s.id], .normal, ω)

def walkBlock : Nat → List Stmt → Oracle → WalkRes
  | 0, _, ω => ([], .fuel, ω)
  | _+1, [], ω => ([], .normal, ω)
  | f+1, s :: ss, ω =>
    let (t1, o1, ω) := walkStmt f s ω
    match o1 with
    | .normal =>
        let (t2, o2, ω) := walkBlock f ss ω
        (t1 ++ t2, o2, ω)
    | o => (t1, o, ω)

/-- A loop whose header node `hdr` is executed before every continuation decision; `pre` are the nodes
executed at the start of every iteration that enters the body (the `EXTRA_LOOP_TEST` annotation). -/
def walkLoop : Nat → Nat → List Nat → List Stmt → List Stmt → Oracle → WalkRes
  | 0, _, _, _, _, ω => ([], .fuel, ω)
  | f+1, hdr, pre, body, orelse, ω =>
    let (d, ω) := ω.pop
    if d = 0 then
      let (t, o, ω) := walkBlock f orelse ω
      (hdr :: t, o, ω)
    else
      let (t, o, ω) := walkBlock f body ω
      match o with
      | .normal | .cont =>
          let (t2, o2, ω) := walkLoop f hdr pre body orelse ω
          (hdr :: (pre ++ (t ++ t2)), o2, ω)
      | .brk => (hdr :: (pre ++ t), .normal, ω)
      | o => (hdr :: (pre ++ t), o, ω)
end

/-- Walk a whole function: the `arguments` node (entry) preceded by the lambdas of its defaults, then the body.
For a lambda: the `arguments` node, then the body expression (the implicit return). -/
def walkFn (fuel : Nat) (fn : Stmt) (ω : Oracle) : WalkRes :=
  match fn with
  | .functionDef _ _ args body _ _ _ =>
      let (t, o, ω) := walkBlock fuel body ω
      (args.kidLams ++ (args.id :: t), o, ω)
  | _ => ([], .normal, ω)

/-- A walk is *completed* when it ended by running off the end, `return`, or an (exempt or uncaught) raise. -/
def Outcome.completed : Outcome → Bool
  | .normal | .ret | .raise | .exempt => true
  | _ => false

/-! ## The modelled language (decidable): what `walk` gives a meaning to -/
mutual
/-- `inLoop`: a `break`/`continue` here has a target loop in the same function. -/
def Stmt.supported (inLoop : Bool) : Stmt → Bool
  | .functionDef _ _ _ _ _ _ isAsync => !isAsync   -- atomic node of the enclosing graph
  | .classDef .. => true          -- atomic node of the enclosing graph (its body has no graph)
  | .for_ _ _ _ body orelse _ isAsync => !isAsync && supportedL true body && supportedL inLoop orelse
  | .while_ _ _ body orelse => supportedL true body && supportedL inLoop orelse
  | .if_ _ _ body orelse => supportedL inLoop body && supportedL inLoop orelse
  | .with_ _ _ body isAsync => !isAsync && supportedL inLoop body
  | .try_ _ body handlers orelse final =>
      supportedL inLoop body && handlersOk inLoop handlers && supportedL inLoop orelse && supportedL inLoop final
  | .handler .. => false           -- only as a direct child of `try`
  | .other .. => false
  | .break_ _ => inLoop
  | .continue_ _ => inLoop
  | _ => true
def supportedL (inLoop : Bool) : List Stmt → Bool
  | [] => true
  | s :: ss => s.supported inLoop && supportedL inLoop ss
def handlersOk (inLoop : Bool) : List Stmt → Bool
  | [] => true
  | .handler _ _ name body :: hs => name.isEmpty && supportedL inLoop body && handlersOk inLoop hs
  | _ :: _ => false
end

/-- A root function of the modelled language. -/
def fnSupported : Stmt → Bool
  | .functionDef _ _ _ body _ _ isAsync => !isAsync && supportedL false body
  | _ => false

end Malt.Py
