import MaltModel.Py.Ast
/-
Parser / printer between S-expressions (harness/pyast.py format) and `Py.Ast`.
Glue: `partial` is fine here, no theorem mentions these functions.
-/
namespace Malt.Py
open Malt

def ctx? : Sexp → Option Ctx
  | .atom "Load" => some .load
  | .atom "Store" => some .store
  | .atom "Del" => some .del
  | _ => none

def Ctx.toSexp : Ctx → Sexp
  | .load => .atom "Load" | .store => .atom "Store" | .del => .atom "Del"

def strs? (x : Sexp) : Option (List String) := do
  let l ← x.list?
  l.mapM Sexp.str?

def pairs? (x : Sexp) : Option (List (String × String)) := do
  let l ← x.list?
  l.mapM fun p => match p with
    | .list [.atom a, .atom b] => some (a, b)
    | _ => none

mutual
partial def parseExpr : Sexp → Option Expr
  | .atom "NoneMarker" => some .noneMarker
  | .list [.atom "Name", i, .atom s, c] => do pure (.name (← i.nat?) s (← ctx? c))
  | .list [.atom "Constant", i, .atom k, .atom r] => do pure (.const (← i.nat?) k r)
  | .list [.atom "Attribute", i, v, .atom a, c] => do pure (.attr (← i.nat?) (← parseExpr v) a (← ctx? c))
  | .list [.atom "Subscript", i, v, s, c] => do pure (.subscript (← i.nat?) (← parseExpr v) (← parseExpr s) (← ctx? c))
  | .list [.atom "Call", i, f, a, k] => do pure (.call (← i.nat?) (← parseExpr f) (← parseExprs a) (← parseExprs k))
  | .list [.atom "keyword", i, .list [], v] => do pure (.keyword (← i.nat?) "" false (← parseExpr v))
  | .list [.atom "keyword", i, .list [.atom a], v] => do pure (.keyword (← i.nat?) a true (← parseExpr v))
  | .list [.atom "BoolOp", i, .atom op, vs] => do
      pure (.boolop (← i.nat?) (← (if op == "And" then some true else if op == "Or" then some false else none)) (← parseExprs vs))
  | .list [.atom "UnaryOp", i, .atom op, e] => do pure (.unary (← i.nat?) op (← parseExpr e))
  | .list [.atom "BinOp", i, .atom op, l, r] => do pure (.binop (← i.nat?) op (← parseExpr l) (← parseExpr r))
  | .list [.atom "Compare", i, l, ops, rs] => do pure (.compare (← i.nat?) (← parseExpr l) (← strs? ops) (← parseExprs rs))
  | .list [.atom "IfExp", i, t, b, e] => do pure (.ifexp (← i.nat?) (← parseExpr t) (← parseExpr b) (← parseExpr e))
  | .list [.atom "Lambda", i, a, b] => do pure (.lambda (← i.nat?) (← parseExpr a) (← parseExpr b))
  | .list [.atom "Tuple", i, es, c] => do pure (.seq (← i.nat?) .tuple (← parseExprs es) (← ctx? c))
  | .list [.atom "List", i, es, c] => do pure (.seq (← i.nat?) .list (← parseExprs es) (← ctx? c))
  | .list [.atom "Set", i, es] => do pure (.seq (← i.nat?) .set (← parseExprs es) .load)
  | .list [.atom "Starred", i, v, c] => do pure (.starred (← i.nat?) (← parseExpr v) (← ctx? c))
  | .list [.atom "NamedExpr", i, t, v] => do pure (.namedexpr (← i.nat?) (← parseExpr t) (← parseExpr v))
  | .list [.atom "ListComp", i, es, gs] => do pure (.comp (← i.nat?) .listComp (← parseExprs es) (← parseExprs gs))
  | .list [.atom "SetComp", i, es, gs] => do pure (.comp (← i.nat?) .setComp (← parseExprs es) (← parseExprs gs))
  | .list [.atom "GeneratorExp", i, es, gs] => do pure (.comp (← i.nat?) .genExp (← parseExprs es) (← parseExprs gs))
  | .list [.atom "DictComp", i, es, gs] => do pure (.comp (← i.nat?) .dictComp (← parseExprs es) (← parseExprs gs))
  | .list [.atom "comprehension", i, t, it, ifs, a] => do
      pure (.comprehension (← i.nat?) (← parseExpr t) (← parseExpr it) (← parseExprs ifs) (← a.bool?))
  | .list [.atom "arguments", i, po, ar, va, ko, kd, kw, df] => do
      pure (.arguments (← i.nat?) (← parseExprs po) (← parseExprs ar) (← parseExprs va) (← parseExprs ko)
              (← parseExprs kd) (← parseExprs kw) (← parseExprs df))
  | .list [.atom "arg", i, .atom n, an] => do pure (.arg (← i.nat?) n (← parseExprs an))
  | .list [.atom "withitem", i, c, v] => do pure (.withitem (← i.nat?) (← parseExpr c) (← parseExprs v))
  | .list [.atom "Other", i, .atom k, attrs, kids] => do pure (.other (← i.nat?) k (← strs? attrs) (← parseExprs kids))
  | _ => none
partial def parseExprs : Sexp → Option (List Expr)
  | .list xs => xs.mapM parseExpr
  | _ => none
end

mutual
partial def parseStmt : Sexp → Option Stmt
  | .list [.atom "FunctionDef", i, .atom n, a, b, d, r, as] => do
      pure (.functionDef (← i.nat?) n (← parseExpr a) (← parseStmts b) (← parseExprs d) (← parseExprs r) (← as.bool?))
  | .list [.atom "ClassDef", i, .atom n, bs, ks, b, d] => do
      pure (.classDef (← i.nat?) n (← parseExprs bs) (← parseExprs ks) (← parseStmts b) (← parseExprs d))
  | .list [.atom "Return", i, v] => do pure (.ret (← i.nat?) (← parseExprs v))
  | .list [.atom "Delete", i, ts] => do pure (.delete (← i.nat?) (← parseExprs ts))
  | .list [.atom "Assign", i, ts, v] => do pure (.assign (← i.nat?) (← parseExprs ts) (← parseExpr v))
  | .list [.atom "AugAssign", i, t, .atom op, v] => do pure (.augAssign (← i.nat?) (← parseExpr t) op (← parseExpr v))
  | .list [.atom "AnnAssign", i, t, an, v, s] => do
      pure (.annAssign (← i.nat?) (← parseExpr t) (← parseExpr an) (← parseExprs v) (← s.bool?))
  | .list [.atom "For", i, t, it, b, e, x, as] => do
      pure (.for_ (← i.nat?) (← parseExpr t) (← parseExpr it) (← parseStmts b) (← parseStmts e) (← parseExprs x) (← as.bool?))
  | .list [.atom "While", i, t, b, e] => do pure (.while_ (← i.nat?) (← parseExpr t) (← parseStmts b) (← parseStmts e))
  | .list [.atom "If", i, t, b, e] => do pure (.if_ (← i.nat?) (← parseExpr t) (← parseStmts b) (← parseStmts e))
  | .list [.atom "With", i, its, b, as] => do pure (.with_ (← i.nat?) (← parseExprs its) (← parseStmts b) (← as.bool?))
  | .list [.atom "Raise", i, e, c] => do pure (.raise (← i.nat?) (← parseExprs e) (← parseExprs c))
  | .list [.atom "Try", i, b, h, e, f] => do
      pure (.try_ (← i.nat?) (← parseStmts b) (← parseStmts h) (← parseStmts e) (← parseStmts f))
  | .list [.atom "ExceptHandler", i, t, n, b] => do pure (.handler (← i.nat?) (← parseExprs t) (← strs? n) (← parseStmts b))
  | .list [.atom "Assert", i, t, m] => do pure (.assert_ (← i.nat?) (← parseExpr t) (← parseExprs m))
  | .list [.atom "Import", i, ns] => do pure (.import_ (← i.nat?) (← pairs? ns))
  | .list [.atom "ImportFrom", i, .atom m, ns, l] => do pure (.importFrom (← i.nat?) m (← pairs? ns) (← l.nat?))
  | .list [.atom "Global", i, ns] => do pure (.global (← i.nat?) (← strs? ns))
  | .list [.atom "Nonlocal", i, ns] => do pure (.nonlocal (← i.nat?) (← strs? ns))
  | .list [.atom "Expr", i, v] => do pure (.expr (← i.nat?) (← parseExpr v))
  | .list [.atom "Pass", i] => do pure (.pass (← i.nat?))
  | .list [.atom "Break", i] => do pure (.break_ (← i.nat?))
  | .list [.atom "Continue", i] => do pure (.continue_ (← i.nat?))
  | .list [.atom "OtherStmt", i, .atom k, es, bs] => do pure (.other (← i.nat?) k (← parseExprs es) (← parseStmts bs))
  | _ => none
partial def parseStmts : Sexp → Option (List Stmt)
  | .list xs => xs.mapM parseStmt
  | _ => none
end

/-! Printer (inverse of the parser). -/
private def n (i : Nat) : Sexp := .atom (toString i)
private def l (xs : List Sexp) : Sexp := .list xs
private def a (s : String) : Sexp := .atom s

mutual
partial def Expr.toSexp : Expr → Sexp
  | .noneMarker => a "NoneMarker"
  | .name i s c => l [a "Name", n i, a s, c.toSexp]
  | .const i k r => l [a "Constant", n i, a k, a r]
  | .attr i v atr c => l [a "Attribute", n i, v.toSexp, a atr, c.toSexp]
  | .subscript i v s c => l [a "Subscript", n i, v.toSexp, s.toSexp, c.toSexp]
  | .call i f as ks => l [a "Call", n i, f.toSexp, exprsToSexp as, exprsToSexp ks]
  | .keyword i arg has v => l [a "keyword", n i, l (if has then [a arg] else []), v.toSexp]
  | .boolop i isAnd vs => l [a "BoolOp", n i, a (if isAnd then "And" else "Or"), exprsToSexp vs]
  | .unary i op e => l [a "UnaryOp", n i, a op, e.toSexp]
  | .binop i op x y => l [a "BinOp", n i, a op, x.toSexp, y.toSexp]
  | .compare i x ops rs => l [a "Compare", n i, x.toSexp, l (ops.map a), exprsToSexp rs]
  | .ifexp i t b e => l [a "IfExp", n i, t.toSexp, b.toSexp, e.toSexp]
  | .lambda i as b => l [a "Lambda", n i, as.toSexp, b.toSexp]
  | .seq i .tuple es c => l [a "Tuple", n i, exprsToSexp es, c.toSexp]
  | .seq i .list es c => l [a "List", n i, exprsToSexp es, c.toSexp]
  | .seq i .set es _ => l [a "Set", n i, exprsToSexp es]
  | .starred i v c => l [a "Starred", n i, v.toSexp, c.toSexp]
  | .namedexpr i t v => l [a "NamedExpr", n i, t.toSexp, v.toSexp]
  | .comp i k es gs =>
      l [a (match k with | .listComp => "ListComp" | .setComp => "SetComp" | .genExp => "GeneratorExp" | .dictComp => "DictComp"),
         n i, exprsToSexp es, exprsToSexp gs]
  | .comprehension i t it ifs as => l [a "comprehension", n i, t.toSexp, it.toSexp, exprsToSexp ifs, Sexp.ofBool as]
  | .arguments i po ar va ko kd kw df =>
      l [a "arguments", n i, exprsToSexp po, exprsToSexp ar, exprsToSexp va, exprsToSexp ko, exprsToSexp kd,
         exprsToSexp kw, exprsToSexp df]
  | .arg i nm an => l [a "arg", n i, a nm, exprsToSexp an]
  | .withitem i c v => l [a "withitem", n i, c.toSexp, exprsToSexp v]
  | .other i k attrs kids => l [a "Other", n i, a k, l (attrs.map a), exprsToSexp kids]
partial def exprsToSexp (es : List Expr) : Sexp := .list (es.map Expr.toSexp)
end

private def pairsToSexp (ps : List (String × String)) : Sexp := l (ps.map fun (x, y) => l [a x, a y])

mutual
partial def Stmt.toSexp : Stmt → Sexp
  | .functionDef i nm as b d r isA => l [a "FunctionDef", n i, a nm, as.toSexp, stmtsToSexp b, exprsToSexp d, exprsToSexp r, Sexp.ofBool isA]
  | .classDef i nm bs ks b d => l [a "ClassDef", n i, a nm, exprsToSexp bs, exprsToSexp ks, stmtsToSexp b, exprsToSexp d]
  | .ret i v => l [a "Return", n i, exprsToSexp v]
  | .delete i ts => l [a "Delete", n i, exprsToSexp ts]
  | .assign i ts v => l [a "Assign", n i, exprsToSexp ts, v.toSexp]
  | .augAssign i t op v => l [a "AugAssign", n i, t.toSexp, a op, v.toSexp]
  | .annAssign i t an v s => l [a "AnnAssign", n i, t.toSexp, an.toSexp, exprsToSexp v, Sexp.ofBool s]
  | .for_ i t it b e x isA => l [a "For", n i, t.toSexp, it.toSexp, stmtsToSexp b, stmtsToSexp e, exprsToSexp x, Sexp.ofBool isA]
  | .while_ i t b e => l [a "While", n i, t.toSexp, stmtsToSexp b, stmtsToSexp e]
  | .if_ i t b e => l [a "If", n i, t.toSexp, stmtsToSexp b, stmtsToSexp e]
  | .with_ i its b isA => l [a "With", n i, exprsToSexp its, stmtsToSexp b, Sexp.ofBool isA]
  | .raise i e c => l [a "Raise", n i, exprsToSexp e, exprsToSexp c]
  | .try_ i b h e f => l [a "Try", n i, stmtsToSexp b, stmtsToSexp h, stmtsToSexp e, stmtsToSexp f]
  | .handler i t nm b => l [a "ExceptHandler", n i, exprsToSexp t, l (nm.map a), stmtsToSexp b]
  | .assert_ i t m => l [a "Assert", n i, t.toSexp, exprsToSexp m]
  | .import_ i ns => l [a "Import", n i, pairsToSexp ns]
  | .importFrom i m ns lv => l [a "ImportFrom", n i, a m, pairsToSexp ns, n lv]
  | .global i ns => l [a "Global", n i, l (ns.map a)]
  | .nonlocal i ns => l [a "Nonlocal", n i, l (ns.map a)]
  | .expr i v => l [a "Expr", n i, v.toSexp]
  | .pass i => l [a "Pass", n i]
  | .break_ i => l [a "Break", n i]
  | .continue_ i => l [a "Continue", n i]
  | .other i k es bs => l [a "OtherStmt", n i, a k, exprsToSexp es, stmtsToSexp bs]
partial def stmtsToSexp (ss : List Stmt) : Sexp := .list (ss.map Stmt.toSexp)
end

end Malt.Py
