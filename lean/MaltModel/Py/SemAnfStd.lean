import MaltModel.Py.SemAnf
/-
A concrete oracle for `Py.SemAnf`, mirrored line by line by the Python tracer prelude of
harness/c18_gen.py (`tr`, `mk`, `cm`, `E`, `O`): used (a) by the driver to run the small semantics next
to CPython, (b) by the Lean-checked counterexamples of C18.
-/
namespace Malt.SemAnf

mutual
/-- A number computed from a value (what the tracer folds into its results). -/
def weight : Val → Int
  | .int i => i
  | .bool b => if b then 1 else 0
  | .tuple vs => weights vs
  | .list vs => weights vs
  | .slice a b c => weight a + weight b + weight c
  | _ => 0
def weights : List Val → Int
  | [] => 0
  | v :: vs => weight v + weights vs
end

def kwWeights : List (String × Val) → Int
  | [] => 0
  | (_, v) :: r => weight v + kwWeights r

def stdCall (name : String) (p : List Val) (k : List (String × Val)) (log : List Event) : Except Val Val :=
  let n : Int := log.length
  if name == "tr" then
    match p with
    | .int t :: rest =>
        if t % 100 == 99 then .error (.exc "Err" (.int t))
        else .ok (.int ((t * 7 + 3 * n + weights rest + kwWeights k) % 13))
    | _ => .error typeError
  else if name == "mk" then .ok (.list p)
  else if name == "cm" then .ok (.tuple (.str "'cm'" :: p))
  else if name == "E" then .ok (.exc "Err" (p.headD .none))
  else if name.startsWith "O." then .ok (.int ((5 + 3 * n + weights p + kwWeights k) % 11))
  else .error typeError

def asInt? : Val → Option Int
  | .int i => some i
  | .bool b => some (if b then 1 else 0)
  | _ => none

def stdBinop (op : String) (a b : Val) : Val :=
  match asInt? a, asInt? b with
  | some x, some y =>
      if op == "Add" then .int (x + y) else if op == "Sub" then .int (x - y)
      else if op == "Mult" then .int (x * y) else .none
  | _, _ => .none

def stdTruthy : Val → Bool
  | .int i => i != 0
  | .bool b => b
  | .none => false
  | .undef => false
  | .tuple vs => !vs.isEmpty
  | .list vs => !vs.isEmpty
  | .set vs => !vs.isEmpty
  | .dict ks _ => !ks.isEmpty
  | .str r => r.length > 2
  | _ => true

def stdUnop (op : String) (a : Val) : Val :=
  if op == "Not" then .bool (!stdTruthy a) else
  match asInt? a with
  | some x => if op == "USub" then .int (-x) else if op == "UAdd" then .int x
              else if op == "Invert" then .int (-x - 1) else .none
  | none => .none

def stdCmp (op : String) (a b : Val) : Val :=
  match asInt? a, asInt? b with
  | some x, some y =>
      if op == "Lt" then .bool (x < y) else if op == "LtE" then .bool (x ≤ y)
      else if op == "Gt" then .bool (x > y) else if op == "GtE" then .bool (x ≥ y)
      else if op == "Eq" then .bool (x == y) else if op == "NotEq" then .bool (x != y) else .none
  | _, _ =>     -- `==` / `!=` between arbitrary objects never fail in Python (structural here)
      if op == "Eq" then .bool (a == b) else if op == "NotEq" then .bool (a != b) else .none

def stdGetattr (x : Val) (a : String) : Val :=
  match x with
  | .obj "O" =>
      if a.startsWith "m" then .fn ("O." ++ a) else if a.startsWith "o" then .obj "O" else .int a.length
  | _ => .none

def stdGetitem (x y : Val) : Val :=
  match x with
  | .obj "O" => .int ((2 * weight y + 1) % 17)
  | _ => .none

def stdIter : Val → Option (List Val)
  | .tuple vs => some vs
  | .list vs => some vs
  | .dict ks _ => some ks       -- iterating a dict yields its keys
  | _ => none

def stdEnter : Val → Val
  | .tuple [_, k] => (match asInt? k with | some i => .int (i + 1) | none => .none)
  | _ => .none

def stdIsinst (x t : Val) : Bool :=
  match x, t with
  | .exc tag _, .fn c => c == tag || c == "Exception" || c == "BaseException"
  | _, _ => false

def stdOracle : Oracle :=
  { call := stdCall, binop := stdBinop, unop := stdUnop, cmp := stdCmp, getattr := stdGetattr,
    getitem := stdGetitem, truthy := stdTruthy, iter := stdIter, enter := stdEnter, isinst := stdIsinst }

/-- The globals every generated program runs in. -/
def stdGlobals : Env :=
  [("tr", .fn "tr"), ("mk", .fn "mk"), ("cm", .fn "cm"), ("E", .fn "E"), ("O", .obj "O"),
   ("Err", .fn "Err"), ("Exception", .fn "Exception")]

end Malt.SemAnf
