import MaltModel.Util.Sexp
/-
Side table of annotations accompanying a serialised tree (harness/passes.py `snapshot`):
a list of `(node id, key, value)`.  Glue + plain lookups; import-free.
-/
namespace Malt.Py
open Malt

structure ScopeInfo where
  read : List String := []
  modified : List String := []
  bound : List String := []
  deleted : List String := []
  globals : List String := []
  nonlocals : List String := []
  params : List String := []
  referenced : List String := []
  isolated : Bool := false
  functionName : String := ""
  deriving Repr, Inhabited

abbrev AnnoTable := List (Nat × String × Sexp)

def parseAnnoTable : Sexp → Option AnnoTable
  | .list xs => xs.mapM fun e => match e with
      | .list [i, .atom k, v] => do pure ((← i.nat?), k, v)
      | _ => none
  | _ => none

def AnnoTable.get (t : AnnoTable) (id : Nat) (key : String) : Option Sexp :=
  (t.find? fun (i, k, _) => i == id && k == key).map fun (_, _, v) => v

def AnnoTable.has (t : AnnoTable) (id : Nat) (key : String) : Bool := (t.get id key).isSome

private def field (xs : List Sexp) (name : String) : List String :=
  match xs.find? (fun x => match x with | .list (.atom n :: _) => n == name | _ => false) with
  | some (.list (_ :: vs)) => vs.filterMap Sexp.str?
  | _ => []

def parseScope : Sexp → Option ScopeInfo
  | .list (.atom "scope" :: fs) =>
    some { read := field fs "read", modified := field fs "modified", bound := field fs "bound",
           deleted := field fs "deleted", globals := field fs "globals", nonlocals := field fs "nonlocals",
           params := field fs "params", referenced := field fs "referenced",
           isolated := (field fs "isolated") == ["True"],
           functionName := (field fs "function_name").headD "" }
  | _ => none

def AnnoTable.scope (t : AnnoTable) (id : Nat) (key : String) : Option ScopeInfo :=
  t.get id key >>= parseScope

def AnnoTable.names (t : AnnoTable) (id : Nat) (key : String) : Option (List String) :=
  match t.get id key with
  | some (.list xs) => some (xs.filterMap Sexp.str?)
  | _ => none

def AnnoTable.str (t : AnnoTable) (id : Nat) (key : String) : Option String :=
  t.get id key >>= Sexp.str?

end Malt.Py
