import MaltModel.Py.Ast
/-
`Py.SemAnf` — a small fuel-free big-step semantics of straight-line / if / for / with / try programs,
used by C18 (does the A-normal-form transformation preserve evaluation order?).

* Values are a small concrete domain; every *operation on values* (binary/unary operators, comparison,
  attribute and item loads, truthiness, iteration) is a **pure total function supplied by the oracle**
  (`Oracle`), so theorems hold for every interpretation of the operators.
* Every call `f(args, kw=…)` goes to the external-function oracle `Oracle.call`, which sees the callee
  name, the argument values and the effect log so far, and may return or raise; the call is appended
  to the effect log (the observable "calls made and their arguments, in order").
* Attribute / item stores and deletes, and `with` enter/exit, are logged effects.
* `Name` reads look up the current environment (`undef` when unbound: NameError timing is *not* modelled);
  `NamedExpr` rebinds a variable in the middle of an expression.
* No `while` (no fuel): `for` iterates over the finite list the oracle's `iter` returns.

Validated differentially against CPython 3.12 on every run of the C18 check (harness/run_c18.py, part 3).
-/
namespace Malt.SemAnf
open Malt.Py

inductive Val where
  | none
  | undef
  | bool (b : Bool)
  | int (i : Int)
  | str (repr : String)
  | tuple (vs : List Val)
  | list (vs : List Val)
  | set (vs : List Val)
  | dict (ks vs : List Val)
  | slice (lo hi step : Val)
  | fn (name : String)                -- a callable / class known to the oracle by name
  | obj (name : String)               -- an opaque object
  | exc (tag : String) (arg : Val)    -- an exception instance of class `tag`
  deriving Repr, Inhabited, BEq

/-- One observable effect. `what` ∈ call / setattr / setitem / delitem / enter / exit. -/
structure Event where
  what : String
  callee : String
  args : List Val
  kws : List (String × Val)
  deriving Repr, Inhabited, BEq

abbrev Env := List (String × Val)

structure St where
  env : Env
  log : List Event          -- most recent first
  deriving Repr, Inhabited

structure Oracle where
  call : String → List Val → List (String × Val) → List Event → Except Val Val
  binop : String → Val → Val → Val
  unop : String → Val → Val
  cmp : String → Val → Val → Val
  getattr : Val → String → Val
  getitem : Val → Val → Val
  truthy : Val → Bool
  iter : Val → Option (List Val)
  enter : Val → Val
  isinst : Val → Val → Bool       -- exception value, handler type value

def lookup (env : Env) (x : String) : Val :=
  match env with
  | [] => .undef
  | (y, v) :: r => if x = y then v else lookup r x

def St.get (σ : St) (x : String) : Val := lookup σ.env x
def St.set (σ : St) (x : String) (v : Val) : St := { σ with env := (x, v) :: σ.env }
def St.emit (σ : St) (e : Event) : St := { σ with log := e :: σ.log }

/-- Result of evaluating an expression: value or raised exception, and the state reached. -/
abbrev ER (α : Type) := Except Val α × St

def typeError : Val := .exc "TypeError" .none
def valueErr : Val := .exc "ValueError" .none
def unsupported : Val := .exc "Unsupported" .none

/-- Decimal integer literal (`repr(int)`), by plain list recursion so that it reduces in the kernel. -/
def natOfDigits (cs : List Char) : Nat := cs.foldl (fun acc c => acc * 10 + (c.toNat - 48)) 0

def intOfRepr (r : String) : Int :=
  match r.toList with
  | '-' :: ds => - (natOfDigits ds : Int)
  | ds => (natOfDigits ds : Int)

def constVal (kind repr : String) : Val :=
  if kind == "int" then .int (intOfRepr repr)
  else if kind == "bool" then .bool (repr == "True")
  else if kind == "NoneType" then .none
  else .str repr

/-- The text of a simple string literal's repr (`'k'` → `k`). -/
def strContent (r : String) : String := String.ofList ((r.toList.drop 1).dropLast)

/-- An argument as delivered to a call / display: plain, `*v`, `k=v`, `**v`. -/
inductive Arg where
  | pos (v : Val) | star (v : Val) | kw (k : String) (v : Val) | dstar (v : Val)
  deriving Repr, Inhabited

def dictPairs : List Val → List Val → List (String × Val)
  | .str r :: ks, v :: vs => (strContent r, v) :: dictPairs ks vs
  | _, _ => []

/-- Positional values (with `*` spliced through the oracle's `iter`) and keyword pairs; `none` = TypeError. -/
def spreadArgs (O : Oracle) : List Arg → Option (List Val × List (String × Val))
  | [] => some ([], [])
  | .pos v :: r => (spreadArgs O r).map fun (p, k) => (v :: p, k)
  | .star v :: r => match O.iter v, spreadArgs O r with
      | some vs, some (p, k) => some (vs ++ p, k)
      | _, _ => Option.none
  | .kw s v :: r => (spreadArgs O r).map fun (p, k) => (p, (s, v) :: k)
  | .dstar v :: r => match v, spreadArgs O r with
      | .dict ks vs, some (p, k) => some (p, dictPairs ks vs ++ k)
      | _, _ => Option.none

def doCall (O : Oracle) (f : Val) (as : List Arg) (σ : St) : ER Val :=
  match f, spreadArgs O as with
  | .fn name, some (p, k) =>
      let σ1 := σ.emit ⟨"call", name, p, k⟩
      (O.call name p k σ.log, σ1)
  | _, _ => (.error typeError, σ)

def isNoneMarker : Expr → Bool
  | .noneMarker => true
  | _ => false

/-- Dict display with `nk` entries, `r` of them still to do: key, value, key, value, …
(`**d` entries have a `NoneMarker` key: only the value is evaluated, and merged). -/
def dictLoop (evalAt : Nat → St → ER Val) (isStar : Nat → Bool) (nk : Nat) : Nat → St → ER Val
  | 0, σ => (.ok (.dict [] []), σ)
  | r + 1, σ =>
      let j := nk - (r + 1)
      if isStar j then
        match evalAt (nk + j) σ with
        | (.ok d, σ1) =>
          match dictLoop evalAt isStar nk r σ1 with
          | (.ok (.dict ks2 vs2), σ2) =>
            (match d with
             | .dict ks1 vs1 => (.ok (.dict (ks1 ++ ks2) (vs1 ++ vs2)), σ2)
             | _ => (.error typeError, σ2))
          | (.ok _, σ2) => (.error unsupported, σ2)
          | (.error e, σ2) => (.error e, σ2)
        | (.error e, σ1) => (.error e, σ1)
      else
        match evalAt j σ with
        | (.ok kv, σ1) =>
          match evalAt (nk + j) σ1 with
          | (.ok vv, σ2) =>
            match dictLoop evalAt isStar nk r σ2 with
            | (.ok (.dict ks2 vs2), σ3) => (.ok (.dict (kv :: ks2) (vv :: vs2)), σ3)
            | (.ok _, σ3) => (.error unsupported, σ3)
            | (.error e, σ3) => (.error e, σ3)
          | (.error e, σ2) => (.error e, σ2)
        | (.error e, σ1) => (.error e, σ1)

def consArg (a : Arg) (r : ER (List Arg)) : ER (List Arg) :=
  match r with
  | (.ok as, σ2) => (.ok (a :: as), σ2)
  | (.error x, σ2) => (.error x, σ2)

def cmpOpsVal (O : Oracle) (op : String) (a b : Val) : Val := O.cmp op a b

mutual
/-- Expression evaluation, left to right, lazy `and`/`or`/`if-else`/chained comparison. -/
def evalE (O : Oracle) : Expr → St → ER Val
  | .name _ s _, σ => (.ok (σ.get s), σ)
  | .const _ k r, σ => (.ok (constVal k r), σ)
  | .attr _ v a _, σ =>
      match evalE O v σ with
      | (.ok x, σ1) => (.ok (O.getattr x a), σ1)
      | (.error e, σ1) => (.error e, σ1)
  | .subscript _ v s _, σ =>
      match evalE O v σ with
      | (.ok x, σ1) =>
        match evalE O s σ1 with
        | (.ok y, σ2) => (.ok (O.getitem x y), σ2)
        | (.error e, σ2) => (.error e, σ2)
      | (.error e, σ1) => (.error e, σ1)
  | .call _ f as ks, σ =>
      match evalE O f σ with
      | (.ok fv, σ1) =>
        match evalArgs O as σ1 with
        | (.ok avs, σ2) =>
          match evalArgs O ks σ2 with
          | (.ok kvs, σ3) => doCall O fv (avs ++ kvs) σ3
          | (.error e, σ3) => (.error e, σ3)
        | (.error e, σ2) => (.error e, σ2)
      | (.error e, σ1) => (.error e, σ1)
  | .boolop _ isAnd vs, σ => evalBool O isAnd vs σ
  | .unary _ op e, σ =>
      match evalE O e σ with
      | (.ok x, σ1) => (.ok (O.unop op x), σ1)
      | (.error e, σ1) => (.error e, σ1)
  | .binop _ op l r, σ =>
      match evalE O l σ with
      | (.ok x, σ1) =>
        match evalE O r σ1 with
        | (.ok y, σ2) => (.ok (O.binop op x y), σ2)
        | (.error e, σ2) => (.error e, σ2)
      | (.error e, σ1) => (.error e, σ1)
  | .compare _ l ops rs, σ =>
      match evalE O l σ with
      | (.ok x, σ1) => evalCmp O x ops rs σ1
      | (.error e, σ1) => (.error e, σ1)
  | .ifexp _ t b e, σ =>
      match evalE O t σ with
      | (.ok c, σ1) => if O.truthy c then evalE O b σ1 else evalE O e σ1
      | (.error x, σ1) => (.error x, σ1)
  | .lambda .., σ => (.ok (.fn "<lambda>"), σ)
  | .seq _ k es _, σ =>
      match evalArgs O es σ with
      | (.ok avs, σ1) =>
        match spreadArgs O avs with
        | some (p, _) => (.ok (match k with | .tuple => .tuple p | .list => .list p | .set => .set p), σ1)
        | Option.none => (.error typeError, σ1)
      | (.error e, σ1) => (.error e, σ1)
  | .namedexpr _ t v, σ =>
      match evalE O v σ with
      | (.ok x, σ1) =>
        match t with
        | .name _ s .store => (.ok x, σ1.set s x)
        | _ => (.error unsupported, σ1)    -- in particular a target whose context is not Store
      | (.error e, σ1) => (.error e, σ1)
  | .other _ k ats ks, σ =>
      if k == "Dict" then
        let nk := natOfDigits (ats.headD "0").toList
        dictLoop (fun j s => evalNth O ks j s) (fun j => isNoneMarker (ks.getD j .noneMarker)) nk nk σ
      else if k == "Slice" then
        match evalOpts O ks σ with
        | (.ok [a, b, c], σ1) => (.ok (.slice a b c), σ1)
        | (.ok _, σ1) => (.error unsupported, σ1)
        | (.error e, σ1) => (.error e, σ1)
      else (.error unsupported, σ)
  | .starred .., σ => (.error unsupported, σ)
  | .keyword .., σ => (.error unsupported, σ)
  | .comp .., σ => (.error unsupported, σ)
  | .comprehension .., σ => (.error unsupported, σ)
  | .arguments .., σ => (.error unsupported, σ)
  | .arg .., σ => (.error unsupported, σ)
  | .withitem .., σ => (.error unsupported, σ)
  | .noneMarker, σ => (.ok .none, σ)
/-- Arguments / display elements: `Starred` and `keyword` wrappers are looked through. -/
def evalArgs (O : Oracle) : List Expr → St → ER (List Arg)
  | [], σ => (.ok [], σ)
  | .starred _ v _ :: es, σ =>
      match evalE O v σ with
      | (.ok x, σ1) => consArg (.star x) (evalArgs O es σ1)
      | (.error x, σ1) => (.error x, σ1)
  | .keyword _ a has v :: es, σ =>
      match evalE O v σ with
      | (.ok x, σ1) => consArg (if has then .kw a x else .dstar x) (evalArgs O es σ1)
      | (.error x, σ1) => (.error x, σ1)
  | e :: es, σ =>
      match evalE O e σ with
      | (.ok x, σ1) => consArg (.pos x) (evalArgs O es σ1)
      | (.error x, σ1) => (.error x, σ1)
/-- Optional children (`NoneMarker` = absent = `None`). -/
def evalOpts (O : Oracle) : List Expr → St → ER (List Val)
  | [], σ => (.ok [], σ)
  | e :: es, σ =>
      match evalE O e σ with
      | (.ok a, σ1) =>
        match evalOpts O es σ1 with
        | (.ok as, σ2) => (.ok (a :: as), σ2)
        | (.error x, σ2) => (.error x, σ2)
      | (.error x, σ1) => (.error x, σ1)
def evalBool (O : Oracle) (isAnd : Bool) : List Expr → St → ER Val
  | [], σ => (.ok (.bool isAnd), σ)
  | [e], σ => evalE O e σ
  | e :: es, σ =>
      match evalE O e σ with
      | (.ok x, σ1) => if O.truthy x == isAnd then evalBool O isAnd es σ1 else (.ok x, σ1)
      | (.error x, σ1) => (.error x, σ1)
def evalCmp (O : Oracle) (x : Val) : List String → List Expr → St → ER Val
  | op :: ops, r :: rs, σ =>
      match evalE O r σ with
      | (.ok y, σ1) =>
        let c := O.cmp op x y
        match ops with
        | [] => (.ok c, σ1)
        | _ => if O.truthy c then evalCmp O y ops rs σ1 else (.ok c, σ1)
      | (.error e, σ1) => (.error e, σ1)
  | _, _, σ => (.error unsupported, σ)
/-- Evaluate the `i`-th expression of a list (used by the dict display, whose children are stored as
all keys followed by all values but evaluated key₁, value₁, key₂, value₂, …). -/
def evalNth (O : Oracle) : List Expr → Nat → St → ER Val
  | [], _, σ => (.error unsupported, σ)
  | e :: _, 0, σ => evalE O e σ
  | _ :: es, i + 1, σ => evalNth O es i σ
end

/-! Statements. -/
inductive Outcome where
  | normal | brk | cont
  | ret (v : Val)
  | raise (v : Val)
  deriving Repr, Inhabited

abbrev SR := Outcome × St

def zipTargets : List Expr → List Val → Option (List (Expr × Val))
  | [], [] => some []
  | t :: ts, v :: vs => (zipTargets ts vs).map ((t, v) :: ·)
  | _, _ => Option.none

mutual
/-- Store `v` into a target: name binding, unpacking, logged attribute / item store
(the object and index expressions are evaluated at store time, after the right-hand side). -/
def assignTo (O : Oracle) : Expr → Val → St → SR
  | .name _ s _, v, σ => (.normal, σ.set s v)
  | .attr _ o a _, v, σ =>
      match evalE O o σ with
      | (.ok x, σ1) => (.normal, σ1.emit ⟨"setattr", a, [x, v], []⟩)
      | (.error e, σ1) => (.raise e, σ1)
  | .subscript _ o s _, v, σ =>
      match evalE O o σ with
      | (.ok x, σ1) =>
        match evalE O s σ1 with
        | (.ok y, σ2) => (.normal, σ2.emit ⟨"setitem", "", [x, y, v], []⟩)
        | (.error e, σ2) => (.raise e, σ2)
      | (.error e, σ1) => (.raise e, σ1)
  | .seq _ _ ts _, v, σ =>
      match (match v with | .tuple vs => some vs | .list vs => some vs | _ => O.iter v) with
      | some vs => if vs.length = ts.length then assignAll O ts vs σ else (.raise valueErr, σ)
      | Option.none => (.raise typeError, σ)
  | _, _, σ => (.raise unsupported, σ)
def assignAll (O : Oracle) : List Expr → List Val → St → SR
  | t :: ts, v :: vs, σ =>
      match assignTo O t v σ with
      | (.normal, σ1) => assignAll O ts vs σ1
      | r => r
  | _, _, σ => (.normal, σ)
end

/-- `x = y = v`: the same value into every target, left to right. -/
def assignEach (O : Oracle) : List Expr → Val → St → SR
  | [], _, σ => (.normal, σ)
  | t :: ts, v, σ =>
      match assignTo O t v σ with
      | (.normal, σ1) => assignEach O ts v σ1
      | r => r

def deleteOne (O : Oracle) : Expr → St → SR
  | .name _ s _, σ => (.normal, σ.set s .undef)
  | .subscript _ o s _, σ =>
      match evalE O o σ with
      | (.ok x, σ1) =>
        match evalE O s σ1 with
        | (.ok y, σ2) => (.normal, σ2.emit ⟨"delitem", "", [x, y], []⟩)
        | (.error e, σ2) => (.raise e, σ2)
      | (.error e, σ1) => (.raise e, σ1)
  | .attr _ o a _, σ =>
      match evalE O o σ with
      | (.ok x, σ1) => (.normal, σ1.emit ⟨"delattr", a, [x], []⟩)
      | (.error e, σ1) => (.raise e, σ1)
  | _, σ => (.raise unsupported, σ)

def deleteAll (O : Oracle) : List Expr → St → SR
  | [], σ => (.normal, σ)
  | t :: ts, σ =>
      match deleteOne O t σ with
      | (.normal, σ1) => deleteAll O ts σ1
      | r => r

/-- `t op= v` -/
def augAssign (O : Oracle) (t : Expr) (op : String) (v : Expr) (σ : St) : SR :=
  match t with
  | .name _ s _ =>
      let old := σ.get s
      match evalE O v σ with
      | (.ok y, σ1) => (.normal, σ1.set s (O.binop op old y))
      | (.error e, σ1) => (.raise e, σ1)
  | .subscript _ o s _ =>
      match evalE O o σ with
      | (.ok x, σ1) =>
        match evalE O s σ1 with
        | (.ok i, σ2) =>
          match evalE O v σ2 with
          | (.ok y, σ3) => (.normal, σ3.emit ⟨"setitem", "", [x, i, O.binop op (O.getitem x i) y], []⟩)
          | (.error e, σ3) => (.raise e, σ3)
        | (.error e, σ2) => (.raise e, σ2)
      | (.error e, σ1) => (.raise e, σ1)
  | .attr _ o a _ =>
      match evalE O o σ with
      | (.ok x, σ1) =>
        match evalE O v σ1 with
        | (.ok y, σ2) => (.normal, σ2.emit ⟨"setattr", a, [x, O.binop op (O.getattr x a) y], []⟩)
        | (.error e, σ2) => (.raise e, σ2)
      | (.error e, σ1) => (.raise e, σ1)
  | _ => (.raise unsupported, σ)

def exitAll : List Val → St → St
  | [], σ => σ
  | c :: cs, σ => exitAll cs (σ.emit ⟨"exit", "", [c], []⟩)

/-- Enter the `with` items left to right; returns the context managers entered (innermost first). -/
def enterAll (O : Oracle) : List Expr → List Val → St → Except Val (List Val) × St
  | [], acc, σ => (.ok acc, σ)
  | .withitem _ ce ov :: r, acc, σ =>
      match evalE O ce σ with
      | (.ok c, σ1) =>
        let σ2 := σ1.emit ⟨"enter", "", [c], []⟩
        match ov with
        | [] => enterAll O r (c :: acc) σ2
        | t :: _ =>
          match assignTo O t (O.enter c) σ2 with
          | (.normal, σ3) => enterAll O r (c :: acc) σ3
          | (.raise e, σ3) => (.error e, exitAll (c :: acc) σ3)
          | (_, σ3) => (.error unsupported, σ3)
      | (.error e, σ1) => (.error e, exitAll acc σ1)
  | _ :: _, _, σ => (.error unsupported, σ)

/-- The `for` loop over the finite list of items; `body` is the (already structurally smaller) loop body.
Returns the outcome and whether the loop ended by `break`. -/
def forLoop (bind : Val → St → SR) (body : St → SR) : List Val → St → SR × Bool
  | [], σ => ((.normal, σ), false)
  | v :: vs, σ =>
      match bind v σ with
      | (.normal, σ1) =>
        match body σ1 with
        | (.normal, σ2) => forLoop bind body vs σ2
        | (.cont, σ2) => forLoop bind body vs σ2
        | (.brk, σ2) => ((.normal, σ2), true)
        | r => (r, true)
      | r => (r, true)

def raiseVal (v : Val) : Val :=
  match v with
  | .fn t => .exc t .none
  | v => v

mutual
def execS (O : Oracle) : Stmt → St → SR
  | .assign _ ts v, σ =>
      match evalE O v σ with
      | (.ok x, σ1) => assignEach O ts x σ1
      | (.error e, σ1) => (.raise e, σ1)
  | .augAssign _ t op v, σ => augAssign O t op v σ
  | .annAssign _ t _ v _, σ =>
      match v with
      | [] => (.normal, σ)
      | e :: _ =>
        match evalE O e σ with
        | (.ok x, σ1) => assignTo O t x σ1
        | (.error e, σ1) => (.raise e, σ1)
  | .expr _ v, σ =>
      match evalE O v σ with
      | (.ok _, σ1) => (.normal, σ1)
      | (.error e, σ1) => (.raise e, σ1)
  | .ret _ v, σ =>
      match v with
      | [] => (.ret .none, σ)
      | e :: _ =>
        match evalE O e σ with
        | (.ok x, σ1) => (.ret x, σ1)
        | (.error e, σ1) => (.raise e, σ1)
  | .raise _ exc cause, σ =>
      match exc with
      | [] => (.raise (.exc "RuntimeError" .none), σ)
      | e :: _ =>
        match evalE O e σ with
        | (.ok x, σ1) =>
          match cause with
          | [] => (.raise (raiseVal x), σ1)
          | c :: _ =>
            match evalE O c σ1 with
            | (.ok _, σ2) => (.raise (raiseVal x), σ2)
            | (.error e, σ2) => (.raise e, σ2)
        | (.error e, σ1) => (.raise e, σ1)
  | .delete _ ts, σ => deleteAll O ts σ
  | .if_ _ t b e, σ =>
      match evalE O t σ with
      | (.ok c, σ1) => if O.truthy c then execB O b σ1 else execB O e σ1
      | (.error x, σ1) => (.raise x, σ1)
  | .for_ _ tg it b e _ _, σ =>
      match evalE O it σ with
      | (.ok c, σ1) =>
        match O.iter c with
        | some vs =>
          match forLoop (fun v s => assignTo O tg v s) (fun s => execB O b s) vs σ1 with
          | ((.normal, σ2), false) => execB O e σ2
          | (r, _) => r
        | Option.none => (.raise typeError, σ1)
      | (.error x, σ1) => (.raise x, σ1)
  | .with_ _ items b _, σ =>
      match enterAll O items [] σ with
      | (.ok cms, σ1) =>
        match execB O b σ1 with
        | (o, σ2) => (o, exitAll cms σ2)
      | (.error e, σ1) => (.raise e, σ1)
  | .try_ _ b hs e f, σ =>
      let r1 : SR :=
        match execB O b σ with
        | (.raise x, σ1) => execH O hs x σ1
        | (.normal, σ1) => execB O e σ1
        | r => r
      match execB O f r1.2 with
      | (.normal, σ3) => (r1.1, σ3)
      | r => r
  | .assert_ _ t m, σ =>
      match evalE O t σ with
      | (.ok c, σ1) =>
        if O.truthy c then (.normal, σ1) else
        match m with
        | [] => (.raise (.exc "AssertionError" .none), σ1)
        | e :: _ =>
          match evalE O e σ1 with
          | (.ok x, σ2) => (.raise (.exc "AssertionError" x), σ2)
          | (.error x, σ2) => (.raise x, σ2)
      | (.error x, σ1) => (.raise x, σ1)
  | .pass _, σ => (.normal, σ)
  | .break_ _, σ => (.brk, σ)
  | .continue_ _, σ => (.cont, σ)
  | .global .., σ => (.normal, σ)
  | .nonlocal .., σ => (.normal, σ)
  | .functionDef _ nm .., σ => (.normal, σ.set nm (.fn nm))
  | .while_ .., σ => (.raise unsupported, σ)
  | .classDef .., σ => (.raise unsupported, σ)
  | .handler .., σ => (.raise unsupported, σ)
  | .import_ .., σ => (.raise unsupported, σ)
  | .importFrom .., σ => (.raise unsupported, σ)
  | .other .., σ => (.raise unsupported, σ)
def execB (O : Oracle) : List Stmt → St → SR
  | [], σ => (.normal, σ)
  | s :: ss, σ =>
      match execS O s σ with
      | (.normal, σ1) => execB O ss σ1
      | r => r
/-- Handlers of a `try` for the raised value `x`: first match wins; no match = re-raise. -/
def execH (O : Oracle) : List Stmt → Val → St → SR
  | [], x, σ => (.raise x, σ)
  | .handler _ ty _ b :: hs, x, σ =>
      match ty with
      | [] => execB O b σ
      | t :: _ =>
        match evalE O t σ with
        | (.ok tv, σ1) => if O.isinst x tv then execB O b σ1 else execH O hs x σ1
        | (.error e, σ1) => (.raise e, σ1)
  | _ :: _, _, σ => (.raise unsupported, σ)
end

/-- Parameter names of a function definition. -/
def paramNames : Expr → List String
  | .arguments _ po ar _ _ _ _ _ => (po ++ ar).filterMap fun a => match a with | .arg _ n _ => some n | _ => Option.none
  | _ => []

def bindParams : List String → List Val → Env → Env
  | n :: ns, v :: vs, env => bindParams ns vs ((n, v) :: env)
  | _, _, env => env

/-- Call the function defined by `fn` on `args` in the global environment `genv`. -/
def runFn (O : Oracle) (genv : Env) (fn : Stmt) (args : List Val) : SR :=
  match fn with
  | .functionDef _ _ as body _ _ _ =>
      match execB O body ⟨bindParams (paramNames as) args genv, []⟩ with
      | (.normal, σ) => (.ret .none, σ)
      | r => r
  | _ => (.raise unsupported, ⟨genv, []⟩)

/-- What the property observes: the result (or the raised value) and the ordered effect log. -/
def observe (r : SR) : Outcome × List Event := (r.1, r.2.log.reverse)

end Malt.SemAnf
