import MaltModel.Util.Sexp
/-
`Py.Ast` — the syntax shared by all syntactic models (CFG, activity, dataflow, converters, ANF).

Design (DESIGN.md §3.1, as built): two inductives, `Expr` and `Stmt`, each nested only through
`List` of itself, so that every model function is a pair `f`/`fList` by structural recursion.
Everything expression-side that Python's `ast` keeps in helper classes (`keyword`, `arguments`,
`arg`, `comprehension`, `withitem`) is an `Expr` constructor; an optional child is a list of
length ≤ 1; a syntactic `None` inside a list (dict `**` keys, `kw_defaults`) is `.noneMarker`.
`ExceptHandler` is a `Stmt` constructor.  Every node carries the preorder id the serialiser
assigned to the corresponding `ast` node of the *original* tree (0 for generated nodes).

Unknown node kinds are never defaulted: the serialiser emits them as `other` with their kind
name, and models either treat `other` generically (children only) or reject it.
-/
namespace Malt.Py

inductive Ctx where
  | load | store | del
  deriving DecidableEq, Repr, Inhabited

inductive SeqKind where
  | tuple | list | set
  deriving DecidableEq, Repr, Inhabited

inductive CompKind where
  | listComp | setComp | genExp | dictComp
  deriving DecidableEq, Repr, Inhabited

inductive Expr where
  | name (id : Nat) (s : String) (ctx : Ctx)
  | const (id : Nat) (kind : String) (repr : String)
  | attr (id : Nat) (value : Expr) (attr : String) (ctx : Ctx)
  | subscript (id : Nat) (value : Expr) (slice : Expr) (ctx : Ctx)
  | call (id : Nat) (func : Expr) (args : List Expr) (keywords : List Expr)
  | keyword (id : Nat) (arg : String) (hasArg : Bool) (value : Expr)
  | boolop (id : Nat) (isAnd : Bool) (values : List Expr)
  | unary (id : Nat) (op : String) (operand : Expr)
  | binop (id : Nat) (op : String) (left right : Expr)
  | compare (id : Nat) (left : Expr) (ops : List String) (comparators : List Expr)
  | ifexp (id : Nat) (test body orelse : Expr)
  | lambda (id : Nat) (args : Expr) (body : Expr)
  | seq (id : Nat) (kind : SeqKind) (elts : List Expr) (ctx : Ctx)
  | starred (id : Nat) (value : Expr) (ctx : Ctx)
  | namedexpr (id : Nat) (target value : Expr)
  | comp (id : Nat) (kind : CompKind) (elts : List Expr) (generators : List Expr)
  | comprehension (id : Nat) (target iter : Expr) (ifs : List Expr) (isAsync : Bool)
  | arguments (id : Nat) (posonly args vararg kwonly kwDefaults kwarg defaults : List Expr)
  | arg (id : Nat) (name : String) (annotation : List Expr)
  | withitem (id : Nat) (contextExpr : Expr) (optionalVars : List Expr)
  | noneMarker
  | other (id : Nat) (kind : String) (attrs : List String) (kids : List Expr)
  deriving Repr, Inhabited

inductive Stmt where
  | functionDef (id : Nat) (name : String) (args : Expr) (body : List Stmt) (decorators : List Expr)
      (returns : List Expr) (isAsync : Bool)
  | classDef (id : Nat) (name : String) (bases keywords : List Expr) (body : List Stmt) (decorators : List Expr)
  | ret (id : Nat) (value : List Expr)
  | delete (id : Nat) (targets : List Expr)
  | assign (id : Nat) (targets : List Expr) (value : Expr)
  | augAssign (id : Nat) (target : Expr) (op : String) (value : Expr)
  | annAssign (id : Nat) (target annotation : Expr) (value : List Expr) (simple : Bool)
  | for_ (id : Nat) (target iter : Expr) (body orelse : List Stmt) (extraTest : List Expr) (isAsync : Bool)
  | while_ (id : Nat) (test : Expr) (body orelse : List Stmt)
  | if_ (id : Nat) (test : Expr) (body orelse : List Stmt)
  | with_ (id : Nat) (items : List Expr) (body : List Stmt) (isAsync : Bool)
  | raise (id : Nat) (exc cause : List Expr)
  | try_ (id : Nat) (body handlers orelse finalbody : List Stmt)
  | handler (id : Nat) (type : List Expr) (name : List String) (body : List Stmt)
  | assert_ (id : Nat) (test : Expr) (msg : List Expr)
  | import_ (id : Nat) (names : List (String × String))       -- (name, asname or "")
  | importFrom (id : Nat) (module : String) (names : List (String × String)) (level : Nat)
  | global (id : Nat) (names : List String)
  | nonlocal (id : Nat) (names : List String)
  | expr (id : Nat) (value : Expr)
  | pass (id : Nat)
  | break_ (id : Nat)
  | continue_ (id : Nat)
  | other (id : Nat) (kind : String) (exprs : List Expr) (blocks : List Stmt)
  deriving Repr, Inhabited

def Expr.id : Expr → Nat
  | .name i .. | .const i .. | .attr i .. | .subscript i .. | .call i .. | .keyword i .. | .boolop i ..
  | .unary i .. | .binop i .. | .compare i .. | .ifexp i .. | .lambda i .. | .seq i .. | .starred i ..
  | .namedexpr i .. | .comp i .. | .comprehension i .. | .arguments i .. | .arg i .. | .withitem i ..
  | .other i .. => i
  | .noneMarker => 0

def Stmt.id : Stmt → Nat
  | .functionDef i .. | .classDef i .. | .ret i .. | .delete i .. | .assign i .. | .augAssign i ..
  | .annAssign i .. | .for_ i .. | .while_ i .. | .if_ i .. | .with_ i .. | .raise i .. | .try_ i ..
  | .handler i .. | .assert_ i .. | .import_ i .. | .importFrom i .. | .global i .. | .nonlocal i ..
  | .expr i .. | .pass i | .break_ i | .continue_ i | .other i .. => i

end Malt.Py
