import MaltModel.Util.Sexp
import MaltModel.Props.C20
