import MaltModel.Util.Sexp
