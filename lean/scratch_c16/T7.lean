import MaltModel.Proofs.C16
namespace Malt.Ctx

theorem required_ok (k : Kind) (s s' : TState) (hi : inside k s = some s') (st : Status)
    (hr : requiredStatus k s.stack.head? = some st) : s'.stack.head?.map (·.status) = some st := by
  cases k with
  | plain => simp [requiredStatus] at hr
  | unspecified => simp [requiredStatus] at hr
  | withCtx x => simp [requiredStatus] at hr
  | internalConvert r cbd ur => simp [requiredStatus] at hr
  | doNotConvert =>
    simp only [requiredStatus, Option.some.injEq] at hr
    cases hi; subst hr; rfl
  | functionScope ur =>
    cases ur
    · simp [requiredStatus] at hr
    · simp only [requiredStatus, Option.some.injEq] at hr
      cases hi; subst hr; rfl
  | convert ur c =>
    cases ur
    · simp [requiredStatus] at hr
    · simp only [requiredStatus] at hr
      -- the entry in effect where converted_call decides
      have key : ∀ e : Entry, e.status ≠ .disabled → ∀ s0 : TState, s0.stack.head? = some e →
          insideConvertedCall true s0 = some s' → s'.stack.head?.map (·.status) = some .enabled := by
        intro e hd s0 h0 h
        simp only [insideConvertedCall, h0, hd, if_false, if_true, Option.some.injEq] at h
        subst h; rfl
      cases c with
      | none =>
        simp only at hr
        cases he : s.stack.head? with
        | none => simp [he] at hr
        | some e =>
          simp only [he] at hr
          split at hr
          · simp at hr
          · rename_i hd
            cases hr
            exact key e hd s he hi
      | some r =>
        cases r with
        | obj e =>
          simp only at hr
          split at hr
          · simp at hr
          · rename_i hd
            cases hr
            have : insideConvertedCall true (push e s) = some s' := by
              simpa [inside, insideConvert, CtxRef.get] using hi
            exact key e hd (push e s) rfl this
        | current =>
          simp only at hr
          cases he : s.stack.head? with
          | none => simp [he] at hr
          | some e =>
            simp only [he] at hr
            split at hr
            · simp at hr
            · rename_i hd
              cases hr
              have : insideConvertedCall true (push e s) = some s' := by
                simpa [inside, insideConvert, CtxRef.get, he] using hi
              exact key e hd (push e s) rfl this

end Malt.Ctx

namespace Malt.Ctx

theorem bodyC_log_shape (p : Path) (ca : Bool) (b : Comp) (s : TState) :
    ∃ tail, (bodyC p ca b s).log = obsAt p .inn s :: ((b s).log ++ tail) ∧ ∀ o ∈ tail, o.owner = p := by
  simp only [bodyC]
  split
  · exact ⟨[obsAt p .out (b s).st], rfl, by simp [obsAt]⟩
  · split
    · exact ⟨[obsAt p .caught (b s).st, obsAt p .out (b s).st], rfl, by simp [obsAt]⟩
    · exact ⟨[], by simp, by simp⟩
  · exact ⟨[], by simp, by simp⟩

theorem filter_under_body (p : Path) (j : Nat) (o₀ : Obs) (h₀ : o₀.owner = p) (kl tail : List Obs)
    (ht : ∀ o ∈ tail, o.owner = p) :
    (o₀ :: (kl ++ tail)).filter (under (j :: p)) = kl.filter (under (j :: p)) := by
  rw [List.filter_cons, under_child_of_owner j h₀, List.filter_append,
      filter_under_eq_nil (fun o ho => under_child_of_owner j (ht o ho))]
  simp

mutual
theorem checkNode_nil : ∀ (t : Tree) (p : Path) (x : Option Entry), checkNode t p x [] = true
  | .node k cs ra ca, p, x => by simp [checkNode, bodyLevel]
theorem checkKids_nil : ∀ (cs : List Tree) (p : Path) (i : Nat) (x : Option Entry), checkKids cs p i x [] = true
  | [], _, _, _ => by simp [checkKids]
  | c :: cs, p, i, x => by simp [checkKids, checkNode_nil c (i :: p) x, checkKids_nil cs p (i + 1) x]
end

mutual
theorem runNode_check : ∀ (t : Tree) (p : Path) (s : TState), s.stack ≠ [] →
    checkNode t p s.stack.head? (runNode t p s).log = true
  | .node k cs ra ca, p, s, hs => by
    obtain ⟨s', hi, hs'⟩ := inside_some k s hs
    have ha := runNode_around k cs ra ca p s
    rw [hi] at ha
    have hlog : (runNode (.node k cs ra ca) p s).log = (bodyOf cs ra ca p s').log := by
      unfold Around at ha; rw [ha]
    rw [hlog]
    simp only [checkNode]
    have hsee := bodyOf_sees cs ra ca p s'
    cases hb : bodyLevel p (bodyOf cs ra ca p s').log with
    | nil => rfl
    | cons o rest =>
      have hmem : ∀ o' ∈ o :: rest, o'.top = s'.stack.head? := by
        intro o' ho'
        have : o' ∈ bodyLevel p (bodyOf cs ra ca p s').log := hb ▸ ho'
        simp only [bodyLevel, List.mem_filter, decide_eq_true_eq] at this
        exact hsee o' this.1 this.2
      have ho : o.top = s'.stack.head? := hmem o (List.mem_cons_self ..)
      simp only [Bool.and_eq_true]
      refine ⟨⟨?_, ?_⟩, ?_⟩
      · rw [List.all_eq_true]
        intro o' ho'
        simp [hmem o' (List.mem_cons_of_mem _ ho'), ho]
      · split
        · rfl
        · rename_i st hr
          rw [ho, required_ok k s s' hi st hr]
          simp
      · rw [ho]
        obtain ⟨tail, hshape, htail⟩ := bodyC_log_shape p ca (runKids cs p 0 ra) s'
        have hcongr := checkKids_congr cs p 0 s'.stack.head? (bodyOf cs ra ca p s').log (runKids cs p 0 ra s').log
          (fun j _ => by
            rw [show (bodyOf cs ra ca p s').log = _ from hshape]
            exact filter_under_body p j _ rfl _ _ htail)
        rw [hcongr]
        exact runKids_check cs p 0 ra s' hs'
theorem runKids_check : ∀ (cs : List Tree) (p : Path) (i : Nat) (ra : Option Nat) (s : TState), s.stack ≠ [] →
    checkKids cs p i s.stack.head? (runKids cs p i ra s).log = true
  | [], _, _, _, _, _ => by simp [checkKids]
  | c :: cs, p, i, ra, s, hs => by
    simp only [checkKids, Bool.and_eq_true]
    by_cases hra : ra = some i
    · have : (runKids (c :: cs) p i ra s).log = [] := by simp [runKids, hra]
      rw [this]
      exact ⟨checkNode_nil _ _ _, checkKids_nil _ _ _ _⟩
    · have hown := runNode_owned c (i :: p) s
      have hbal := runNode_bal c (i :: p) s
      have hc := runNode_check c (i :: p) s hs
      have hpre : (obsAt p (.pre i) s).owner = p := rfl
      cases ho : (runNode c (i :: p) s).out with
      | some e =>
        have hlog : (runKids (c :: cs) p i ra s).log = obsAt p (.pre i) s :: (runNode c (i :: p) s).log := by
          simp [runKids, hra, ho]
        rw [hlog]
        constructor
        · rw [checkNode_congr c (i :: p) _ _ (runNode c (i :: p) s).log
            (by rw [List.filter_cons, under_child_of_owner i hpre]; simp)]
          exact hc
        · rw [checkKids_congr cs p (i + 1) _ _ [] (fun j hj => by
            rw [List.filter_cons, under_child_of_owner j hpre]
            simp only [Bool.false_eq_true, if_false, List.filter_nil]
            exact filter_under_eq_nil (fun o ho' => under_other_child (hown o ho') (by omega)))]
          exact checkKids_nil _ _ _ _
      | none =>
        have hlog : (runKids (c :: cs) p i ra s).log = obsAt p (.pre i) s ::
            ((runNode c (i :: p) s).log ++ obsAt p (.post i) (runNode c (i :: p) s).st ::
              (runKids cs p (i + 1) ra (runNode c (i :: p) s).st).log) := by
          simp [runKids, hra, ho]
        have hrest := runKids_owned' cs p (i + 1) ra (runNode c (i :: p) s).st
        have hpost : (obsAt p (.post i) (runNode c (i :: p) s).st).owner = p := rfl
        rw [hlog]
        constructor
        · rw [checkNode_congr c (i :: p) _ _ (runNode c (i :: p) s).log (by
            rw [List.filter_cons, under_child_of_owner i hpre, List.filter_append, List.filter_cons,
                under_child_of_owner i hpost]
            simp only [Bool.false_eq_true, if_false]
            have hnil : (runKids cs p (i + 1) ra (runNode c (i :: p) s).st).log.filter (under (i :: p)) = [] :=
              filter_under_eq_nil (fun o ho' => by
                rcases hrest o ho' with h | ⟨j, hj, h⟩
                · exact under_child_of_owner i h
                · exact under_other_child h (by omega))
            rw [hnil]
            simp)]
          exact hc
        · rw [checkKids_congr cs p (i + 1) _ _ (runKids cs p (i + 1) ra (runNode c (i :: p) s).st).log (fun j hj => by
            rw [List.filter_cons, under_child_of_owner j hpre, List.filter_append, List.filter_cons,
                under_child_of_owner j hpost]
            simp only [Bool.false_eq_true, if_false]
            have hnil : (runNode c (i :: p) s).log.filter (under (j :: p)) = [] :=
              filter_under_eq_nil (fun o ho' => under_other_child (hown o ho') (by omega))
            rw [hnil]
            simp)]
          have := runKids_check cs p (i + 1) ra (runNode c (i :: p) s).st (by rw [hbal]; exact hs)
          rw [hbal] at this
          exact this
end

/-- Every log of the model passes the checker. -/
theorem runThread_check (t : Tree) (s : TState) (hs : s.stack ≠ []) : checkThread t (runThread t s).log = true := by
  have hown := runNode_owned t [0] s
  have hbal := runNode_bal t [0] s
  have hstart : (obsAt [] .start s).owner = [] := rfl
  have hfin : (obsAt [] .fin (runNode t [0] s).st).owner = [] := rfl
  have hbl : bodyLevel [] (runThread t s).log = [obsAt [] .start s, obsAt [] .fin (runNode t [0] s).st] := by
    simp only [runThread, bodyLevel, List.filter_cons, hstart, decide_true, if_true, List.filter_append, hfin,
      List.filter_nil]
    rw [List.filter_eq_nil_iff.mpr (fun o ho => by
      have := hown o ho
      simp only [decide_eq_true_eq]
      intro h
      rw [h] at this
      have := this.length_le
      simp at this)]
    simp
  simp only [checkThread, hbl, List.all_cons, List.all_nil, Bool.and_true, Bool.and_eq_true, decide_eq_true_eq]
  constructor
  · simp [obsAt, hbal]
  · have hc := runNode_check t [0] s hs
    rw [checkNode_congr t [0] _ _ (runNode t [0] s).log (by
      simp only [runThread]
      rw [List.filter_cons, under_child_of_owner 0 hstart, List.filter_append, List.filter_cons,
          under_child_of_owner 0 hfin]
      simp)]
    exact hc

end Malt.Ctx
