import MaltModel.Proofs.C16
namespace Malt.Ctx

/-! ## Part 4 — the log checker accepts every log of the model -/

/-- `o` was made at or below the node at `q`. -/
def under (q : Path) (o : Obs) : Bool := decide (q <:+ o.owner)

theorem bodyLevel_under {p q : Path} (h : p <:+ q) (l : List Obs) :
    bodyLevel q (l.filter (under p)) = bodyLevel q l := by
  simp only [bodyLevel, List.filter_filter]
  apply List.filter_congr
  intro o _
  by_cases ho : o.owner = q
  · simp [under, ho, h]
  · simp [ho]

theorem filter_under_under {p q : Path} (h : p <:+ q) (l : List Obs) :
    (l.filter (under p)).filter (under q) = l.filter (under q) := by
  simp only [List.filter_filter]
  apply List.filter_congr
  intro o _
  by_cases ho : q <:+ o.owner
  · simp [under, ho, List.IsSuffix.trans h ho]
  · simp [under, ho]

mutual
theorem checkNode_under : ∀ (t : Tree) (p : Path) (x : Option Entry) (l : List Obs),
    checkNode t p x l = checkNode t p x (l.filter (under p))
  | .node k cs ra ca, p, x, l => by
    simp only [checkNode]
    rw [bodyLevel_under (List.suffix_refl p)]
    split
    · rfl
    · rw [checkKids_under cs p 0 _ l]
theorem checkKids_under : ∀ (cs : List Tree) (p : Path) (i : Nat) (x : Option Entry) (l : List Obs),
    checkKids cs p i x l = checkKids cs p i x (l.filter (under p))
  | [], _, _, _, _ => by simp [checkKids]
  | c :: cs, p, i, x, l => by
    simp only [checkKids]
    rw [checkKids_under cs p (i + 1) x l]
    rw [checkNode_under c (i :: p) x l, checkNode_under c (i :: p) x (l.filter (under p)),
        filter_under_under (List.suffix_cons i p)]
end

theorem checkNode_congr (t : Tree) (p : Path) (x : Option Entry) (l l' : List Obs)
    (h : l.filter (under p) = l'.filter (under p)) : checkNode t p x l = checkNode t p x l' := by
  rw [checkNode_under t p x l, checkNode_under t p x l', h]

theorem checkKids_congr : ∀ (cs : List Tree) (p : Path) (i : Nat) (x : Option Entry) (l l' : List Obs),
    (∀ j, i ≤ j → l.filter (under (j :: p)) = l'.filter (under (j :: p))) →
    checkKids cs p i x l = checkKids cs p i x l'
  | [], _, _, _, _, _, _ => by simp [checkKids]
  | c :: cs, p, i, x, l, l', h => by
    simp only [checkKids]
    rw [checkNode_congr c (i :: p) x l l' (h i (Nat.le_refl i)),
        checkKids_congr cs p (i + 1) x l l' (fun j hj => h j (Nat.le_of_succ_le hj))]

/-- Observations owned by the body `p` itself are not under any child of `p`. -/
theorem under_child_of_owner {p : Path} {o : Obs} (j : Nat) (h : o.owner = p) : under (j :: p) o = false := by
  simp only [under, decide_eq_false_iff_not]
  intro hs
  have := hs.length_le
  rw [h] at this
  simp at this
  omega

/-- Observations under child `j'` are not under a different child `j`. -/
theorem under_other_child {p : Path} {o : Obs} {j j' : Nat} (h : (j' :: p) <:+ o.owner) (hne : j ≠ j') :
    under (j :: p) o = false := by
  simp only [under, decide_eq_false_iff_not]
  intro hs
  have h1 := List.suffix_of_suffix_length_le hs h (by simp)
  have h2 := h1.eq_of_length (by simp)
  simp only [List.cons.injEq, and_true] at h2
  exact hne h2

/-- Refined ownership for the try-block: its own observations, or under a child with index `≥ i`. -/
theorem runKids_owned' : ∀ (cs : List Tree) (p : Path) (i : Nat) (ra : Option Nat) (s : TState),
    ∀ o ∈ (runKids cs p i ra s).log, o.owner = p ∨ ∃ j, i ≤ j ∧ (j :: p) <:+ o.owner
  | [], p, i, ra, s => by
    intro o ho; simp only [runKids] at ho; split at ho <;> simp at ho
  | c :: cs, p, i, ra, s => by
    intro o ho
    simp only [runKids] at ho
    split at ho
    · simp at ho
    · have h1 := runNode_owned c (i :: p) s
      split at ho
      · have h2 := runKids_owned' cs p (i + 1) ra (runNode c (i :: p) s).st
        simp only [List.mem_cons, List.mem_append] at ho
        rcases ho with rfl | ho | rfl | ho
        · exact Or.inl rfl
        · exact Or.inr ⟨i, Nat.le_refl i, h1 o ho⟩
        · exact Or.inl rfl
        · rcases h2 o ho with h | ⟨j, hj, h⟩
          · exact Or.inl h
          · exact Or.inr ⟨j, Nat.le_of_succ_le hj, h⟩
      · simp only [List.mem_cons] at ho
        rcases ho with rfl | ho
        · exact Or.inl rfl
        · exact Or.inr ⟨i, Nat.le_refl i, h1 o ho⟩

theorem filter_under_eq_nil {q : Path} {l : List Obs} (h : ∀ o ∈ l, under q o = false) : l.filter (under q) = [] := by
  rw [List.filter_eq_nil_iff]
  intro o ho
  simp [h o ho]

end Malt.Ctx
