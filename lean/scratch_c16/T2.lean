import MaltModel.Proofs.C16
namespace Malt.Ctx

/-! ## Part 2 — observations -/

theorem around_log {w b : Comp} {ins : Option TState} {s : TState} (h : Around w b ins s) :
    ∀ o ∈ (w s).log, ∃ s', ins = some s' ∧ o ∈ (b s').log := by
  unfold Around at h
  split at h
  · simp [h]
  · rename_i s'; intro o ho; rw [h] at ho; exact ⟨s', rfl, ho⟩

/-- Every observation logged under the node at `p` is owned by `p` or a descendant of it. -/
def OwnedBy (p : Path) (b : Comp) : Prop := ∀ s, ∀ o ∈ (b s).log, p <:+ o.owner

theorem bodyC_owned (p : Path) (ca : Bool) (b : Comp) (hb : OwnedBy p b) : OwnedBy p (bodyC p ca b) := by
  intro s o ho
  have hb := hb s
  simp only [bodyC] at ho
  split at ho
  · simp only [List.mem_cons, List.mem_append, List.not_mem_nil, or_false] at ho
    rcases ho with rfl | ho | rfl
    · exact List.suffix_refl _
    · exact hb o ho
    · exact List.suffix_refl _
  · split at ho
    · simp only [List.mem_cons, List.mem_append, List.not_mem_nil, or_false] at ho
      rcases ho with rfl | ho | rfl | rfl
      · exact List.suffix_refl _
      · exact hb o ho
      · exact List.suffix_refl _
      · exact List.suffix_refl _
    · simp only [List.mem_cons] at ho
      rcases ho with rfl | ho
      · exact List.suffix_refl _
      · exact hb o ho
  · simp only [List.mem_cons] at ho
    rcases ho with rfl | ho
    · exact List.suffix_refl _
    · exact hb o ho

mutual
theorem runNode_owned : ∀ (t : Tree) (p : Path), OwnedBy p (runNode t p)
  | .node k cs ra ca, p => by
    intro s o ho
    obtain ⟨s', _, ho'⟩ := around_log (runNode_around k cs ra ca p s) o ho
    exact bodyC_owned p ca _ (runKids_owned cs p 0 ra) s' o ho'
theorem runKids_owned : ∀ (cs : List Tree) (p : Path) (i : Nat) (ra : Option Nat), OwnedBy p (runKids cs p i ra)
  | [], p, i, ra => by
    intro s o ho; simp only [runKids] at ho; split at ho <;> simp at ho
  | c :: cs, p, i, ra => by
    intro s o ho
    simp only [runKids] at ho
    split at ho
    · simp at ho
    · have h1 := runNode_owned c (i :: p) s
      have hsuf : ∀ o : Obs, (i :: p) <:+ o.owner → p <:+ o.owner :=
        fun o h => List.IsSuffix.trans (List.suffix_cons i p) h
      split at ho
      · have h2 := runKids_owned cs p (i + 1) ra (runNode c (i :: p) s).st
        simp only [List.mem_cons, List.mem_append] at ho
        rcases ho with rfl | ho | rfl | ho
        · exact List.suffix_refl _
        · exact hsuf o (h1 o ho)
        · exact List.suffix_refl _
        · exact h2 o ho
      · simp only [List.mem_cons] at ho
        rcases ho with rfl | ho
        · exact List.suffix_refl _
        · exact hsuf o (h1 o ho)
end

theorem not_owner_of_child {i : Nat} {p q : Path} (h : (i :: p) <:+ q) : q ≠ p := by
  intro e
  subst e
  have := h.length_le
  simp at this
  omega

/-- A body-level observation (owner = this node) reports the top of the list the computation started with. -/
def SeesTop (p : Path) (b : Comp) : Prop := ∀ s, ∀ o ∈ (b s).log, o.owner = p → o.top = s.stack.head?

theorem runKids_sees : ∀ (cs : List Tree) (p : Path) (i : Nat) (ra : Option Nat), SeesTop p (runKids cs p i ra)
  | [], p, i, ra => by
    intro s o ho; simp only [runKids] at ho; split at ho <;> simp at ho
  | c :: cs, p, i, ra => by
    intro s o ho hp
    simp only [runKids] at ho
    split at ho
    · simp at ho
    · have h1 := runNode_owned c (i :: p) s
      have hb1 := runNode_bal c (i :: p) s
      split at ho
      · have h2 := runKids_sees cs p (i + 1) ra (runNode c (i :: p) s).st
        simp only [List.mem_cons, List.mem_append] at ho
        rcases ho with rfl | ho | rfl | ho
        · rfl
        · exact absurd hp (not_owner_of_child (h1 o ho))
        · simp [obsAt, hb1]
        · rw [h2 o ho hp, hb1]
      · simp only [List.mem_cons] at ho
        rcases ho with rfl | ho
        · rfl
        · exact absurd hp (not_owner_of_child (h1 o ho))

theorem bodyOf_sees (cs : List Tree) (ra : Option Nat) (ca : Bool) (p : Path) : SeesTop p (bodyOf cs ra ca p) := by
  intro s o ho hp
  have hk := runKids_sees cs p 0 ra s
  have hb := runKids_bal cs p 0 ra s
  simp only [bodyOf, bodyC] at ho
  split at ho
  · simp only [List.mem_cons, List.mem_append, List.not_mem_nil, or_false] at ho
    rcases ho with rfl | ho | rfl
    · rfl
    · exact hk o ho hp
    · simp [obsAt, hb]
  · split at ho
    · simp only [List.mem_cons, List.mem_append, List.not_mem_nil, or_false] at ho
      rcases ho with rfl | ho | rfl | rfl
      · rfl
      · exact hk o ho hp
      · simp [obsAt, hb]
      · simp [obsAt, hb]
    · simp only [List.mem_cons] at ho
      rcases ho with rfl | ho
      · rfl
      · exact hk o ho hp
  · simp only [List.mem_cons] at ho
    rcases ho with rfl | ho
    · rfl
    · exact hk o ho hp

end Malt.Ctx
