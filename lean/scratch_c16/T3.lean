import MaltModel.Proofs.C16
namespace Malt.Ctx

theorem insideConvertedCall_some (ur : Bool) (s : TState) (h : s.stack ≠ []) :
    ∃ s', insideConvertedCall ur s = some s' ∧ s'.stack ≠ [] := by
  unfold insideConvertedCall
  cases hs : s.stack with
  | nil => exact absurd hs h
  | cons e rest =>
    simp only [List.head?_cons]
    split
    · exact ⟨s, rfl, h⟩
    · split
      · exact ⟨_, rfl, by simp [pushFresh, push]⟩
      · exact ⟨s, rfl, h⟩

theorem insideConvert_some (ur : Bool) (c : Option CtxRef) (s : TState) (h : s.stack ≠ []) :
    ∃ s', insideConvert ur c s = some s' ∧ s'.stack ≠ [] := by
  cases c with
  | none => exact insideConvertedCall_some ur s h
  | some r =>
    cases hr : r.get s.stack with
    | none =>
      cases r with
      | obj e => simp [CtxRef.get] at hr
      | current =>
        cases hs : s.stack with
        | nil => exact absurd hs h
        | cons e rest => simp [CtxRef.get, hs] at hr
    | some e =>
      have hi : insideConvert ur (some r) s = insideConvertedCall ur (push e s) := by simp [insideConvert, hr]
      rw [hi]; exact insideConvertedCall_some ur (push e s) (by simp [push])

/-- On a non-empty context list every wrapper reaches its body (on a non-empty list). -/
theorem inside_some (k : Kind) (s : TState) (h : s.stack ≠ []) :
    ∃ s', inside k s = some s' ∧ s'.stack ≠ [] := by
  cases k with
  | plain => exact ⟨s, rfl, h⟩
  | doNotConvert => exact ⟨_, rfl, by simp [pushFresh, push]⟩
  | unspecified => exact ⟨_, rfl, by simp [pushFresh, push]⟩
  | withCtx st => exact ⟨_, rfl, by simp [pushFresh, push]⟩
  | functionScope ur =>
    cases ur
    · exact ⟨s, rfl, h⟩
    · exact ⟨_, rfl, by simp [pushFresh, push]⟩
  | convert ur c => exact insideConvert_some ur c s h
  | internalConvert r cbd ur =>
    cases hr : r.get s.stack with
    | none =>
      cases r with
      | obj e => simp [CtxRef.get] at hr
      | current =>
        cases hs : s.stack with
        | nil => exact absurd hs h
        | cons e rest => simp [CtxRef.get, hs] at hr
    | some e =>
      cases hs : e.status with
      | enabled =>
        have hi : inside (.internalConvert r cbd ur) s = insideConvert ur (some (.obj e)) s := by simp [inside, hr, hs]
        rw [hi]; exact insideConvert_some _ _ s h
      | disabled =>
        have hi : inside (.internalConvert r cbd ur) s = some (pushFresh .disabled s) := by simp [inside, hr, hs]
        rw [hi]; exact ⟨_, rfl, by simp [pushFresh, push]⟩
      | unspecified =>
        cases cbd
        · have hi : inside (.internalConvert r false ur) s = some (pushFresh .unspecified s) := by simp [inside, hr, hs]
          rw [hi]; exact ⟨_, rfl, by simp [pushFresh, push]⟩
        · have hi : inside (.internalConvert r true ur) s = insideConvert ur (some (.obj e)) s := by simp [inside, hr, hs]
          rw [hi]; exact insideConvert_some _ _ s h

/-- On a non-empty list, only the harness' own exception can come out. -/
def Safe (b : Comp) : Prop := ∀ s, s.stack ≠ [] → ∀ e, (b s).out = some e → ∃ q, e = .boom q

theorem bodyC_safe (p : Path) (ca : Bool) (b : Comp) (hb : Safe b) : Safe (bodyC p ca b) := by
  intro s hs e he
  have hb := hb s hs
  simp only [bodyC] at he
  split at he
  · simp at he
  · split at he
    · simp at he
    · simp only [Option.some.injEq] at he; exact ⟨_, he.symm⟩
  · rename_i x e' hne hout
    simp only [Option.some.injEq] at he
    subst he
    exact hb e' hout

mutual
theorem runNode_safe : ∀ (t : Tree) (p : Path), Safe (runNode t p)
  | .node k cs ra ca, p => by
    intro s hs e he
    obtain ⟨s', hi, hs'⟩ := inside_some k s hs
    have := runNode_around k cs ra ca p s
    rw [hi] at this
    unfold Around at this
    rw [this] at he
    exact bodyC_safe p ca _ (runKids_safe cs p 0 ra) s' hs' e he
theorem runKids_safe : ∀ (cs : List Tree) (p : Path) (i : Nat) (ra : Option Nat), Safe (runKids cs p i ra)
  | [], p, i, ra => by
    intro s _ e he
    simp only [runKids] at he
    split at he
    · simp only [Option.some.injEq] at he; exact ⟨_, he.symm⟩
    · simp at he
  | c :: cs, p, i, ra => by
    intro s hs e he
    simp only [runKids] at he
    split at he
    · simp only [Option.some.injEq] at he; exact ⟨_, he.symm⟩
    · have h1 := runNode_safe c (i :: p) s hs
      have hb1 := runNode_bal c (i :: p) s
      split at he
      · exact runKids_safe cs p (i + 1) ra (runNode c (i :: p) s).st (by rw [hb1]; exact hs) e he
      · rename_i e' hout
        simp only [Option.some.injEq] at he
        subst he
        exact h1 e' hout
end

end Malt.Ctx
