import MaltModel.Proofs.C16
namespace Malt.Ctx

/-! ## Fresh identities are new -/

/-- Every `fresh n` on the list was created by this thread earlier (`n < next`). -/
def FreshOK (s : TState) : Prop := ∀ e ∈ s.stack, ∀ n, e.id = .fresh n → n < s.next

/-- `b` never decreases the object counter. -/
def Mono (b : Comp) : Prop := ∀ s, s.next ≤ (b s).st.next

theorem insideConvertedCall_next (ur : Bool) (s s' : TState) (h : insideConvertedCall ur s = some s') : s.next ≤ s'.next := by
  unfold insideConvertedCall at h
  split at h
  · simp at h
  · split at h
    · cases h; exact Nat.le_refl _
    · split at h
      · cases h; simp [pushFresh, push]
      · cases h; exact Nat.le_refl _

theorem insideConvert_next (ur : Bool) (c : Option CtxRef) (s s' : TState) (h : insideConvert ur c s = some s') : s.next ≤ s'.next := by
  cases c with
  | none => exact insideConvertedCall_next ur s s' h
  | some r =>
    cases hr : r.get s.stack with
    | none => simp [insideConvert, hr] at h
    | some e =>
      have hi : insideConvert ur (some r) s = insideConvertedCall ur (push e s) := by simp [insideConvert, hr]
      rw [hi] at h
      exact insideConvertedCall_next ur (push e s) s' h

theorem inside_next (k : Kind) (s s' : TState) (h : inside k s = some s') : s.next ≤ s'.next := by
  cases k with
  | plain => cases h; exact Nat.le_refl _
  | doNotConvert => cases h; simp [pushFresh, push]
  | unspecified => cases h; simp [pushFresh, push]
  | withCtx st => cases h; simp [pushFresh, push]
  | functionScope ur =>
    cases ur
    · cases h; exact Nat.le_refl _
    · cases h; simp [pushFresh, push]
  | convert ur c => exact insideConvert_next ur c s s' h
  | internalConvert r cbd ur =>
    cases hr : r.get s.stack with
    | none => simp [inside, hr] at h
    | some e =>
      cases hs : e.status with
      | enabled =>
        have hi : inside (.internalConvert r cbd ur) s = insideConvert ur (some (.obj e)) s := by simp [inside, hr, hs]
        rw [hi] at h; exact insideConvert_next _ _ s s' h
      | disabled =>
        have hi : inside (.internalConvert r cbd ur) s = some (pushFresh .disabled s) := by simp [inside, hr, hs]
        rw [hi] at h; cases h; simp [pushFresh, push]
      | unspecified =>
        cases cbd
        · have hi : inside (.internalConvert r false ur) s = some (pushFresh .unspecified s) := by simp [inside, hr, hs]
          rw [hi] at h; cases h; simp [pushFresh, push]
        · have hi : inside (.internalConvert r true ur) s = insideConvert ur (some (.obj e)) s := by simp [inside, hr, hs]
          rw [hi] at h; exact insideConvert_next _ _ s s' h

theorem around_mono {w b : Comp} {ins : Option TState} {s : TState} (h : Around w b ins s)
    (hi : ∀ s', ins = some s' → s.next ≤ s'.next) (hb : Mono b) : s.next ≤ (w s).st.next := by
  unfold Around at h
  split at h
  · rw [h]; exact Nat.le_refl _
  · rename_i s'; rw [h]; exact Nat.le_trans (hi s' rfl) (hb s')

theorem bodyC_mono (p : Path) (ca : Bool) (b : Comp) (hb : Mono b) : Mono (bodyC p ca b) := by
  intro s
  have := hb s
  simp only [bodyC]
  split
  · exact this
  · split <;> exact this
  · exact this

mutual
theorem runNode_mono : ∀ (t : Tree) (p : Path), Mono (runNode t p)
  | .node k cs ra ca, p => by
    intro s
    exact around_mono (runNode_around k cs ra ca p s) (fun s' h => inside_next k s s' h)
      (bodyC_mono p ca _ (runKids_mono cs p 0 ra))
theorem runKids_mono : ∀ (cs : List Tree) (p : Path) (i : Nat) (ra : Option Nat), Mono (runKids cs p i ra)
  | [], p, i, ra => by
    intro s; simp only [runKids]; split <;> exact Nat.le_refl _
  | c :: cs, p, i, ra => by
    intro s
    simp only [runKids]
    split
    · exact Nat.le_refl _
    · have h1 := runNode_mono c (i :: p) s
      split
      · exact Nat.le_trans h1 (runKids_mono cs p (i + 1) ra (runNode c (i :: p) s).st)
      · exact h1
end

theorem freshOK_of_bal_mono {s s' : TState} (h : FreshOK s) (hs : s'.stack = s.stack) (hn : s.next ≤ s'.next) : FreshOK s' := by
  intro e he n hid
  rw [hs] at he
  exact Nat.lt_of_lt_of_le (h e he n hid) hn

theorem pushFresh_freshOK (st : Status) (s : TState) (h : FreshOK s) : FreshOK (pushFresh st s) := by
  intro e he n hid
  simp only [pushFresh, push, List.mem_cons] at he
  rcases he with rfl | he
  · simp only [CtxId.fresh.injEq] at hid; subst hid; simp
  · exact Nat.lt_succ_of_lt (h e he n hid)

theorem push_mem_freshOK (e : Entry) (s : TState) (h : FreshOK s) (he : ∀ n, e.id = .fresh n → n < s.next) : FreshOK (push e s) := by
  intro e' he' n hid
  simp only [push, List.mem_cons] at he'
  rcases he' with rfl | he'
  · exact he n hid
  · exact h e' he' n hid

end Malt.Ctx
