import MaltModel.Rt.Ctx
namespace Malt.Ctx

def Bal (b : Comp) : Prop := ∀ s, (b s).st.stack = s.stack

/-- `w` behaves at `s` like: enter contexts reaching `ins`, run `b`, leave them again. -/
def Around (w b : Comp) (ins : Option TState) (s : TState) : Prop :=
  match ins with
  | none => w s = ⟨s, some .index, []⟩
  | some s' => w s = ⟨⟨s.stack, (b s').st.next⟩, (b s').out, (b s').log⟩

theorem exitCtx_top (e : Entry) (o : Option Exn) (s : TState) (rest : Stack)
    (h : s.stack = e :: rest) : exitCtx e.id o s = ({ s with stack := rest }, o) := by
  simp [exitCtx, h]

theorem withEntry_eq (e : Entry) (b : Comp) (hb : Bal b) (s : TState) :
    withEntry e b s = ⟨⟨s.stack, (b (push e s)).st.next⟩, (b (push e s)).out, (b (push e s)).log⟩ := by
  have h := hb (push e s)
  simp only [withEntry]
  rw [exitCtx_top e _ _ s.stack (by simpa [push] using h)]

theorem withFresh_eq (st : Status) (b : Comp) (hb : Bal b) (s : TState) :
    withFresh st b s = ⟨⟨s.stack, (b (pushFresh st s)).st.next⟩, (b (pushFresh st s)).out, (b (pushFresh st s)).log⟩ := by
  simp only [withFresh, pushFresh]
  rw [withEntry_eq _ b hb]

theorem plain_eq (b : Comp) (hb : Bal b) (s : TState) :
    b s = ⟨⟨s.stack, (b s).st.next⟩, (b s).out, (b s).log⟩ := by
  have := hb s
  rcases h : b s with ⟨⟨stk, n⟩, o, l⟩
  simp [h] at this
  simp [this]

theorem around_none {w b : Comp} {s : TState} (h : w s = ⟨s, some .index, []⟩) : Around w b none s := h
theorem around_some {w b : Comp} {s s' : TState}
    (h : w s = ⟨⟨s.stack, (b s').st.next⟩, (b s').out, (b s').log⟩) : Around w b (some s') s := h

theorem convertedCall_around (ur : Bool) (b : Comp) (hb : Bal b) (s : TState) :
    Around (convertedCall ur b) b (insideConvertedCall ur s) s := by
  unfold insideConvertedCall
  cases hh : s.stack.head? with
  | none => exact around_none (by simp [convertedCall, hh])
  | some e =>
    by_cases hd : e.status = .disabled
    · simp only [hd, if_true]
      apply around_some
      simp only [convertedCall, hh, hd, if_true]
      exact plain_eq b hb s
    · cases ur
      · simp only [hd, if_false]
        apply around_some
        simp only [convertedCall, hh, hd, if_false, functionScope]
        exact plain_eq b hb s
      · simp only [hd, if_false, if_true]
        apply around_some
        simp only [convertedCall, hh, hd, if_false, functionScope, if_true]
        exact withFresh_eq _ b hb s

theorem around_bal {w b : Comp} {ins : Option TState} {s : TState} (h : Around w b ins s) :
    (w s).st.stack = s.stack := by
  unfold Around at h
  split at h <;> simp [h]

theorem convertedCall_bal (ur : Bool) (b : Comp) (hb : Bal b) : Bal (convertedCall ur b) :=
  fun s => around_bal (convertedCall_around ur b hb s)

theorem convertW_around (ur : Bool) (c : Option CtxRef) (b : Comp) (hb : Bal b) (s : TState) :
    Around (convertW ur c b) b (insideConvert ur c s) s := by
  cases c with
  | none => exact convertedCall_around ur b hb s
  | some r =>
    cases hr : r.get s.stack with
    | none =>
      have hi : insideConvert ur (some r) s = none := by simp [insideConvert, hr]
      rw [hi]; exact around_none (by simp [convertW, hr])
    | some e =>
      have hi : insideConvert ur (some r) s = insideConvertedCall ur (push e s) := by simp [insideConvert, hr]
      have hw : convertW ur (some r) b s = withEntry e (convertedCall ur b) s := by simp [convertW, hr]
      have := convertedCall_around ur b hb (push e s)
      rw [hi]
      unfold Around at this ⊢
      rw [hw, withEntry_eq e _ (convertedCall_bal ur b hb)]
      split at this
      · rename_i heq
        exfalso
        simp only [insideConvertedCall, push, List.head?_cons] at heq
        split at heq
        · exact absurd heq (by simp)
        · split at heq <;> exact absurd heq (by simp)
      · rw [this]

theorem wrap_around (k : Kind) (b : Comp) (hb : Bal b) (s : TState) :
    Around (wrap k b) b (inside k s) s := by
  cases k with
  | plain => exact around_some (plain_eq b hb s)
  | doNotConvert => exact around_some (withFresh_eq _ b hb s)
  | unspecified => exact around_some (withFresh_eq _ b hb s)
  | withCtx st => exact around_some (withFresh_eq _ b hb s)
  | functionScope ur =>
    cases ur
    · exact around_some (plain_eq b hb s)
    · exact around_some (withFresh_eq _ b hb s)
  | convert ur c => exact convertW_around ur c b hb s
  | internalConvert r cbd ur =>
    cases hr : r.get s.stack with
    | none =>
      have hi : inside (.internalConvert r cbd ur) s = none := by simp [inside, hr]
      rw [hi]; exact around_none (by simp [wrap, hr])
    | some e =>
      cases hs : e.status with
      | enabled =>
        have hw : wrap (.internalConvert r cbd ur) b s = convertW ur (some (.obj e)) b s := by simp [wrap, hr, hs]
        have hi : inside (.internalConvert r cbd ur) s = insideConvert ur (some (.obj e)) s := by simp [inside, hr, hs]
        have := convertW_around ur (some (.obj e)) b hb s
        unfold Around at this ⊢
        rw [hi, hw]; exact this
      | disabled =>
        have hw : wrap (.internalConvert r cbd ur) b s = withFresh .disabled b s := by simp [wrap, hr, hs]
        have hi : inside (.internalConvert r cbd ur) s = some (pushFresh .disabled s) := by simp [inside, hr, hs]
        rw [hi]; exact around_some (hw ▸ withFresh_eq _ b hb s)
      | unspecified =>
        cases cbd
        · have hw : wrap (.internalConvert r false ur) b s = withFresh .unspecified b s := by simp [wrap, hr, hs]
          have hi : inside (.internalConvert r false ur) s = some (pushFresh .unspecified s) := by simp [inside, hr, hs]
          rw [hi]; exact around_some (hw ▸ withFresh_eq _ b hb s)
        · have hw : wrap (.internalConvert r true ur) b s = convertW ur (some (.obj e)) b s := by simp [wrap, hr, hs]
          have hi : inside (.internalConvert r true ur) s = insideConvert ur (some (.obj e)) s := by simp [inside, hr, hs]
          have := convertW_around ur (some (.obj e)) b hb s
          unfold Around at this ⊢
          rw [hi, hw]; exact this

end Malt.Ctx
