import MaltModel.Proofs.C16
namespace Malt.Ctx

/-! ## Part 3 — the machine computes the big-step semantics -/

theorem iter_add (a b : Nat) (c : Cfg) : iter (a + b) c = iter b (iter a c) := by
  induction a generalizing c with
  | zero => simp [iter]
  | succ a ih => rw [Nat.succ_add]; simp only [iter]; exact ih (step c)

theorem iter_succ' (n : Nat) (c : Cfg) : iter (n + 1) c = step (iter n c) := by
  rw [iter_add]; rfl

/-- `c'` is reached from `c` after some number of steps. -/
def Reach (c c' : Cfg) : Prop := ∃ n, iter n c = c'

theorem Reach.refl (c : Cfg) : Reach c c := ⟨0, rfl⟩
theorem Reach.trans {a b c : Cfg} (h1 : Reach a b) (h2 : Reach b c) : Reach a c := by
  obtain ⟨n, h1⟩ := h1; obtain ⟨m, h2⟩ := h2
  exact ⟨n + m, by rw [iter_add, h1, h2]⟩
theorem Reach.head {a b c : Cfg} (h1 : step a = b) (h2 : Reach b c) : Reach a c := by
  obtain ⟨m, h2⟩ := h2
  exact ⟨m + 1, by simp only [iter, h1, h2]⟩
theorem Reach.one {a b : Cfg} (h : step a = b) : Reach a b := Reach.head h (Reach.refl b)

/-- The frames `F` make the machine do what `b` does, whatever follows. -/
def Sim (F : List Frame) (b : Comp) : Prop :=
  ∀ K s L, Reach ⟨F ++ K, none, s, L⟩ ⟨K, (b s).out, (b s).st, L ++ (b s).log⟩

theorem step_exit (id : CtxId) (K : List Frame) (m : Option Exn) (s : TState) (L : List Obs) :
    step ⟨.exit id :: K, m, s, L⟩ = ⟨K, (exitCtx id m s).2, (exitCtx id m s).1, L⟩ := by
  cases m <;> rfl

theorem sim_withEntry (e : Entry) (F : List Frame) (b : Comp) (hb : Sim F b) (K : List Frame) (s : TState) (L : List Obs) :
    Reach ⟨F ++ .exit e.id :: K, none, push e s, L⟩
      ⟨K, (withEntry e b s).out, (withEntry e b s).st, L ++ (withEntry e b s).log⟩ :=
  Reach.trans (hb (.exit e.id :: K) (push e s) L) (Reach.one (step_exit _ _ _ _ _))

theorem sim_freshFrames (st : Status) (F : List Frame) (b : Comp) (hb : Sim F b) (K : List Frame) (s : TState) (L : List Obs) :
    Reach (freshFrames st F K s L) ⟨K, (withFresh st b s).out, (withFresh st b s).st, L ++ (withFresh st b s).log⟩ :=
  sim_withEntry ⟨.fresh s.next, st⟩ F b hb K { s with next := s.next + 1 } L

/-- Skipping frames while an exception propagates. -/
theorem step_skip_post (p : Path) (i : Nat) (K : List Frame) (e : Exn) (s : TState) (L : List Obs) :
    step ⟨.post p i :: K, some e, s, L⟩ = ⟨K, some e, s, L⟩ := rfl
theorem step_skip_kids (cs : List Tree) (p : Path) (i : Nat) (ra : Option Nat) (K : List Frame) (e : Exn) (s : TState) (L : List Obs) :
    step ⟨.kids cs p i ra :: K, some e, s, L⟩ = ⟨K, some e, s, L⟩ := rfl
theorem step_skip_out (p : Path) (K : List Frame) (e : Exn) (s : TState) (L : List Obs) :
    step ⟨.out p :: K, some e, s, L⟩ = ⟨K, some e, s, L⟩ := rfl

/-- The body frames simulate `bodyC`, given the try-block does. -/
theorem sim_body (cs : List Tree) (ra : Option Nat) (ca : Bool) (p : Path)
    (hk : Sim [.kids cs p 0 ra] (runKids cs p 0 ra)) :
    Sim (bodyFrames cs ra ca p) (bodyOf cs ra ca p) := by
  intro K s L
  -- in
  refine Reach.head (b := ⟨.kids cs p 0 ra :: .handler p ca :: .out p :: K, none, s, L ++ [obsAt p .inn s]⟩) rfl ?_
  -- try-block
  refine Reach.trans (hk (.handler p ca :: .out p :: K) s (L ++ [obsAt p .inn s])) ?_
  simp only [bodyOf, bodyC]
  cases ho : (runKids cs p 0 ra s).out with
  | none =>
    refine Reach.head (b := ⟨.out p :: K, none, (runKids cs p 0 ra s).st, _⟩) rfl ?_
    refine Reach.head (b := ⟨K, none, (runKids cs p 0 ra s).st, _⟩) rfl ?_
    simp only [List.append_assoc, List.cons_append, List.nil_append]
    exact Reach.refl _
  | some e =>
    cases e with
    | boom q =>
      cases ca
      · refine Reach.head (b := ⟨.out p :: K, some (.boom q), (runKids cs p 0 ra s).st, _⟩) rfl ?_
        refine Reach.head (b := ⟨K, some (.boom q), (runKids cs p 0 ra s).st, _⟩) rfl ?_
        simp only [List.append_assoc, List.cons_append, List.nil_append]
        exact Reach.refl _
      · refine Reach.head (b := ⟨.out p :: K, none, (runKids cs p 0 ra s).st, _⟩) rfl ?_
        refine Reach.head (b := ⟨K, none, (runKids cs p 0 ra s).st, _⟩) rfl ?_
        simp only [List.append_assoc, List.cons_append, List.nil_append]
        exact Reach.refl _
    | assertion =>
      refine Reach.head (b := ⟨.out p :: K, some .assertion, (runKids cs p 0 ra s).st, _⟩) rfl ?_
      refine Reach.head (b := ⟨K, some .assertion, (runKids cs p 0 ra s).st, _⟩) rfl ?_
      simp only [List.append_assoc, List.cons_append, List.nil_append]
      exact Reach.refl _
    | index =>
      refine Reach.head (b := ⟨.out p :: K, some .index, (runKids cs p 0 ra s).st, _⟩) rfl ?_
      refine Reach.head (b := ⟨K, some .index, (runKids cs p 0 ra s).st, _⟩) rfl ?_
      simp only [List.append_assoc, List.cons_append, List.nil_append]
      exact Reach.refl _


/-- The `cc` frame simulates `convertedCall`. -/
theorem sim_cc (ur : Bool) (cs : List Tree) (ra : Option Nat) (ca : Bool) (p : Path)
    (hb : Sim (bodyFrames cs ra ca p) (bodyOf cs ra ca p)) :
    Sim [.cc ur cs ra ca p] (convertedCall ur (bodyOf cs ra ca p)) := by
  intro K s L
  cases hh : s.stack.head? with
  | none =>
    refine Reach.head (b := ⟨K, some .index, s, L⟩) (by simp [step, stepOk, hh]) ?_
    simp [convertedCall, hh]; exact Reach.refl _
  | some e =>
    by_cases hd : e.status = .disabled
    · refine Reach.head (b := ⟨bodyFrames cs ra ca p ++ K, none, s, L⟩) (by simp [step, stepOk, hh, hd]) ?_
      have : convertedCall ur (bodyOf cs ra ca p) s = bodyOf cs ra ca p s := by simp [convertedCall, hh, hd]
      rw [this]; exact hb K s L
    · cases ur
      · refine Reach.head (b := ⟨bodyFrames cs ra ca p ++ K, none, s, L⟩) (by simp [step, stepOk, hh, hd]) ?_
        have : convertedCall false (bodyOf cs ra ca p) s = bodyOf cs ra ca p s := by
          simp [convertedCall, hh, hd, functionScope]
        rw [this]; exact hb K s L
      · refine Reach.head (b := freshFrames .enabled (bodyFrames cs ra ca p) K s L) (by simp [step, stepOk, hh, hd]) ?_
        have : convertedCall true (bodyOf cs ra ca p) s = withFresh .enabled (bodyOf cs ra ca p) s := by
          simp [convertedCall, hh, hd, functionScope]
        rw [this]; exact sim_freshFrames _ _ _ hb K s L

theorem step_call (k : Kind) (cs : List Tree) (ra : Option Nat) (ca : Bool) (p : Path) (K : List Frame) (s : TState) (L : List Obs) :
    step ⟨.call (.node k cs ra ca) p :: K, none, s, L⟩ = callStep k cs ra ca p K s L := rfl

theorem sim_convertW (ur : Bool) (c : Option CtxRef) (cs : List Tree) (ra : Option Nat) (ca : Bool) (p : Path)
    (hb : Sim (bodyFrames cs ra ca p) (bodyOf cs ra ca p)) (K : List Frame) (s : TState) (L : List Obs) :
    Reach (convertFrames ur c cs ra ca p K s L)
      ⟨K, (convertW ur c (bodyOf cs ra ca p) s).out, (convertW ur c (bodyOf cs ra ca p) s).st,
       L ++ (convertW ur c (bodyOf cs ra ca p) s).log⟩ := by
  cases c with
  | none => exact sim_cc ur cs ra ca p hb K s L
  | some r =>
    cases hr : r.get s.stack with
    | none =>
      have h1 : convertFrames ur (some r) cs ra ca p K s L = ⟨K, some .index, s, L⟩ := by simp [convertFrames, hr]
      have h2 : convertW ur (some r) (bodyOf cs ra ca p) s = ⟨s, some .index, []⟩ := by simp [convertW, hr]
      rw [h1, h2]; simp; exact Reach.refl _
    | some e =>
      have h1 : convertFrames ur (some r) cs ra ca p K s L = ⟨[.cc ur cs ra ca p] ++ .exit e.id :: K, none, push e s, L⟩ := by
        simp [convertFrames, hr]
      have h2 : convertW ur (some r) (bodyOf cs ra ca p) s = withEntry e (convertedCall ur (bodyOf cs ra ca p)) s := by
        simp [convertW, hr]
      rw [h1, h2]
      exact sim_withEntry e _ _ (sim_cc ur cs ra ca p hb) K s L

/-- Calling a node that is not an `internalConvert`. -/
theorem sim_call_basic (k : Kind) (cs : List Tree) (ra : Option Nat) (ca : Bool) (p : Path)
    (hb : Sim (bodyFrames cs ra ca p) (bodyOf cs ra ca p))
    (hk : ∀ r cbd ur, k ≠ .internalConvert r cbd ur) :
    Sim [.call (.node k cs ra ca) p] (wrap k (bodyOf cs ra ca p)) := by
  intro K s L
  refine Reach.head (step_call k cs ra ca p K s L) ?_
  cases k with
  | plain => exact hb K s L
  | doNotConvert => exact sim_freshFrames _ _ _ hb K s L
  | unspecified => exact sim_freshFrames _ _ _ hb K s L
  | withCtx st => exact sim_freshFrames _ _ _ hb K s L
  | functionScope ur =>
    cases ur
    · exact hb K s L
    · exact sim_freshFrames _ _ _ hb K s L
  | convert ur c => exact sim_convertW ur c cs ra ca p hb K s L
  | internalConvert r cbd ur => exact absurd rfl (hk r cbd ur)

theorem resolveInternal_basic (e : Entry) (cbd ur : Bool) : ∀ r cbd' ur', resolveInternal e cbd ur ≠ .internalConvert r cbd' ur' := by
  intro r cbd' ur'
  unfold resolveInternal
  cases e.status <;> cases cbd <;> simp

theorem wrap_internal (r : CtxRef) (cbd ur : Bool) (b : Comp) (s : TState) (e : Entry) (hr : r.get s.stack = some e) :
    wrap (.internalConvert r cbd ur) b s = wrap (resolveInternal e cbd ur) b s := by
  cases hs : e.status <;> cases cbd <;> simp [wrap, resolveInternal, hr, hs]

theorem sim_call (k : Kind) (cs : List Tree) (ra : Option Nat) (ca : Bool) (p : Path)
    (hb : Sim (bodyFrames cs ra ca p) (bodyOf cs ra ca p)) :
    Sim [.call (.node k cs ra ca) p] (wrap k (bodyOf cs ra ca p)) := by
  cases k with
  | internalConvert r cbd ur =>
    intro K s L
    refine Reach.head (step_call _ cs ra ca p K s L) ?_
    cases hr : r.get s.stack with
    | none =>
      have h1 : callStep (.internalConvert r cbd ur) cs ra ca p K s L = ⟨K, some .index, s, L⟩ := by simp [callStep, hr]
      have h2 : wrap (.internalConvert r cbd ur) (bodyOf cs ra ca p) s = ⟨s, some .index, []⟩ := by simp [wrap, hr]
      rw [h1, h2]; simp; exact Reach.refl _
    | some e =>
      have h1 : callStep (.internalConvert r cbd ur) cs ra ca p K s L
          = ⟨[.call (.node (resolveInternal e cbd ur) cs ra ca) p] ++ K, none, s, L⟩ := by simp [callStep, hr]
      rw [h1, wrap_internal r cbd ur _ s e hr]
      exact sim_call_basic _ cs ra ca p hb (resolveInternal_basic e cbd ur) K s L
  | plain => exact sim_call_basic _ cs ra ca p hb (by intros; simp)
  | doNotConvert => exact sim_call_basic _ cs ra ca p hb (by intros; simp)
  | unspecified => exact sim_call_basic _ cs ra ca p hb (by intros; simp)
  | withCtx st => exact sim_call_basic _ cs ra ca p hb (by intros; simp)
  | functionScope ur => exact sim_call_basic _ cs ra ca p hb (by intros; simp)
  | convert ur c => exact sim_call_basic _ cs ra ca p hb (by intros; simp)

mutual
theorem runNode_sim : ∀ (t : Tree) (p : Path), Sim [.call t p] (runNode t p)
  | .node k cs ra ca, p => by
    have := sim_call k cs ra ca p (sim_body cs ra ca p (runKids_sim cs p 0 ra))
    simpa [runNode, bodyOf] using this
theorem runKids_sim : ∀ (cs : List Tree) (p : Path) (i : Nat) (ra : Option Nat), Sim [.kids cs p i ra] (runKids cs p i ra)
  | [], p, i, ra => by
    intro K s L
    by_cases h : ra = some i
    · refine Reach.one ?_
      simp [step, stepOk, runKids, h]
    · refine Reach.one ?_
      simp [step, stepOk, runKids, h]
  | c :: cs, p, i, ra => by
    intro K s L
    by_cases h : ra = some i
    · refine Reach.one ?_
      simp [step, stepOk, runKids, h]
    · refine Reach.head (b := ⟨[.call c (i :: p)] ++ .post p i :: .kids cs p (i + 1) ra :: K, none, s, L ++ [obsAt p (.pre i) s]⟩)
        (by simp [step, stepOk, h]) ?_
      refine Reach.trans (runNode_sim c (i :: p) _ s _) ?_
      simp only [runKids, h, if_false]
      cases ho : (runNode c (i :: p) s).out with
      | none =>
        refine Reach.head (b := ⟨[.kids cs p (i + 1) ra] ++ K, none, (runNode c (i :: p) s).st, _⟩) rfl ?_
        refine Reach.trans (runKids_sim cs p (i + 1) ra K _ _) ?_
        simp only [List.append_assoc, List.cons_append, List.nil_append]
        exact Reach.refl _
      | some e =>
        refine Reach.head (step_skip_post p i _ e _ _) ?_
        refine Reach.head (step_skip_kids cs p (i + 1) ra K e _ _) ?_
        simp only [List.append_assoc, List.cons_append, List.nil_append]
        exact Reach.refl _
end

theorem runThread_reach (t : Tree) (s : TState) :
    Reach (Cfg.init t s) ⟨[], (runThread t s).out, (runThread t s).st, (runThread t s).log⟩ := by
  refine Reach.head (b := ⟨[.call t [0]] ++ [.fin], none, s, [] ++ [obsAt [] .start s]⟩) rfl ?_
  refine Reach.trans (runNode_sim t [0] [.fin] s _) ?_
  refine Reach.one ?_
  cases ho : (runNode t [0] s).out <;> simp [step, stepOk, stepExc, runThread, ho]

end Malt.Ctx
