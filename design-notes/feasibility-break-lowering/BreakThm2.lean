import Lt.BreakThm
namespace Mini

variable (gen : Nat → Name)

theorem simC_step (X : Ext) (n : Nat)
    (hA : SimA gen X n) (hC : SimC gen X n) : SimC gen X (n+1) := by
  intro cnd b k σ σ' o σ1 hun hcc hcb hag h
  simp only [exec] at h
  obtain ⟨he1, he2⟩ := evalE_agree gen X cnd σ σ' hcc hag
  have henv' := evalE_env X cnd σ'
  rcases hr : evalE X cnd σ with ⟨r, τ⟩
  rcases hr' : evalE X cnd σ' with ⟨r', τ'⟩
  rw [hr, hr'] at he1 he2; simp at he1 he2; subst he1
  rw [hr'] at henv'; simp at henv'
  rw [hr] at h
  cases r with
  | error ex =>
    simp at h; obtain ⟨rfl, rfl⟩ := h
    exact ⟨1, τ', by simp [exec, hr'], he2, fun j _ => by rw [henv']⟩
  | ok v0 =>
    simp only at h
    by_cases hv0 : v0 = 0
    · simp [hv0] at h; obtain ⟨rfl, rfl⟩ := h
      exact ⟨1, τ', by simp [exec, hr', hv0], he2, fun j _ => by rw [henv']⟩
    · rw [if_neg hv0] at h
      cases hb : exec X n b τ with
      | none => simp [hb] at h
      | some rb =>
        obtain ⟨ob, τ1⟩ := rb
        rw [hb] at h
        have hnb : ob ≠ .brk := low_unused gen X n b (gen k) (k+1) τ ob τ1 hun hb
        obtain ⟨m1, τ1', hx1, hag1, _, hfr1⟩ :=
          hA b k (k+1) τ τ' ob τ1 (Nat.lt_succ_self k) hcb he2 hb
        have hframe : ∀ j, j < k → τ1'.env (gen j) = σ'.env (gen j) := by
          intro j hj
          rw [hfr1 j (Nat.lt_succ_of_lt hj) (Or.inl (Nat.ne_of_lt hj)), henv']
        have hcontinue : ob = .normal ∨ ob = .cont →
            exec X n (.while cnd b) τ1 = some (o, σ1) →
            ∃ m σ1', exec X m (.while cnd (low gen (gen k) (k+1) b).1) σ'
              = some (o, σ1') ∧ Agree gen σ1 σ1' ∧
              (∀ j, j < k → σ1'.env (gen j) = σ'.env (gen j)) := by
          intro hob hw
          obtain ⟨m2, σ1', hx2, hag2, hfr2⟩ := hC cnd b k τ1 τ1' o σ1 hun hcc hcb hag1 hw
          refine ⟨max m1 m2 + 1, σ1', ?_, hag2, ?_⟩
          · simp only [exec, hr', if_neg hv0]
            rw [exec_mono X m1 _ _ _ hx1 _ (Nat.le_max_left _ _)]
            rcases hob with h | h <;> subst h <;> simp only [tr] <;>
              exact exec_mono X m2 _ _ _ hx2 _ (Nat.le_max_right _ _)
          · intro j hj; rw [hfr2 j hj, hframe j hj]
        cases ob with
        | normal => exact hcontinue (Or.inl rfl) (by simpa using h)
        | cont => exact hcontinue (Or.inr rfl) (by simpa using h)
        | brk => exact absurd rfl hnb
        | ret rv =>
          simp at h; obtain ⟨rfl, rfl⟩ := h
          exact ⟨m1 + 1, τ1', by simp only [exec, hr', if_neg hv0]; rw [hx1]; simp [tr], hag1, hframe⟩
        | exc ex =>
          simp at h; obtain ⟨rfl, rfl⟩ := h
          exact ⟨m1 + 1, τ1', by simp only [exec, hr', if_neg hv0]; rw [hx1]; simp [tr], hag1, hframe⟩

end Mini
