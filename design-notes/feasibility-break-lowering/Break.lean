import Lt.Lang
namespace Mini

/-- names mentioned by an expression -/
def Expr.vars : Expr → List Name
  | .const _ => []
  | .var x => [x]
  | .not e => e.vars
  | .and a b => a.vars ++ b.vars
  | .lt a b => a.vars ++ b.vars
  | .add a b => a.vars ++ b.vars
  | .call _ a => a.vars

def Stmt.vars : Stmt → List Name
  | .assign x e => x :: e.vars
  | .expr e => e.vars
  | .ite c t e => c.vars ++ t.vars ++ e.vars
  | .while c b => c.vars ++ b.vars
  | .brk => [] | .cont => [] | .pass => []
  | .ret e => e.vars
  | .seq a b => a.vars ++ b.vars

variable (gen : Nat → Name)

/-- break lowering, mirrors BreakTransformer: `cur` is the control variable of the
innermost enclosing loop, `k` the namer counter. Returns (stmt, break_used, counter). -/
def low (cur : Name) (k : Nat) : Stmt → Stmt × Bool × Nat
  | .brk => (.seq (.assign cur (.const 1)) .cont, true, k)
  | .seq a b =>
      let ra := low cur k a
      let rb := low cur ra.2.2 b
      (.seq ra.1 rb.1, ra.2.1 || rb.2.1, rb.2.2)
  | .ite c t e =>
      let rt := low cur k t
      let re := low cur rt.2.2 e
      (.ite c rt.1 re.1, rt.2.1 || re.2.1, re.2.2)
  | .while c b =>
      let v := gen k
      let rb := low v (k+1) b
      if rb.2.1 then
        (.seq (.assign v (.const 0)) (.while (.and (.not (.var v)) c) rb.1), false, rb.2.2)
      else (.while c rb.1, false, rb.2.2)
  | s => (s, false, k)

end Mini
