namespace Mini

abbrev Name := String

inductive Expr where
  | const : Int → Expr
  | var : Name → Expr
  | not : Expr → Expr
  | and : Expr → Expr → Expr
  | lt : Expr → Expr → Expr
  | add : Expr → Expr → Expr
  | call : Name → Expr → Expr      -- external call with one argument: logged
  deriving Repr, DecidableEq

inductive Stmt where
  | assign : Name → Expr → Stmt
  | expr : Expr → Stmt
  | ite : Expr → Stmt → Stmt → Stmt
  | while : Expr → Stmt → Stmt
  | brk : Stmt
  | cont : Stmt
  | ret : Expr → Stmt
  | pass : Stmt
  | seq : Stmt → Stmt → Stmt
  deriving Repr, DecidableEq

structure St where
  env : Name → Option Int
  log : List (Name × Int)

inductive Exc where
  | nameError : Name → Exc
  deriving Repr, DecidableEq

def St.set (σ : St) (x : Name) (v : Int) : St :=
  { σ with env := fun y => if y = x then some v else σ.env y }

/-- external function semantics: arbitrary but fixed -/
structure Ext where
  f : Name → Int → List (Name × Int) → Int

def evalE (X : Ext) : Expr → St → Except Exc Int × St
  | .const n, σ => (.ok n, σ)
  | .var x, σ => match σ.env x with
      | some v => (.ok v, σ)
      | none => (.error (.nameError x), σ)
  | .not e, σ => match evalE X e σ with
      | (.ok v, σ') => (.ok (if v = 0 then 1 else 0), σ')
      | r => r
  | .and a b, σ => match evalE X a σ with
      | (.ok v, σ') => if v = 0 then (.ok v, σ') else evalE X b σ'
      | r => r
  | .lt a b, σ => match evalE X a σ with
      | (.ok v, σ') => (match evalE X b σ' with
          | (.ok w, σ'') => (.ok (if v < w then 1 else 0), σ'')
          | r => r)
      | r => r
  | .add a b, σ => match evalE X a σ with
      | (.ok v, σ') => (match evalE X b σ' with
          | (.ok w, σ'') => (.ok (v + w), σ'')
          | r => r)
      | r => r
  | .call f a, σ => match evalE X a σ with
      | (.ok v, σ') => (.ok (X.f f v σ'.log), { σ' with log := σ'.log ++ [(f, v)] })
      | r => r

inductive Out where
  | normal | brk | cont
  | ret : Int → Out
  | exc : Exc → Out
  deriving Repr, DecidableEq

def exec (X : Ext) : Nat → Stmt → St → Option (Out × St)
  | 0, _, _ => none
  | n+1, s, σ =>
    match s with
    | .assign x e => (match evalE X e σ with
        | (.ok v, σ') => some (.normal, σ'.set x v)
        | (.error ex, σ') => some (.exc ex, σ'))
    | .expr e => (match evalE X e σ with
        | (.ok _, σ') => some (.normal, σ')
        | (.error ex, σ') => some (.exc ex, σ'))
    | .ite c t e => (match evalE X c σ with
        | (.ok v, σ') => if v ≠ 0 then exec X n t σ' else exec X n e σ'
        | (.error ex, σ') => some (.exc ex, σ'))
    | .while c b => (match evalE X c σ with
        | (.ok v, σ') =>
          if v = 0 then some (.normal, σ') else
            (match exec X n b σ' with
             | none => none
             | some (.normal, σ'') => exec X n (.while c b) σ''
             | some (.cont, σ'') => exec X n (.while c b) σ''
             | some (.brk, σ'') => some (.normal, σ'')
             | some r => some r)
        | (.error ex, σ') => some (.exc ex, σ'))
    | .brk => some (.brk, σ)
    | .cont => some (.cont, σ)
    | .ret e => (match evalE X e σ with
        | (.ok v, σ') => some (.ret v, σ')
        | (.error ex, σ') => some (.exc ex, σ'))
    | .pass => some (.normal, σ)
    | .seq a b => (match exec X n a σ with
        | none => none
        | some (.normal, σ') => exec X n b σ'
        | some r => some r)

end Mini
