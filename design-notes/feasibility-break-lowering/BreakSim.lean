import Lt.BreakProof
namespace Mini

variable (gen : Nat → Name)

def Agree (σ σ' : St) : Prop :=
  σ.log = σ'.log ∧ ∀ x, (∀ k, gen k ≠ x) → σ.env x = σ'.env x

def Clean (l : List Name) : Prop := ∀ x ∈ l, ∀ k, gen k ≠ x

theorem Agree.set {σ σ' : St} (h : Agree gen σ σ') (x : Name) (v : Int) :
    Agree gen (σ.set x v) (σ'.set x v) := by
  refine ⟨h.1, ?_⟩
  intro y hy
  simp only [St.set]
  split
  · rfl
  · exact h.2 y hy

theorem Agree.setGen {σ σ' : St} (h : Agree gen σ σ') (k : Nat) (v : Int) :
    Agree gen σ (σ'.set (gen k) v) := by
  refine ⟨h.1, ?_⟩
  intro y hy
  simp only [St.set]
  split
  · rename_i heq; exact absurd heq.symm (hy k)
  · exact h.2 y hy

/-- expression evaluation only depends on non-generated variables -/
theorem evalE_agree (X : Ext) (e : Expr) : ∀ (σ σ' : St), Clean gen e.vars → Agree gen σ σ' →
    (evalE X e σ).1 = (evalE X e σ').1 ∧ Agree gen (evalE X e σ).2 (evalE X e σ').2 := by
  induction e with
  | const n => intro σ σ' _ h; simp [evalE, h]
  | var x =>
    intro σ σ' hc h
    have hx : σ.env x = σ'.env x := h.2 x (hc x (by simp [Expr.vars]))
    simp only [evalE, hx]
    split <;> simp [h]
  | not e ih =>
    intro σ σ' hc h
    obtain ⟨h1, h2⟩ := ih σ σ' hc h
    simp only [evalE]
    rcases hr : evalE X e σ with ⟨r, τ⟩
    rcases hr' : evalE X e σ' with ⟨r', τ'⟩
    rw [hr, hr'] at h1 h2; simp at h1 h2; subst h1
    cases r <;> simp [h2]
  | and a b iha ihb =>
    intro σ σ' hc h
    have hca : Clean gen a.vars := fun x hx => hc x (by simp [Expr.vars, hx])
    have hcb : Clean gen b.vars := fun x hx => hc x (by simp [Expr.vars, hx])
    obtain ⟨h1, h2⟩ := iha σ σ' hca h
    simp only [evalE]
    rcases hr : evalE X a σ with ⟨r, τ⟩
    rcases hr' : evalE X a σ' with ⟨r', τ'⟩
    rw [hr, hr'] at h1 h2; simp at h1 h2; subst h1
    cases r with
    | error ex => simp [h2]
    | ok v =>
      simp only
      split
      · simp [h2]
      · exact ihb τ τ' hcb h2
  | lt a b iha ihb =>
    intro σ σ' hc h
    have hca : Clean gen a.vars := fun x hx => hc x (by simp [Expr.vars, hx])
    have hcb : Clean gen b.vars := fun x hx => hc x (by simp [Expr.vars, hx])
    obtain ⟨h1, h2⟩ := iha σ σ' hca h
    simp only [evalE]
    rcases hr : evalE X a σ with ⟨r, τ⟩
    rcases hr' : evalE X a σ' with ⟨r', τ'⟩
    rw [hr, hr'] at h1 h2; simp at h1 h2; subst h1
    cases r with
    | error ex => simp [h2]
    | ok v =>
      obtain ⟨g1, g2⟩ := ihb τ τ' hcb h2
      simp only
      rcases hs : evalE X b τ with ⟨s, υ⟩
      rcases hs' : evalE X b τ' with ⟨s', υ'⟩
      rw [hs, hs'] at g1 g2; simp at g1 g2; subst g1
      cases s <;> simp [g2]
  | add a b iha ihb =>
    intro σ σ' hc h
    have hca : Clean gen a.vars := fun x hx => hc x (by simp [Expr.vars, hx])
    have hcb : Clean gen b.vars := fun x hx => hc x (by simp [Expr.vars, hx])
    obtain ⟨h1, h2⟩ := iha σ σ' hca h
    simp only [evalE]
    rcases hr : evalE X a σ with ⟨r, τ⟩
    rcases hr' : evalE X a σ' with ⟨r', τ'⟩
    rw [hr, hr'] at h1 h2; simp at h1 h2; subst h1
    cases r with
    | error ex => simp [h2]
    | ok v =>
      obtain ⟨g1, g2⟩ := ihb τ τ' hcb h2
      simp only
      rcases hs : evalE X b τ with ⟨s, υ⟩
      rcases hs' : evalE X b τ' with ⟨s', υ'⟩
      rw [hs, hs'] at g1 g2; simp at g1 g2; subst g1
      cases s <;> simp [g2]
  | call f a ih =>
    intro σ σ' hc h
    obtain ⟨h1, h2⟩ := ih σ σ' hc h
    simp only [evalE]
    rcases hr : evalE X a σ with ⟨r, τ⟩
    rcases hr' : evalE X a σ' with ⟨r', τ'⟩
    rw [hr, hr'] at h1 h2; simp at h1 h2; subst h1
    cases r with
    | error ex => simp [h2]
    | ok v =>
      simp only
      refine ⟨by rw [h2.1], ?_, h2.2⟩
      simp [h2.1]

end Mini
