import Lt.BreakThm2
namespace Mini

variable (gen : Nat → Name)

theorem clean_sub {l l' : List Name} (h : Clean gen l) (hs : ∀ x ∈ l', x ∈ l) : Clean gen l' :=
  fun x hx => h x (hs x hx)

theorem simA_step (X : Ext) (inj : ∀ i j, gen i = gen j → i = j) (n : Nat)
    (hA : SimA gen X n) (hB1 : SimB gen X (n+1)) (hC1 : SimC gen X (n+1)) : SimA gen X (n+1) := by
  intro s c k σ σ' o σ1 hck hcl hag h
  cases s with
  | pass =>
    simp [exec] at h; obtain ⟨rfl, rfl⟩ := h
    exact ⟨1, σ', by simp [exec, low], hag, by simp, fun j _ _ => rfl⟩
  | cont =>
    simp [exec] at h; obtain ⟨rfl, rfl⟩ := h
    exact ⟨1, σ', by simp [exec, low], hag, by simp, fun j _ _ => rfl⟩
  | brk =>
    simp [exec] at h; obtain ⟨rfl, rfl⟩ := h
    refine ⟨3, σ'.set (gen c) 1, by simp [exec, low, evalE], Agree.setGen gen hag c 1, ?_, ?_⟩
    · intro _; exact St.set_env_eq _ _ _
    · intro j _ hj
      rcases hj with hj | hj
      · exact St.set_env_ne _ _ (fun he => hj (inj _ _ he))
      · exact absurd rfl hj
  | assign x e =>
    have hce : Clean gen e.vars := clean_sub gen hcl (by intro y hy; simp [Stmt.vars, hy])
    have hx : ∀ j, gen j ≠ x := hcl x (by simp [Stmt.vars])
    obtain ⟨he1, he2⟩ := evalE_agree gen X e σ σ' hce hag
    have henv' := evalE_env X e σ'
    simp only [exec] at h
    rcases hr : evalE X e σ with ⟨r, τ⟩
    rcases hr' : evalE X e σ' with ⟨r', τ'⟩
    rw [hr, hr'] at he1 he2; simp at he1 he2; subst he1
    rw [hr'] at henv'; simp at henv'
    rw [hr] at h
    cases r with
    | error ex =>
      simp at h; obtain ⟨rfl, rfl⟩ := h
      exact ⟨1, τ', by simp [exec, low, hr'], he2, by simp, fun j _ _ => by rw [henv']⟩
    | ok v =>
      simp at h; obtain ⟨rfl, rfl⟩ := h
      refine ⟨1, τ'.set x v, by simp [exec, low, hr'], Agree.set gen he2 x v, by simp, ?_⟩
      intro j _ _
      rw [St.set_env_ne _ _ (hx j), henv']
  | expr e =>
    have hce : Clean gen e.vars := clean_sub gen hcl (by intro y hy; simp [Stmt.vars, hy])
    obtain ⟨he1, he2⟩ := evalE_agree gen X e σ σ' hce hag
    have henv' := evalE_env X e σ'
    simp only [exec] at h
    rcases hr : evalE X e σ with ⟨r, τ⟩
    rcases hr' : evalE X e σ' with ⟨r', τ'⟩
    rw [hr, hr'] at he1 he2; simp at he1 he2; subst he1
    rw [hr'] at henv'; simp at henv'
    rw [hr] at h
    cases r with
    | error ex =>
      simp at h; obtain ⟨rfl, rfl⟩ := h
      exact ⟨1, τ', by simp [exec, low, hr'], he2, by simp, fun j _ _ => by rw [henv']⟩
    | ok v =>
      simp at h; obtain ⟨rfl, rfl⟩ := h
      exact ⟨1, τ', by simp [exec, low, hr'], he2, by simp, fun j _ _ => by rw [henv']⟩
  | ret e =>
    have hce : Clean gen e.vars := clean_sub gen hcl (by intro y hy; simp [Stmt.vars, hy])
    obtain ⟨he1, he2⟩ := evalE_agree gen X e σ σ' hce hag
    have henv' := evalE_env X e σ'
    simp only [exec] at h
    rcases hr : evalE X e σ with ⟨r, τ⟩
    rcases hr' : evalE X e σ' with ⟨r', τ'⟩
    rw [hr, hr'] at he1 he2; simp at he1 he2; subst he1
    rw [hr'] at henv'; simp at henv'
    rw [hr] at h
    cases r with
    | error ex =>
      simp at h; obtain ⟨rfl, rfl⟩ := h
      exact ⟨1, τ', by simp [exec, low, hr'], he2, by simp, fun j _ _ => by rw [henv']⟩
    | ok v =>
      simp at h; obtain ⟨rfl, rfl⟩ := h
      exact ⟨1, τ', by simp [exec, low, hr'], he2, by simp, fun j _ _ => by rw [henv']⟩
  | seq a b =>
    have hca : Clean gen a.vars := clean_sub gen hcl (by intro y hy; simp [Stmt.vars, hy])
    have hcb : Clean gen b.vars := clean_sub gen hcl (by intro y hy; simp [Stmt.vars, hy])
    simp only [exec] at h
    cases ha : exec X n a σ with
    | none => simp [ha] at h
    | some ra =>
      obtain ⟨oa, τ⟩ := ra
      rw [ha] at h
      obtain ⟨m1, τ', hx1, hag1, hbrk1, hfr1⟩ := hA a c k σ σ' oa τ hck hca hag ha
      have hk1 : k ≤ (low gen (gen c) k a).2.2 := low_counter gen _ _ _
      by_cases hoa : oa = .normal
      · subst hoa
        simp at h
        obtain ⟨m2, σ1', hx2, hag2, hbrk2, hfr2⟩ :=
          hA b c (low gen (gen c) k a).2.2 τ τ' o σ1 (Nat.lt_of_lt_of_le hck hk1) hcb hag1 h
        refine ⟨max m1 m2 + 1, σ1', ?_, hag2, hbrk2, ?_⟩
        · simp only [low, exec]
          rw [exec_mono X m1 _ _ _ hx1 _ (Nat.le_max_left _ _)]
          simp only [tr]
          exact exec_mono X m2 _ _ _ hx2 _ (Nat.le_max_right _ _)
        · intro j hj hjc
          rw [hfr2 j (Nat.lt_of_lt_of_le hj hk1) hjc, hfr1 j hj (Or.inr (by simp))]
      · have hres : o = oa ∧ σ1 = τ := by
          cases oa <;> simp_all
        obtain ⟨rfl, rfl⟩ := hres
        refine ⟨m1 + 1, τ', ?_, hag1, hbrk1, hfr1⟩
        simp only [low, exec]
        rw [hx1]
        have := tr_ne_normal hoa
        cases o <;> simp_all [tr]
  | ite cnd t e =>
    have hcc : Clean gen cnd.vars := clean_sub gen hcl (by intro y hy; simp [Stmt.vars, hy])
    have hct : Clean gen t.vars := clean_sub gen hcl (by intro y hy; simp [Stmt.vars, hy])
    have hce : Clean gen e.vars := clean_sub gen hcl (by intro y hy; simp [Stmt.vars, hy])
    obtain ⟨he1, he2⟩ := evalE_agree gen X cnd σ σ' hcc hag
    have henv' := evalE_env X cnd σ'
    simp only [exec] at h
    rcases hr : evalE X cnd σ with ⟨r, τ⟩
    rcases hr' : evalE X cnd σ' with ⟨r', τ'⟩
    rw [hr, hr'] at he1 he2; simp at he1 he2; subst he1
    rw [hr'] at henv'; simp at henv'
    rw [hr] at h
    have hk1 : k ≤ (low gen (gen c) k t).2.2 := low_counter gen _ _ _
    cases r with
    | error ex =>
      simp at h; obtain ⟨rfl, rfl⟩ := h
      exact ⟨1, τ', by simp [exec, low, hr'], he2, by simp, fun j _ _ => by rw [henv']⟩
    | ok v =>
      simp only at h
      by_cases hv : v ≠ 0
      · rw [if_pos hv] at h
        obtain ⟨m, σ1', hx, hag1, hbrk1, hfr1⟩ := hA t c k τ τ' o σ1 hck hct he2 h
        refine ⟨m + 1, σ1', ?_, hag1, hbrk1, ?_⟩
        · simp only [low, exec, hr', if_pos hv]; exact hx
        · intro j hj hjc; rw [hfr1 j hj hjc, henv']
      · rw [if_neg hv] at h
        obtain ⟨m, σ1', hx, hag1, hbrk1, hfr1⟩ :=
          hA e c (low gen (gen c) k t).2.2 τ τ' o σ1 (Nat.lt_of_lt_of_le hck hk1) hce he2 h
        refine ⟨m + 1, σ1', ?_, hag1, hbrk1, ?_⟩
        · simp only [low, exec, hr', if_neg hv]; exact hx
        · intro j hj hjc; rw [hfr1 j (Nat.lt_of_lt_of_le hj hk1) hjc, henv']
  | «while» cnd b =>
    have hcc : Clean gen cnd.vars := clean_sub gen hcl (by intro y hy; simp [Stmt.vars, hy])
    have hcb : Clean gen b.vars := clean_sub gen hcl (by intro y hy; simp [Stmt.vars, hy])
    have hob : o ≠ .brk :=
      low_unused gen X (n+1) (.while cnd b) (gen c) k σ o σ1 (by simp only [low]; split <;> rfl) h
    by_cases hu : (low gen (gen k) (k+1) b).2.1 = true
    · -- break used: flag initialisation followed by the guarded loop
      have hag0 : Agree gen σ (σ'.set (gen k) 0) := Agree.setGen gen hag k 0
      obtain ⟨m, σ1', hx, hag1, hfr⟩ :=
        hB1 cnd b k σ (σ'.set (gen k) 0) o σ1 hcc hcb hag0 (St.set_env_eq _ _ _) h
      refine ⟨m + 2, σ1', ?_, hag1, fun hb => absurd hb hob, ?_⟩
      · simp only [low, hu, if_true]
        have : tr o = o := by cases o <;> simp_all [tr]
        rw [this]
        simp only [exec, evalE]
        exact exec_mono X m _ _ _ hx _ (Nat.le_succ m)
      · intro j hj _
        rw [hfr j hj]
        exact St.set_env_ne _ _ (fun he => Nat.ne_of_lt hj (inj _ _ he))
    · have hu' : (low gen (gen k) (k+1) b).2.1 = false := by simpa using hu
      obtain ⟨m, σ1', hx, hag1, hfr⟩ := hC1 cnd b k σ σ' o σ1 hu' hcc hcb hag h
      refine ⟨m, σ1', ?_, hag1, fun hb => absurd hb hob, fun j hj _ => hfr j hj⟩
      simp only [low, hu', Bool.false_eq_true, if_false]
      have : tr o = o := by cases o <;> simp_all [tr]
      rw [this]; exact hx

/-- all three simulation statements hold at every fuel -/
theorem sim_all (X : Ext) (inj : ∀ i j, gen i = gen j → i = j) :
    ∀ n, SimA gen X n ∧ SimB gen X n ∧ SimC gen X n := by
  intro n
  induction n with
  | zero =>
    refine ⟨?_, ?_, ?_⟩
    · intro s c k σ σ' o σ1 _ _ _ h; simp [exec] at h
    · intro cnd b k σ σ' o σ1 _ _ _ _ h; simp [exec] at h
    · intro cnd b k σ σ' o σ1 _ _ _ _ h; simp [exec] at h
  | succ n ih =>
    obtain ⟨hA, hB, hC⟩ := ih
    have hB1 := simB_step gen X inj n hA hB
    have hC1 := simC_step gen X n hA hC
    exact ⟨simA_step gen X inj n hA hB1 hC1, hB1, hC1⟩

/-- Top-level: a function body (no `break` outside loops ⇒ outcome is never brk) lowered with any
control variable behaves identically on all non-generated variables and on the call log. -/
theorem low_correct (X : Ext) (inj : ∀ i j, gen i = gen j → i = j)
    (s : Stmt) (hcl : Clean gen s.vars) (σ : St) (n : Nat) (o : Out) (σ1 : St)
    (h : exec X n s σ = some (o, σ1)) (ho : o ≠ .brk) :
    ∃ m σ1', exec X m (low gen (gen 0) 1 s).1 σ = some (o, σ1') ∧ Agree gen σ1 σ1' := by
  obtain ⟨m, σ1', hx, hag, _, _⟩ :=
    (sim_all gen X inj n).1 s 0 1 σ σ o σ1 (by omega) hcl ⟨rfl, fun _ _ => rfl⟩ h
  refine ⟨m, σ1', ?_, hag⟩
  have : tr o = o := by cases o <;> simp_all [tr]
  rw [← this]; exact hx

end Mini
