import Lt.BreakSim
namespace Mini

variable (gen : Nat → Name)

theorem low_counter (cur : Name) (k : Nat) (s : Stmt) : k ≤ (low gen cur k s).2.2 := by
  induction s generalizing cur k with
  | seq a b iha ihb => simp only [low]; exact Nat.le_trans (iha cur k) (ihb cur _)
  | ite c t e iht ihe => simp only [low]; exact Nat.le_trans (iht cur k) (ihe cur _)
  | «while» c b ih =>
    simp only [low]
    split <;> exact Nat.le_trans (Nat.le_succ k) (ih _ _)
  | _ => simp [low]

/-- if lowering reports "break unused", the statement cannot complete with `brk` -/
theorem low_unused (X : Ext) : ∀ (n : Nat) (s : Stmt) (cur : Name) (k : Nat) (σ : St) (o : Out) (σ1 : St),
    (low gen cur k s).2.1 = false → exec X n s σ = some (o, σ1) → o ≠ .brk := by
  intro n
  induction n with
  | zero => intro s cur k σ o σ1 _ h; simp [exec] at h
  | succ n ih =>
    intro s cur k σ o σ1 hu h
    cases s with
    | brk => simp [low] at hu
    | assign x e => simp only [exec] at h; split at h <;> simp at h <;> simp [← h.1]
    | expr e => simp only [exec] at h; split at h <;> simp at h <;> simp [← h.1]
    | ret e => simp only [exec] at h; split at h <;> simp at h <;> simp [← h.1]
    | cont => simp [exec] at h; simp [← h.1]
    | pass => simp [exec] at h; simp [← h.1]
    | ite c t e =>
      simp only [low, Bool.or_eq_false_iff] at hu
      simp only [exec] at h
      split at h
      · split at h
        · exact ih _ _ _ _ _ _ hu.1 h
        · exact ih _ _ _ _ _ _ hu.2 h
      · simp at h; simp [← h.1]
    | seq a b =>
      simp only [low, Bool.or_eq_false_iff] at hu
      simp only [exec] at h
      split at h
      · simp at h
      · exact ih _ _ _ _ _ _ hu.2 h
      · rename_i r hne ha
        simp at h; subst h
        exact ih _ _ _ _ _ _ hu.1 ha
    | «while» c b =>
      simp only [exec] at h
      split at h
      · split at h
        · simp at h; simp [← h.1]
        · split at h
          · simp at h
          · exact ih (.while c b) cur k _ _ _ (by simp only [low]; split <;> rfl) h
          · exact ih (.while c b) cur k _ _ _ (by simp only [low]; split <;> rfl) h
          · simp at h; simp [← h.1]
          · rename_i r h1 h2 h3 hb
            simp at h; subst h
            intro hbrk; subst hbrk
            exact h3 _ rfl
      · simp at h; simp [← h.1]

end Mini
