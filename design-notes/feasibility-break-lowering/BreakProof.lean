import Lt.Break
namespace Mini

theorem evalE_env (X : Ext) (e : Expr) (σ : St) : (evalE X e σ).2.env = σ.env := by
  induction e generalizing σ with
  | const n => simp [evalE]
  | var x => simp only [evalE]; split <;> rfl
  | not e ih =>
    simp only [evalE]; have := ih σ
    split <;> simp_all
  | and a b iha ihb =>
    simp only [evalE]; have ha := iha σ
    split
    · rename_i v σ' h; rw [h] at ha; simp at ha
      split
      · simpa using ha
      · rw [ihb]; exact ha
    · rename_i r h; exact ha
  | lt a b iha ihb =>
    simp only [evalE]; have ha := iha σ
    split
    · rename_i v σ' h; rw [h] at ha; simp at ha
      have hb := ihb σ'
      split
      · rename_i w σ'' h2; rw [h2] at hb; simp at hb; simp [hb, ha]
      · rw [hb]; exact ha
    · exact ha
  | add a b iha ihb =>
    simp only [evalE]; have ha := iha σ
    split
    · rename_i v σ' h; rw [h] at ha; simp at ha
      have hb := ihb σ'
      split
      · rename_i w σ'' h2; rw [h2] at hb; simp at hb; simp [hb, ha]
      · rw [hb]; exact ha
    · exact ha
  | call f a ih =>
    simp only [evalE]; have ha := ih σ
    split
    · rename_i v σ' h; rw [h] at ha; simp at ha; simpa using ha
    · exact ha

theorem exec_mono (X : Ext) : ∀ (n : Nat) (s : Stmt) (σ : St) (r : Out × St),
    exec X n s σ = some r → ∀ m, n ≤ m → exec X m s σ = some r := by
  intro n
  induction n with
  | zero => intro s σ r h; simp [exec] at h
  | succ n ih =>
    intro s σ r h m hm
    obtain ⟨m', rfl⟩ : ∃ m', m = m' + 1 := ⟨m - 1, by omega⟩
    have hnm : n ≤ m' := by omega
    cases s with
    | assign x e => simpa [exec] using h
    | expr e => simpa [exec] using h
    | brk => simpa [exec] using h
    | cont => simpa [exec] using h
    | pass => simpa [exec] using h
    | ret e => simpa [exec] using h
    | ite c t e =>
      simp only [exec] at h ⊢
      split at h
      · rename_i v σ' hc
        split at h
        · rw [if_pos (by assumption)]; exact ih _ _ _ h _ hnm
        · rw [if_neg (by assumption)]; exact ih _ _ _ h _ hnm
      · exact h
    | seq a b =>
      simp only [exec] at h ⊢
      split at h
      · simp at h
      · rename_i σ' ha; rw [ih _ _ _ ha _ hnm]; exact ih _ _ _ h _ hnm
      · rename_i r' hne ha
        rw [ih _ _ _ ha _ hnm]
        obtain ⟨o, σ''⟩ := r'
        cases o <;> simp at hne h ⊢ <;> exact h
    | «while» c b =>
      simp only [exec] at h ⊢
      split at h
      · rename_i v σ' hc
        split at h
        · rw [if_pos (by assumption)]; exact h
        · rw [if_neg (by assumption)]
          cases hb : exec X n b σ' with
          | none => simp [hb] at h
          | some rb =>
            rw [ih _ _ _ hb _ hnm]
            rw [hb] at h
            obtain ⟨o, σ''⟩ := rb
            cases o <;> simp at h ⊢ <;> first | exact ih _ _ _ h _ hnm | exact h
      · exact h

end Mini
