import Lt.BreakMain
namespace Mini

variable (gen : Nat → Name)

def tr : Out → Out
  | .brk => .cont
  | o => o

@[simp] theorem tr_normal : tr .normal = .normal := rfl
@[simp] theorem tr_cont : tr .cont = .cont := rfl
@[simp] theorem tr_brk : tr .brk = .cont := rfl
@[simp] theorem tr_ret (v) : tr (.ret v) = .ret v := rfl
@[simp] theorem tr_exc (e) : tr (.exc e) = .exc e := rfl

theorem tr_ne_normal {o : Out} (h : o ≠ .normal) : tr o ≠ .normal := by
  cases o <;> simp_all [tr]

def SimA (X : Ext) (n : Nat) : Prop :=
  ∀ (s : Stmt) (c k : Nat) (σ σ' : St) (o : Out) (σ1 : St),
    c < k → Clean gen s.vars → Agree gen σ σ' → exec X n s σ = some (o, σ1) →
    ∃ m σ1', exec X m (low gen (gen c) k s).1 σ' = some (tr o, σ1') ∧ Agree gen σ1 σ1' ∧
      (o = .brk → σ1'.env (gen c) = some 1) ∧
      (∀ j, j < k → (j ≠ c ∨ o ≠ .brk) → σ1'.env (gen j) = σ'.env (gen j))

def SimB (X : Ext) (n : Nat) : Prop :=
  ∀ (cnd : Expr) (b : Stmt) (k : Nat) (σ σ' : St) (o : Out) (σ1 : St),
    Clean gen cnd.vars → Clean gen b.vars → Agree gen σ σ' → σ'.env (gen k) = some 0 →
    exec X n (.while cnd b) σ = some (o, σ1) →
    ∃ m σ1', exec X m (.while (.and (.not (.var (gen k))) cnd) (low gen (gen k) (k+1) b).1) σ'
        = some (o, σ1') ∧ Agree gen σ1 σ1' ∧
      (∀ j, j < k → σ1'.env (gen j) = σ'.env (gen j))

def SimC (X : Ext) (n : Nat) : Prop :=
  ∀ (cnd : Expr) (b : Stmt) (k : Nat) (σ σ' : St) (o : Out) (σ1 : St),
    (low gen (gen k) (k+1) b).2.1 = false →
    Clean gen cnd.vars → Clean gen b.vars → Agree gen σ σ' →
    exec X n (.while cnd b) σ = some (o, σ1) →
    ∃ m σ1', exec X m (.while cnd (low gen (gen k) (k+1) b).1) σ'
        = some (o, σ1') ∧ Agree gen σ1 σ1' ∧
      (∀ j, j < k → σ1'.env (gen j) = σ'.env (gen j))

theorem St.set_env_ne (σ : St) {x y : Name} (v : Int) (h : y ≠ x) : (σ.set x v).env y = σ.env y := by
  simp [St.set, h]

theorem St.set_env_eq (σ : St) (x : Name) (v : Int) : (σ.set x v).env x = some v := by
  simp [St.set]

/-- evaluation of the guarded loop test when the flag is 0 -/
theorem eval_guard_zero (X : Ext) (v : Name) (cnd : Expr) (σ : St) (h : σ.env v = some 0) :
    evalE X (.and (.not (.var v)) cnd) σ = evalE X cnd σ := by
  simp [evalE, h]

theorem eval_guard_one (X : Ext) (v : Name) (cnd : Expr) (σ : St) (h : σ.env v = some 1) :
    evalE X (.and (.not (.var v)) cnd) σ = (.ok 0, σ) := by
  simp [evalE, h]

theorem simB_step (X : Ext) (inj : ∀ i j, gen i = gen j → i = j) (n : Nat)
    (hA : SimA gen X n) (hB : SimB gen X n) : SimB gen X (n+1) := by
  intro cnd b k σ σ' o σ1 hcc hcb hag hv h
  simp only [exec] at h
  obtain ⟨he1, he2⟩ := evalE_agree gen X cnd σ σ' hcc hag
  have henv' := evalE_env X cnd σ'
  rcases hr : evalE X cnd σ with ⟨r, τ⟩
  rcases hr' : evalE X cnd σ' with ⟨r', τ'⟩
  rw [hr, hr'] at he1 he2; simp at he1 he2; subst he1
  rw [hr'] at henv'; simp at henv'
  rw [hr] at h
  cases r with
  | error ex =>
    simp at h
    refine ⟨1, τ', ?_, ?_, ?_⟩
    · simp [exec, eval_guard_zero X _ cnd σ' hv, hr', h.1]
    · rw [← h.2]; exact he2
    · intro j _; rw [henv']
  | ok v0 =>
    simp only at h
    by_cases hv0 : v0 = 0
    · simp [hv0] at h
      refine ⟨1, τ', ?_, ?_, ?_⟩
      · simp [exec, eval_guard_zero X _ cnd σ' hv, hr', hv0, h.1]
      · rw [← h.2]; exact he2
      · intro j _; rw [henv']
    · rw [if_neg hv0] at h
      cases hb : exec X n b τ with
      | none => simp [hb] at h
      | some rb =>
        obtain ⟨ob, τ1⟩ := rb
        rw [hb] at h
        obtain ⟨m1, τ1', hx1, hag1, hbrk1, hfr1⟩ :=
          hA b k (k+1) τ τ' ob τ1 (Nat.lt_succ_self k) hcb he2 hb
        have hflag : ob ≠ .brk → τ1'.env (gen k) = some 0 := by
          intro hne
          rw [hfr1 k (Nat.lt_succ_self k) (Or.inr hne), henv', hv]
        have hframe : ∀ j, j < k → τ1'.env (gen j) = σ'.env (gen j) := by
          intro j hj
          rw [hfr1 j (Nat.lt_succ_of_lt hj) (Or.inl (Nat.ne_of_lt hj)), henv']
        -- continuing iterations
        have hcontinue : ob = .normal ∨ ob = .cont →
            exec X n (.while cnd b) τ1 = some (o, σ1) →
            ∃ m σ1', exec X m (.while (.and (.not (.var (gen k))) cnd) (low gen (gen k) (k+1) b).1) σ'
              = some (o, σ1') ∧ Agree gen σ1 σ1' ∧
              (∀ j, j < k → σ1'.env (gen j) = σ'.env (gen j)) := by
          intro hob hw
          have hne : ob ≠ .brk := by rcases hob with h | h <;> simp [h]
          obtain ⟨m2, σ1', hx2, hag2, hfr2⟩ := hB cnd b k τ1 τ1' o σ1 hcc hcb hag1 (hflag hne) hw
          refine ⟨max m1 m2 + 1, σ1', ?_, hag2, ?_⟩
          · simp only [exec, eval_guard_zero X _ cnd σ' hv, hr', if_neg hv0]
            rw [exec_mono X m1 _ _ _ hx1 _ (Nat.le_max_left _ _)]
            rcases hob with h | h <;> subst h <;> simp only [tr] <;>
              exact exec_mono X m2 _ _ _ hx2 _ (Nat.le_max_right _ _)
          · intro j hj; rw [hfr2 j hj, hframe j hj]
        cases ob with
        | normal => exact hcontinue (Or.inl rfl) (by simpa using h)
        | cont => exact hcontinue (Or.inr rfl) (by simpa using h)
        | brk =>
          simp at h
          have hone := hbrk1 rfl
          refine ⟨m1 + 1, τ1', ?_, ?_, hframe⟩
          · simp only [exec, eval_guard_zero X _ cnd σ' hv, hr', if_neg hv0]
            rw [hx1]; simp only [tr]
            cases m1 with
            | zero => simp [exec] at hx1
            | succ m1' =>
              simp [exec, eval_guard_one X _ cnd τ1' hone, h.1]
          · rw [← h.2]; exact hag1
        | ret rv =>
          simp at h
          obtain ⟨rfl, rfl⟩ := h
          refine ⟨m1 + 1, τ1', ?_, hag1, hframe⟩
          · simp only [exec, eval_guard_zero X _ cnd σ' hv, hr', if_neg hv0]
            rw [hx1]; simp [tr]
        | exc ex =>
          simp at h
          obtain ⟨rfl, rfl⟩ := h
          refine ⟨m1 + 1, τ1', ?_, hag1, hframe⟩
          · simp only [exec, eval_guard_zero X _ cnd σ' hv, hr', if_neg hv0]
            rw [hx1]; simp [tr]

end Mini
