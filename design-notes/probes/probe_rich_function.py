import malt, contextlib
LOG=[]
def tr(*a): LOG.append(a); return a[0] if a else None
@contextlib.contextmanager
def cm(x):
    tr('enter',x)
    try: yield x
    finally: tr('exit',x)
G = 0
def f(n, xs):
    global G
    acc = []
    def inner(k):
        nonlocal acc
        acc = acc + [k]
        return k * 2
    lam = lambda z: z + 1 if z > 0 else -z
    with cm(n) as c:
        for a, b in xs:
            try:
                if a > b:
                    raise ValueError("x")
                G += inner(a)
            except ValueError:
                tr('caught', a)
                continue
            finally:
                tr('fin', a)
            while a < 3:
                a += 1
                if a == 2: break
            else_ = [q * 2 for q in range(a) if q % 2 == 0]
            tr(else_, lam(b))
            d = {'k': a}
            d['k'] += 1
            del d['k']
            t = a if a > 1 else (b and tr('and'))
    return acc, G, c
print(f(2, [(1,2),(3,1),(0,5)]), LOG)
LOG.clear(); G=0
g = malt.to_graph(f)
print(g(2, [(1,2),(3,1),(0,5)]), LOG)
