import malt, traceback, sys
from malt.impl import api
class MyErr(Exception):
    def __init__(self, a, b):
        super().__init__(a); self.b=b
def h(x):
    if x > 1:
        raise KeyError("k%d" % x)
    return x
def f(x):
    y = 0
    for i in range(x):
        y += h(i)
    return y
w = malt.convert(recursive=True)(f)
try:
    w(5)
except Exception as e:
    print(type(e), repr(str(e))[:400])
    md = e.ag_error_metadata
    for fr in md.translated_stack: print(fr)
try:
    f(5)
except Exception as e:
    for fr in traceback.extract_tb(e.__traceback__): print(tuple(fr))
# C04 nested ifexp
def g(a,b):
    return (1 if a else (2 if b else 3))
print(malt.to_code(g))
