import malt, types, functools, warnings, inspect, sys
from malt.impl import api, conversion
from malt.core import ag_ctx, converter
from malt.operators import variables
def probe(name, fn):
    try: print(name, '=>', fn())
    except Exception as e: print(name, 'EXC', type(e).__name__, str(e)[:160].replace('\n',' | '))

# C03: instrumented if_stmt that does set_state(get_state())
calls=[]
def make_ag():
    tr = api._TRANSPILER
    ag = tr.get_extra_locals()['ag__']
    return ag
ag = make_ag()
orig_if = ag.if_stmt
def spy_if(cond, body, orelse, get_state, set_state, names, nouts):
    st = get_state(); calls.append((names, nouts, tuple(repr(x) for x in st)))
    set_state(st)
    return orig_if(cond, body, orelse, get_state, set_state, names, nouts)
ag.if_stmt = spy_if
def c3(d, c):
    if c:
        d['k'] = 1
    return sorted(d.items())
probe('C03 missing key writeback', lambda: (malt.to_graph(c3)({}, 0), calls[-1]))
ag.if_stmt = orig_if

# C10: shared code different globals, directive resolution
src = '''
def h(n):
    s = 0
    for i in range(n):
        m.set_loop_options(maximum_iterations=3)
        s += 1
    return s
'''
class Fake:
    def __init__(s): s.log=[]
    def set_loop_options(s, **k): s.log.append(k)
g1 = {'m': malt.experimental}; g2 = {'m': Fake()}
import linecache, tempfile, os
fn = '/tmp/scratch/m10.py'; open(fn,'w').write(src)
code = compile(src, fn, 'exec')
exec(code, g1); 
h1 = g1['h']; h2 = types.FunctionType(h1.__code__, g2, 'h')
probe('C10 h1', lambda: malt.to_graph(h1)(2))
probe('C10 h2 via cache', lambda: (malt.to_graph(h2)(2), g2['m'].log, h2(2), g2['m'].log))

# C13 basics
cnt=[0]
def tgt(a, b=2, *c, **k):
    cnt[0]+=1; return (a,b,c,tuple(sorted(k.items())))
opts = converter.ConversionOptions(recursive=True, user_requested=False, optional_features=None)
p = functools.partial(functools.partial(tgt, 1, x=1), 5, x=2, y=3)
probe('C13 partial', lambda: (api.converted_call(p, (7,), {'y':9}, options=opts), p(7, y=9), cnt[0]))
probe('C13 kwargs None', lambda: api.converted_call(tgt, (1,), None, options=opts))
def gen(): yield 1
probe('C13 generator', lambda: list(api.converted_call(gen, (), None, options=opts)))
exec("def dyn(x): return x+1", globals())
probe('C13 exec fn', lambda: api.converted_call(dyn, (1,), None, options=opts))
class K:
    def __call__(self, x): return x*2
    def m(self, x):
        if x: return 1
        return 2
probe('C13 callable obj', lambda: api.converted_call(K(), (3,), None, options=opts))
probe('C13 method', lambda: api.converted_call(K().m, (3,), None, options=opts))
probe('C13 class ctor', lambda: type(api.converted_call(K, (), None, options=opts)).__name__)
# fallback: unsupported feature
def bad():
    for i in []: pass
    else: pass
    return 5
with warnings.catch_warnings(record=True) as w:
    probe('C13 fallback', lambda: (api.converted_call(bad, (), None, options=opts), conversion.is_in_allowlist_cache(bad, opts)))

# C16
def status(): c = ag_ctx.control_status_ctx(); return (id(c), c.status.name)
def raising():
    raise KeyError('x')
@malt.convert(recursive=True)
def conv(x):
    r = status()
    if x: raising()
    return r
before = status()
probe('C16 inside', lambda: conv(0))
probe('C16 raise', lambda: conv(1))
print('C16 after equal', before == status())
dn = malt.experimental.do_not_convert(lambda: status())
probe('C16 dnc', lambda: dn())

# C09 super
class A:
    def v(self): return 1
class B(A):
    def v(self):
        if self: return super().v() + 1
        return 0
probe('C09 super', lambda: malt.to_graph(B.v)(B()))
