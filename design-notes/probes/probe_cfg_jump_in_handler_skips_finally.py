import ast, textwrap
from malt.pyct import cfg, parser
src = '''
def f(a, xs):
    for x in xs:
        try:
            if a:
                raise ValueError()
            b = 1
            if b:
                continue
        except ValueError:
            c = 2
        except KeyError:
            break
        finally:
            d = 3
        e = 4
    return a
'''
node = parser.parse(textwrap.dedent(src))
g = cfg.build(node)[node]
def lab(n): return repr(n)[:28]
for n in g.index.values():
    print('%-30s -> %s' % (lab(n), sorted(lab(m) for m in n.next)))
print('entry', lab(g.entry), 'exit', sorted(lab(n) for n in g.exit), 'error', [ast.unparse(e) for e in g.error])
for s, v in g.stmt_next.items():
    print(type(s).__name__, getattr(s,'lineno',None), 'next', sorted(lab(m) for m in v), 'prev', sorted(lab(m) for m in g.stmt_prev[s]))
