import malt
def f(x, n):
    s = 0
    for i in range(n):
        if i == x:
            continue
        if i > 7:
            break
        try:
            s += i
        except ValueError:
            s = -1
        while s > 100:
            s -= 3
            if s == 50:
                return s
    return s
print(malt.to_code(f))
g = malt.to_graph(f)
print(g(2, 10), f(2,10))
