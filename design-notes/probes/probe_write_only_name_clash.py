import malt
def f(x):
    do_return = 5
    if x:
        return 1
    return 2
print(f(0), malt.to_graph(f)(0))
def g(n):
    s = 0
    for i in range(n):
        break_ = 0
        if i > 2:
            break
        s += i
    return s
print(g(6), malt.to_graph(g)(6))
print(malt.to_code(g))
