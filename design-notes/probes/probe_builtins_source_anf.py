import malt, ast, textwrap, traceback
from malt.operators import py_builtins
from malt.pyct import parser, anno, transformer, qual_names, cfg
from malt.pyct.common_transformers import anf
def probe(name, fn):
    try:
        print(name, '=>', fn())
    except Exception as e:
        print(name, 'EXC', type(e).__name__, str(e)[:150].replace('\n',' | '))
# a: C14
probe('enumerate kw builtin', lambda: list(enumerate(iterable=[7,8], start=1)))
probe('enumerate kw overload', lambda: list(py_builtins.overload_of(enumerate)(iterable=[7,8], start=1)))
def ev(c):
    zz = 41
    if c:
        r = eval('zz + 1')
    else:
        r = 0
    return r
probe('eval orig', lambda: ev(1))
probe('eval conv', lambda: malt.to_graph(ev)(1))
# b: C15
src_ns = {}
code = '''
def rawf():
    s = r"""ab\\
cd"""
    return s
def cmt():
    x = 1  # trailing backslash \\
    y = 2
    return x + y
la = (lambda x, /, y: x - y, lambda x, y: x + y)
'''
import importlib.util, sys, os
open('/tmp/scratch/m15.py','w').write(code)
spec = importlib.util.spec_from_file_location('m15','/tmp/scratch/m15.py'); m15 = importlib.util.module_from_spec(spec); sys.modules['m15']=m15; spec.loader.exec_module(m15)
probe('raw orig', lambda: repr(m15.rawf()))
probe('raw conv', lambda: repr(malt.to_graph(m15.rawf)()))
probe('cmt orig', lambda: m15.cmt())
probe('cmt conv', lambda: malt.to_graph(m15.cmt)())
probe('posonly lambda orig', lambda: m15.la[0](5, 3))
probe('posonly lambda conv', lambda: malt.to_graph(m15.la[0])(5, 3))
# c: C09
def outer():
    ag = malt
    k = 3
    def inner(n):
        s = 0
        for i in range(n):
            ag.set_loop_options(maximum_iterations=5)
            s += k
        return s
    return inner
probe('directive closure orig', lambda: outer()(2))
probe('directive closure conv', lambda: malt.to_graph(outer())(2))
# e: C18
def anf_run(src, arg):
    node = parser.parse(textwrap.dedent(src))
    node = qual_names.resolve(node)
    ctx = transformer.Context(transformer.EntityInfo('f', src, '<f>', (), {}), None, None)
    out = anf.transform(node, ctx)
    code = parser.unparse(out, include_encoding_marker=False)
    ns = {}; exec(code, ns)
    ns2 = {}; exec(textwrap.dedent(src), ns2)
    return ns2['f'](arg), ns['f'](arg), code.replace('\n',' ; ')
probe('anf walrus', lambda: anf_run('''
def f(x):
    return x + (x := 5)
''', 1))
L=[]
probe('anf store order', lambda: anf_run('''
def f(log):
    a = [0, 0]
    def i():
        log.append('i'); return 0
    def v():
        log.append('v'); return 9
    a[i()] = v()
    return list(log)
''', []))
