import malt
def f(c):
    x = 0
    def g():
        nonlocal x
        x = x + 1
        return x
    if c:
        x = 10
        y = g()
    else:
        y = 0
    return y
print(f(True), malt.to_graph(f)(True))
print(malt.to_code(f))
