import ast, textwrap, symtable
from malt.pyct import anno, cfg, parser, qual_names, transformer
from malt.pyct.static_analysis import activity, reaching_definitions, reaching_fndefs, type_inference, annos

class R(type_inference.Resolver):
    def res_name(self, ns, types_ns, name): return None, None
    def res_value(self, ns, value): return {type(value)}
    def res_arg(self, ns, types_ns, f_name, name, type_anno, f_is_local): return None
    def res_call(self, ns, types_ns, node, f_type, args, keywords): return None, None
    def res_slice(self, ns, types_ns, node, value, slice_): return None
    def res_compare(self, *a): return {bool}
    def res_unop(self, ns, t, node, o): return o
    def res_binop(self, ns, t, node, l, r): return l | r
    def res_list_literal(self, ns, e): return {list}
def infer(src):
    node = parser.parse(textwrap.dedent(src))
    graphs = cfg.build(node)
    node = qual_names.resolve(node)
    ctx = transformer.Context(transformer.EntityInfo('f', src, '<f>', (), {}), None, None)
    node = activity.resolve(node, ctx)
    node = reaching_definitions.resolve(node, ctx, graphs)
    node = reaching_fndefs.resolve(node, ctx, graphs)
    node = type_inference.resolve(node, ctx, graphs, R())
    out=[]
    for n in ast.walk(node):
        if isinstance(n, ast.Name) and isinstance(n.ctx, ast.Load) and anno.hasanno(n, anno.Static.TYPES):
            out.append((n.id, n.lineno, [t.__name__ for t in anno.getanno(n, anno.Static.TYPES)]))
    return out
print('for-target', infer('''
def f(xs):
    x = 1
    for x in ['a']:
        pass
    return x
'''))
print('augassign', infer('''
def f():
    x = 1
    x += 1.5
    return x
'''))
print('with-as', infer('''
def f(cm):
    x = 1
    with cm as x:
        pass
    return x
'''))
# C08: scopes vs symtable
src = textwrap.dedent('''
def f(a, *b, c=1, **d):
    global G
    import os.path as op, sys
    def g():
        nonlocal a
        a = 1
        return b, zz
    class K:
        y = a
        def m(self): return c
    lam = lambda q: q + a + w
    [t for t in b if t]
    with a as (u, v): pass
    del d
    G = 2
    return lam
''')
node = parser.parse(src)
node = qual_names.resolve(node)
ctx = transformer.Context(transformer.EntityInfo('f', src, '<f>', (), {}), None, None)
node = activity.resolve(node, ctx)
sc = anno.getanno(node, annos.NodeAnno.ARGS_AND_BODY_SCOPE)
print('bound', sorted(map(str, sc.bound))); print('read', sorted(map(str, sc.read))); print('globals', sorted(map(str, sc.globals)), 'nonlocals', sorted(map(str, sc.nonlocals)), 'params', sorted(map(str, sc.params.keys())))
st = symtable.symtable(src, '<s>', 'exec').get_children()[0]
print('sym locals', sorted(st.get_locals()), 'params', sorted(st.get_parameters()), 'globals', sorted(st.get_globals()), 'frees', sorted(st.get_frees()))
