import malt, traceback, sys
def lvl3(x):
    return 10 // x
def lvl2(x):
    y = 0
    while lvl3(x) > y and y < 3:
        y += 1
    return y
@malt.experimental.do_not_convert
def mid(x):
    return lvl2(x)
def lvl1(x):
    t = [mid(v) for v in (1, x)]
    return t
def top(x):
    r = 0
    for i in range(2):
        if i:
            r += sum(lvl1(x))
    return r
w = malt.convert(recursive=True)(top)
def user_frames(tb):
    return [(f.name, f.lineno) for f in traceback.extract_tb(tb) if f.filename == __file__]
try: top(0)
except Exception as e: print('orig', type(e).__name__, user_frames(e.__traceback__))
try: w(0)
except Exception as e:
    print('conv', type(e).__name__, [(f.function_name, f.lineno, f.is_converted, f.is_allowlisted) for f in e.ag_error_metadata.translated_stack])
    print(str(e)[:600])
f = malt.to_graph(top)
sm = f.ag_source_map
import inspect
src = inspect.getsource(f.ag_module).split('\n')
mapped = {k.lineno: v.loc.lineno for k, v in sm.items()}
for i, line in enumerate(src, 1):
    print('%3d %-4s %s' % (i, mapped.get(i, ''), line[:90]))
