import malt
def f(c, xs):
    if c:
        i = 5
    else:
        i = 6
    for i in xs:
        pass
    return i
print(f(1, []))
try:
    print(malt.to_graph(f)(1, []))
except Exception as e:
    print("EXC", type(e), e)
