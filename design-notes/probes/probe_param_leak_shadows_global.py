import malt
N = 10
def f(c):
    if c:
        k = (lambda N: N + 1)(1)
    else:
        k = 0
    return k + N
print(f(1))
try: print(malt.to_graph(f)(1))
except Exception as e: print('EXC', type(e).__name__, e)
def g(c):
    if c:
        def h(N): return N + 1
        k = h(1)
    else:
        k = 0
    return k + N
print(g(1))
try: print(malt.to_graph(g)(1))
except Exception as e: print('EXC', type(e).__name__, e)
