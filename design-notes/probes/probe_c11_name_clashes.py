"""C11 probes on the real code (run: /venv/bin/python probe_c11_name_clashes.py).  Each line: original vs converted.
The same programs are the witnesses in known_findings.d/C11.json and corpus/C11/*.json (replayed by ./check C11)."""
import sys
sys.path.insert(0, '/repo')
import malt

OPTS = dict(recursive=True, experimental_optional_features=None)


def h(v):
    return v + 1


# 1. bound-only user name = generated root: callers reserve scope.referenced (reads only)
def bound_only(n):
    s = 0
    for i in range(n):
        break_ = 1          # never read
        if i > 2:
            break
        s += i
    return s                # 3 vs 0: the loop's generated guard `break_` IS the user variable


def bound_only_fscope(l):
    x = 0
    for fscope in l:        # target never read
        x += 1
    return x                # AttributeError: 'int' object has no attribute 'ret'


# 2. name read only inside a nested scope that binds it
def comprehension_target(l):
    return [h(fscope) for fscope in l]          # converted_call(h, (fscope,), None, fscope): AttributeError


def lambda_parameter(a):
    return (lambda fscope: h(fscope))(a)        # idem


def nonlocal_in_nested(n):      # differed ((13, 8) vs (1, 2)) until Scope.finalize forwarded reads of declared nonlocal names
    break_ = 5

    def g():
        nonlocal break_
        break_ = break_ + 1
        return break_
    s = 0
    for i in range(n):
        if i > 1:
            break
        s += g()
    return s, g()


# 2b. converting a lambda: visit_Lambda reserves the Lambda node's scope, not its body: parameters are never reserved
lambda_entity = lambda lscope, b: h(lscope) + b     # noqa: E731


# 3. transpiler-level names reserve nothing: a global defined after conversion
def late_global(a):
    return inner_factory + a                    # noqa: F821  KeyError: 'inner_factory' at instantiate


# 4. hard-coded template identifiers
def vars_modified(a):
    vars_ = 0
    if a > 1:
        vars_ = a
    return vars_                                # SyntaxError: name 'vars_' is parameter and nonlocal


def ag_parameter(ag__):
    return h(ag__)                              # AttributeError: 'int' object has no attribute 'FunctionScope'


# 5. function called _<digits>: 'ag__' + '_5' -> root 'ag__', counter 5 -> the converted function is called `ag__`
def _5(a):
    return a + 1


# 6. builtins referenced by bare name in generated code (call_trees.py: ast.Name('tuple') / ast.Name('dict'))
def star_call_tuple(tuple, b):
    return h2(b, *tuple)                        # (b,) + tuple(tuple): TypeError 'tuple' object is not callable


def kw_call_dict(a):
    dict = 3
    return h2(a, z=dict)                        # dict(z=dict): TypeError 'int' object is not callable


def h2(*a, **k):
    return (a, sorted(k.items()))


# not findings (decided with evidence): reserved because read / declared, or not visible
def fscope_parameter_read(fscope):
    return h(fscope)                            # fscope_1 is generated


def global_declared(a):
    global fscope
    fscope = a                                  # `global` counts as a read: reserved
    return h(a)


def local_inner_factory(a):
    inner_factory = a
    outer_factory = 2
    ag__local_inner_factory = 3
    return inner_factory + outer_factory + ag__local_inner_factory     # locals shadow the wrappers harmlessly


def numbered_variant(n):
    break_ = n
    break__1 = 1
    s = 0
    for i in range(5):
        if i > break_ + break__1:
            break
        s += i
    return s, break_, break__1                  # break__2 is generated


def f_7(a):
    return a + 1                                # converted under the name ag__f (suffix dropped): harmless


CASES = [(bound_only, (6,)), (bound_only_fscope, ([1, 2],)), (comprehension_target, ([1, 2],)), (lambda_parameter, (3,)),
         (nonlocal_in_nested, (4,)), (lambda_entity, (1, 2)), (late_global, (3,)), (vars_modified, (3,)), (ag_parameter, (3,)),
         (_5, (3,)), (star_call_tuple, ((1, 2), 3)), (kw_call_dict, (1,)), (fscope_parameter_read, (3,)), (global_declared, (3,)), (local_inner_factory, (3,)), (numbered_variant, (2,)),
         (f_7, (3,))]

if __name__ == '__main__':
    conv = {}
    for f, args in CASES:
        try:
            conv[f] = malt.to_graph(f, **OPTS)
        except Exception as e:      # noqa
            conv[f] = e
    globals()['inner_factory'] = 1000
    for f, args in CASES:
        try:
            o = f(*args)
        except Exception as e:      # noqa
            o = 'EXC %s' % type(e).__name__
        c = conv[f]
        if isinstance(c, Exception):
            c = 'CONVERSION FAILS %s: %s' % (type(c).__name__, str(c)[:90])
        else:
            try:
                c = c(*args)
            except Exception as e:  # noqa
                c = 'EXC %s: %s' % (type(e).__name__, str(e)[:90])
        print('%-24s original=%-14r converted=%r%s' % (f.__name__, o, c, '' if repr(o) == repr(c) else '   <<< differs'))
