/-! Generic liveness soundness + verified fixpoint checker (design feasibility). -/
structure Graph where
  nodes : List Nat
  succ : Nat → List Nat

structure Sol where
  inS : Nat → String → Bool
  outS : Nat → String → Bool

structure Flow where
  gen : Nat → String → Bool
  kill : Nat → String → Bool
  extra : Nat → String → Bool    -- free variables of reaching local functions

/-- soundness only needs the two inclusions, not equality (so it also covers over-approximations) -/
def IsLiveFix (G : Graph) (F : Flow) (S : Sol) : Prop :=
  (∀ n ∈ G.nodes, ∀ s ∈ G.succ n, ∀ v, S.inS s v = true → S.outS n v = true) ∧
  (∀ n ∈ G.nodes, ∀ v, (F.gen n v = true ∨ (S.outS n v = true ∧ F.kill n v = false) ∨ F.extra n v = true)
      → S.inS n v = true)

def isLiveFix (G : Graph) (F : Flow) (S : Sol) (vars : List String) : Bool :=
  G.nodes.all (fun n => (G.succ n).all (fun s => vars.all (fun v => !(S.inS s v) || S.outS n v))) &&
  G.nodes.all (fun n => vars.all (fun v =>
      !(F.gen n v || (S.outS n v && !(F.kill n v)) || F.extra n v) || S.inS n v))

/-- the checker is sound for variables in `vars` when the solution mentions no other variable -/
theorem isLiveFix_sound (G F S vars)
    (hv : ∀ n v, (S.inS n v = true ∨ S.outS n v = true ∨ F.gen n v = true ∨ F.extra n v = true) → v ∈ vars)
    (h : isLiveFix G F S vars = true) : IsLiveFix G F S := by
  simp only [isLiveFix, Bool.and_eq_true, List.all_eq_true] at h
  obtain ⟨h1, h2⟩ := h
  refine ⟨?_, ?_⟩
  · intro n hn s hs v hin
    have := h1 n hn s hs v (hv s v (Or.inl hin))
    simp [hin] at this; exact this
  · intro n hn v hcase
    have hvv : v ∈ vars := by
      rcases hcase with h | ⟨h, _⟩ | h
      · exact hv n v (Or.inr (Or.inr (Or.inl h)))
      · exact hv n v (Or.inr (Or.inl h))
      · exact hv n v (Or.inr (Or.inr (Or.inr h)))
    have := h2 n hn v hvv
    rcases hcase with h | ⟨ho, hk⟩ | h <;> simp_all

/-- an execution: the node at each step, what it really reads / writes -/
structure Run where
  node : Nat → Nat
  reads : Nat → String → Prop
  writes : Nat → String → Prop

theorem live_sound (G : Graph) (F : Flow) (S : Sol) (R : Run) (len : Nat)
    (hfix : IsLiveFix G F S)
    (hnodes : ∀ i, i ≤ len → R.node i ∈ G.nodes)
    (hpath : ∀ i, i < len → R.node (i+1) ∈ G.succ (R.node i))
    (hgen : ∀ i v, R.reads i v → F.gen (R.node i) v = true)
    (hkill : ∀ i v, F.kill (R.node i) v = true → R.writes i v)
    (i j : Nat) (v : String) (hij : i < j) (hj : j ≤ len)
    (hread : R.reads j v) (hnow : ∀ m, i < m → m < j → ¬ R.writes m v) :
    S.outS (R.node i) v = true ∧ S.inS (R.node (i+1)) v = true := by
  -- v is live-in at every step m with i < m ≤ j
  have key : ∀ d, d ≤ j - (i+1) → S.inS (R.node (j - d)) v = true := by
    intro d
    induction d with
    | zero => intro _; exact hfix.2 _ (hnodes j hj) v (Or.inl (hgen j v hread))
    | succ d ih =>
      intro hd
      have hprev := ih (by omega)
      have hm1 : i < j - (d+1) := by omega
      have hm2 : j - (d+1) < j := by omega
      have hsucc : R.node (j - d) ∈ G.succ (R.node (j - (d+1))) := by
        have := hpath (j - (d+1)) (by omega)
        have e : j - (d+1) + 1 = j - d := by omega
        rwa [e] at this
      have hout := hfix.1 _ (hnodes _ (by omega)) _ hsucc v hprev
      have hnk : F.kill (R.node (j - (d+1))) v = false := by
        cases hk : F.kill (R.node (j - (d+1))) v with
        | false => rfl
        | true => exact absurd (hkill _ v hk) (hnow _ hm1 hm2)
      exact hfix.2 _ (hnodes _ (by omega)) v (Or.inr (Or.inl ⟨hout, hnk⟩))
  have hin : S.inS (R.node (i+1)) v = true := by
    have := key (j - (i+1)) (Nat.le_refl _)
    have e : j - (j - (i+1)) = i + 1 := by omega
    rwa [e] at this
  exact ⟨hfix.1 _ (hnodes i (by omega)) _ (hpath i (by omega)) v hin, hin⟩

#print axioms live_sound
#print axioms isLiveFix_sound
