"""C09 — converted functions keep the original calling interface and environment.

Model: lean/MaltModel/Rt/Closure.lean; theorems: lean/MaltModel/Props/C09.lean.

1. direct oracle on the real `malt.to_graph` / `malt.convert` over generated signatures x closure shapes
   (harness/c09_gen.py): signature, identity of default objects, no re-evaluation of default
   expressions, `__globals__ is`, cell identity per free name, rebinding seen in both directions,
   bound methods, decorators not re-applied, calls binding every parameter kind.
2. correspondence model <-> code at three levels:
     L0 the general scoping rule `Scope.allFreevars` vs the real compiler on random nestings of function
        scopes (parameters, assignments, loads, nonlocal/global declarations)   (c09.scopes)
     L3 `_erase_arg_defaults` on real `ast.arguments`               (c09.erase / c09.shape)
     L1 the real `_PythonFnFactory.create/instantiate` on synthetic entities with arbitrary declared
        free variables / closure tuples (all error branches)         (c09.resolve / c09.instantiate)
     L2 the whole of `to_graph` on the generated cases: the model predicts, from a description of the
        ORIGINAL function only, the outcome, `co_freevars` of factory and result, the cell of every free
        name, defaults, globals, parameters, the class predicates   (c09.transform)
"""
import ast, builtins, importlib.util, inspect, json, linecache, logging, os, shutil, sys, tempfile, textwrap, types
import __future__
import common
from common import sexp, parse_sexp
import c09_gen

MODEL_FILES = ['MaltModel/Rt/Closure.lean', 'MaltModel/Generated/Closure.lean', 'MaltModel/Drv/C09.lean']

CLS_DIRECTIVE = 'free_variable_referenced_only_in_directive_calls'
CLS_ANNOT = 'evaluated_annotation_names_nonfree_local_of_enclosing_function'
CLS_CLEARED = 'defaults_emptied_after_definition'


def _malt():
    import malt
    from malt.impl import api
    from malt.pyct import transpiler, naming, loader
    from malt.core import converter
    from malt.lang import directives
    return malt, api, transpiler, naming, converter, directives


# ------------------------------------------------------------------------------------------------ helpers

class Scratch:
    def __init__(self):
        self.dir = tempfile.mkdtemp(prefix='c09_')
        self.mods = []
        # malt's loader writes every generated module with tempfile.NamedTemporaryFile: keep those files in our own
        # scratch directory too (removed at exit) instead of the shared temp directory
        self.saved_tempdir = tempfile.tempdir
        tempfile.tempdir = self.dir

    def load(self, name, text):
        path = os.path.join(self.dir, name + '.py')
        with open(path, 'w') as f:
            f.write(text)
        spec = importlib.util.spec_from_file_location(name, path)
        mod = importlib.util.module_from_spec(spec)
        sys.modules[name] = mod
        self.mods.append(name)
        linecache.cache.pop(path, None)        # the same path may have been written before (module edited and run again)
        spec.loader.exec_module(mod)
        return mod

    def close(self):
        for n in self.mods:
            sys.modules.pop(n, None)
        tempfile.tempdir = self.saved_tempdir
        shutil.rmtree(self.dir, ignore_errors=True)


def func_of(f):
    return f.__func__ if inspect.ismethod(f) else f


def code_params(code):
    """[(name, kind)] in signature order, from the code object only."""
    names = code.co_varnames
    npos, nko = code.co_argcount, code.co_kwonlyargcount
    out = []
    for i in range(npos):
        out.append((names[i], 'posonly' if i < code.co_posonlyargcount else 'pos'))
    k = npos + nko
    if code.co_flags & inspect.CO_VARARGS:
        out.append((names[k], 'varpos')); k += 1
    for i in range(npos, npos + nko):
        out.append((names[i], 'kwonly'))
    if code.co_flags & inspect.CO_VARKEYWORDS:
        out.append((names[k], 'varkw'))
    return out


def find_def_node(fn):
    """The ast.FunctionDef / ast.Lambda of the function, from its real source file."""
    f = func_of(fn)
    # the IMMEDIATE source of the object (inspect.getsource would follow __wrapped__)
    lines, lnum = inspect.findsource(f)
    src = textwrap.dedent(''.join(inspect.getblock(lines[lnum:])))
    try:
        tree = ast.parse(src)
    except SyntaxError:
        # a lambda on a continuation of a larger statement: wrap
        tree = ast.parse('(\n' + src + '\n)')
    code = f.__code__
    if code.co_name == '<lambda>':
        want = [n for n, _ in code_params(code)]
        cands = []
        for n in ast.walk(tree):
            if isinstance(n, ast.Lambda):
                a = n.args
                got = [x.arg for x in a.posonlyargs + a.args] + ([a.vararg.arg] if a.vararg else []) + \
                      [x.arg for x in a.kwonlyargs] + ([a.kwarg.arg] if a.kwarg else [])
                if got == want:
                    cands.append(n)
        return cands[0] if cands else None
    for n in ast.walk(tree):
        if isinstance(n, (ast.FunctionDef, ast.AsyncFunctionDef)) and n.name == code.co_name:
            return n
    return None


def static_value(node, namespace):
    """What malt's DirectivesTransformer can resolve statically: Name in namespace, attributes of modules."""
    if isinstance(node, ast.Name):
        return namespace.get(node.id, None)
    if isinstance(node, ast.Attribute):
        v = static_value(node.value, namespace)
        if v is not None and inspect.ismodule(v) and hasattr(v, node.attr):
            return getattr(v, node.attr)
    return None


def describe(fn, directives):
    """Description of the ORIGINAL function (never of generated code): arguments, decorators, annotation
    names, occurrences of its free variables with the in-directive flag, and the function object."""
    f = func_of(fn)
    code = f.__code__
    node = find_def_node(fn)
    a = node.args
    free = set(code.co_freevars)
    namespace = dict(f.__globals__)
    for n, cell in zip(code.co_freevars, f.__closure__ or ()):
        try:
            namespace[n] = cell.cell_contents
        except ValueError:
            pass
    is_lambda = isinstance(node, ast.Lambda)
    future_ann = bool(code.co_flags & __future__.annotations.compiler_flag)
    ann_refs = []
    if not is_lambda and not future_ann:
        anns = [x.annotation for x in a.posonlyargs + a.args + a.kwonlyargs] + \
               [a.vararg.annotation if a.vararg else None, a.kwarg.annotation if a.kwarg else None, node.returns]
        for an in anns:
            if an is not None:
                ann_refs += [n.id for n in ast.walk(an) if isinstance(n, ast.Name)]
    occs = []   # (name, inDirective)

    def walk(n, in_dir):
        if isinstance(n, ast.Expr) and isinstance(n.value, ast.Call):
            sv = static_value(n.value.func, namespace)
            if sv is not None and (sv is directives.set_loop_options or sv is directives.set_element_type):
                in_dir = True
        if isinstance(n, ast.Name):
            if n.id in free:
                occs.append((n.id, in_dir))
            if n.id == 'super' and '__class__' in free:
                occs.append(('__class__', in_dir))
        if isinstance(n, ast.Nonlocal):
            for x in n.names:
                if x in free:
                    occs.append((x, in_dir))
        for ch in ast.iter_child_nodes(n):
            walk(ch, in_dir)
    body = [node.body] if is_lambda else node.body
    for st in body:
        walk(st, False)
    # nested definitions' default/decorator/annotation expressions are part of the body and walked above
    return {'node': node, 'args': a, 'ndeco': 0 if is_lambda else len(node.decorator_list), 'ann_refs': ann_refs,
            'occs': occs, 'is_lambda': is_lambda, 'func': f}


def py_classes(d):
    """The three class predicates, computed in Python from the description (cross-checked with Lean)."""
    f = d['func']
    free = list(f.__code__.co_freevars)
    kept = {n for n, dr in d['occs'] if not dr}
    directive_only = any((x not in kept) and (x not in d['ann_refs']) for x in free)
    g = f.__globals__
    ann_unres = any((x not in free) and (x not in g) and not hasattr(builtins, x) for x in d['ann_refs'])
    a = d['args']
    cleared = (not f.__defaults__ and len(a.defaults) > 0) or \
              (not f.__kwdefaults__ and any(x is not None for x in a.kw_defaults))
    return {CLS_DIRECTIVE: directive_only, CLS_ANNOT: ann_unres, CLS_CLEARED: cleared}


WHY_TAGS = ['params', 'freevarsDup', 'closureLen', 'freeUnreferenced', 'nameCollision', 'directiveOnly', 'annotation', 'cleared']
FINDING_TAGS = {'directiveOnly': CLS_DIRECTIVE, 'annotation': CLS_ANNOT, 'cleared': CLS_CLEARED}


def py_why(d, classes, extra, newname, inner):
    """The hypotheses of the proved fragment (Lean: `why`), evaluated in Python on the function object + its source."""
    f, a = d['func'], d['args']
    code = f.__code__
    src_params = [(x.arg, 'posonly') for x in a.posonlyargs] + [(x.arg, 'pos') for x in a.args] + \
        ([(a.vararg.arg, 'varpos')] if a.vararg else []) + [(x.arg, 'kwonly') for x in a.kwonlyargs] + \
        ([(a.kwarg.arg, 'varkw')] if a.kwarg else [])
    tags = []
    if code_params(code) != src_params:
        tags.append('params')
    if len(set(code.co_freevars)) != len(code.co_freevars):
        tags.append('freevarsDup')
    if len(f.__closure__ or ()) != len(code.co_freevars):
        tags.append('closureLen')
    occ_names = {n for n, _ in d['occs']}
    if any(x not in occ_names for x in code.co_freevars):
        tags.append('freeUnreferenced')
    kept = {n for n, dr in d['occs'] if not dr}
    if any(x in code.co_freevars for x in list(extra) + [newname]) or inner in kept or inner in extra or inner in d['ann_refs']:
        tags.append('nameCollision')
    if classes[CLS_DIRECTIVE]:
        tags.append('directiveOnly')
    if classes[CLS_ANNOT]:
        tags.append('annotation')
    if classes[CLS_CLEARED]:
        tags.append('cleared')
    return tags


def shape_of(f):
    """Coarse signature / free-variable situation of a function object (for the evidence distribution)."""
    ps = code_params(f.__code__)
    kinds = sorted({k for _, k in ps})
    sig = '+'.join(kinds) or 'no-params'
    if f.__defaults__:
        sig += '+defaults'
    if f.__kwdefaults__:
        sig += '+kwdefaults'
    nfree = len(f.__code__.co_freevars)
    empty = 0
    for c in (f.__closure__ or ()):
        try:
            c.cell_contents
        except ValueError:
            empty += 1
    fv = 'free:%s' % (nfree if nfree < 4 else '4+')
    if empty:
        fv += '/empty-cells'
    if '__class__' in f.__code__.co_freevars:
        fv += '/__class__'
    return sig, fv


class Ranker:
    def __init__(self, names):
        self.names = sorted(set(names))
        self.rank = {n: i for i, n in enumerate(self.names)}

    def __call__(self, n):
        return self.rank[n]


def arguments_sexp(a, R, orig_ids=True):
    """ast.arguments -> model Arguments.  Default expressions: `None` constants are `nonec`, anything else `(orig i)`."""
    cnt = [0]

    def dx(e):
        if isinstance(e, ast.Constant) and e.value is None and not orig_ids:
            return 'nonec'
        i = cnt[0]; cnt[0] += 1
        return ['orig', i]
    return ['args', [R(x.arg) for x in a.posonlyargs], [R(x.arg) for x in a.args],
            R(a.vararg.arg) if a.vararg else 'none', [R(x.arg) for x in a.kwonlyargs],
            ['none' if e is None else dx(e) for e in a.kw_defaults], R(a.kwarg.arg) if a.kwarg else 'none',
            [dx(e) for e in a.defaults]]


def arg_names(a):
    return [x.arg for x in a.posonlyargs + a.args + a.kwonlyargs] + ([a.vararg.arg] if a.vararg else []) + \
           ([a.kwarg.arg] if a.kwarg else [])


def fn_sexp(f, R, cellmap, objmap, gid):
    """A function object -> model Fn (cells / objects / globals canonicalised through the given maps)."""
    code = f.__code__
    cl = f.__closure__ or ()
    return ['fn', [[R(n), k] for n, k in code_params(code)], [R(n) for n in code.co_freevars],
            [cellmap(c, n) for c, n in zip(cl, code.co_freevars)], gid(f.__globals__),
            'none' if f.__defaults__ is None else [objmap(o) for o in f.__defaults__],
            'none' if f.__kwdefaults__ is None else [[R(k), objmap(v)] for k, v in f.__kwdefaults__.items()]]


# ------------------------------------------------------------------------------------------------ calls

def call_bindings(params, rng):
    """Argument bindings exercising every parameter kind; some valid, some that must raise TypeError."""
    po = [p for p in params if p[1] == 'posonly']
    ps = [p for p in params if p[1] == 'pos']
    ko = [p for p in params if p[1] == 'kwonly']
    has_va = any(p[1] == 'varpos' for p in params)
    has_vk = any(p[1] == 'varkw' for p in params)
    val = {p[0]: 3 + i for i, p in enumerate(params)}
    out = []
    # everything given: positional ones positionally, keyword-only by keyword
    out.append(([val[p[0]] for p in po + ps], {p[0]: val[p[0]] for p in ko}))
    # first positional falsy (other branch of `if`)
    if po or ps:
        out.append(([0] + [val[p[0]] for p in (po + ps)[1:]], {p[0]: val[p[0]] for p in ko}))
    # positional-or-keyword ones by keyword
    out.append(([val[p[0]] for p in po], {p[0]: val[p[0]] for p in ps + ko}))
    # only required ones (p[2] = has default)
    req_pos = [p for p in po + ps if not p[2]]
    # defaults are a suffix, so required positionals are a prefix
    out.append(([val[p[0]] for p in req_pos], {p[0]: val[p[0]] for p in ko if not p[2]}))
    # extras
    out.append(([val[p[0]] for p in po + ps] + [91, 92], {p[0]: val[p[0]] for p in ko}))
    out.append(([val[p[0]] for p in po + ps], dict({p[0]: val[p[0]] for p in ko}, zz=93, yy=94)))
    # missing a required one / nothing at all
    out.append(([], {}))
    if req_pos:
        out.append(([val[p[0]] for p in req_pos[:-1]], {p[0]: val[p[0]] for p in ko}))
    # positional-only by keyword
    if po:
        out.append(([], {p[0]: val[p[0]] for p in po + ps + ko}))
    # duplicate binding
    if ps:
        out.append(([val[p[0]] for p in po + ps], dict({p[0]: val[p[0]] for p in ko}, **{ps[0][0]: 5})))
    return out


def sig_kinds(f):
    return [(p.name, {'POSITIONAL_ONLY': 'posonly', 'POSITIONAL_OR_KEYWORD': 'pos', 'VAR_POSITIONAL': 'varpos',
                      'KEYWORD_ONLY': 'kwonly', 'VAR_KEYWORD': 'varkw'}[p.kind.name],
             p.default is not inspect.Parameter.empty)
            for p in inspect.signature(f, follow_wrapped=False).parameters.values()]


def run_call(fn, args, kwargs, setters, getters, base):
    for n, s in setters.items():
        s(base[n])
    try:
        r = ('ok', fn(*args, **kwargs))
    except Exception as e:   # noqa
        r = ('exc', type(e).__name__)
    state = {}
    for n, g in getters.items():
        try:
            state[n] = g()
        except NameError:
            state[n] = '<unbound>'
    return r, state


# ------------------------------------------------------------------------------------------------ one case

class CaseRunner:
    def __init__(self, run, scratch):
        self.run = run
        self.scratch = scratch
        self.malt, self.api, self.transpiler, self.naming, self.converter, self.directives = _malt()
        self.lines, self.expect, self.what, self.meta = [], [], [], []
        self.stats = {}
        self.entities = []        # one record per explored function object: why tags, outcome, oracle verdict
        self.failed_keys = set()

    def stat(self, k, n=1):
        self.stats[k] = self.stats.get(k, 0) + n

    def add(self, line, exp, w, meta=None):
        self.lines.append(line); self.expect.append(exp); self.what.append(w); self.meta.append(meta)

    # ---------------------------------------------------------------- generated module cases (oracle + L2)
    def run_reloaded(self, case, tag):
        """History: a module-level function is converted; the module FILE is edited (another signature / body for the
        function at the same line, same name) and executed again; the new function is converted in the same process."""
        subs = []
        for k, ps in enumerate((case['params'], case['params2'])):
            sub = c09_gen.normalise(dict(case, kind='toplevel', params=[dict(p) for p in ps], params2=[], namespaces=1))
            sub['id'] = case['id']
            subs.append(sub)
        lines = [[i for i, l in enumerate(c09_gen.render(sb).split('\n')) if l.startswith(('def f(', '@_deco'))][0] for sb in subs]
        if lines[0] != lines[1]:
            raise common.InfraError('reloaded case: the two versions do not define f at the same line')
        self.keep = getattr(self, 'keep', [])
        self.stat('reloaded_modules')
        for k, sub in enumerate(subs):
            self.parent_case = dict(case, version_failing=k)
            try:
                self.run_case(sub, tag, count=(k == 0))
            finally:
                self.parent_case = None

    def run_case(self, case, tag, count=True):
        malt, api = self.malt, self.api
        if case['kind'] == 'reloaded':
            return self.run_reloaded(case, tag)
        # a per-module constant keeps the code objects of different cases (and of the two versions of a reloaded module,
        # which may differ only in which parameters have defaults) from comparing equal: malt's cache is keyed by code
        # VALUE, and equal code objects sharing one conversion is C10's finding C10-equal-code-objects, not a C09 shape
        case['uid'] = 'uid-%s-%d%s' % (tag, case['id'], '-v%d' % self.parent_case['version_failing'] if self.parent_case else '')
        text = c09_gen.render(case)
        crec = {'case': case, 'source': text}
        try:
            mod = self.scratch.load('c09case_%s_%d' % (tag, case['id']), text)
        except Exception as e:
            raise common.InfraError('generated module does not load: %r\n%s' % (e, text))
        records = []

        def convert(fn, sibling=False):
            before = dict(mod.COUNTS)
            try:
                tf = malt.to_graph(fn, recursive=case['recursive'], experimental_optional_features=None)
                outcome = ('ok', tf)
            except Exception as e:  # noqa
                outcome = ('error', e)
            after = dict(mod.COUNTS)
            wrapped = None
            if case['api'] == 'convert' and not sibling:
                wrapped = malt.convert(recursive=case['recursive'], optional_features=None)(fn)
            rec = {'fn': fn, 'outcome': outcome, 'before': before, 'after': after, 'wrapped': wrapped, 'sibling': sibling}
            if case['empty'] and not sibling and outcome[0] == 'ok' and inspect.isfunction(outcome[1]):
                # call both while the cells are still unassigned: both must fail the same way (NameError family)
                rec['empty_probe'] = self.empty_probe(case, fn, outcome[1])
            records.append(rec)
            return rec
        try:
            out = mod.build(convert)
        except Exception as e:
            raise common.InfraError('generated module build() failed: %r\n%s' % (e, text))
        self.run.case(c09_gen.shape_key(self.parent_case or case) + ((case.get('version_failing'),) if False else ()),
                      c09_gen.nontrivial(self.parent_case or case))
        getattr(self, 'keep', []).append(out)       # earlier versions stay alive (a history, not a fresh process)
        if case['kind'] == 'linelambdas':
            self.stat('lambdas_on_one_line:%d' % len(out['f']))
        out['tcaller'] = None
        if case['kind'] in ('method', 'classmethod') and case.get('bind') != 'unbound':
            # the method reached from recursively converted code: converted_call(o.m, args, kwargs, fscope)
            try:
                out['tcaller'] = malt.to_graph(mod.call_m, recursive=True, experimental_optional_features=None)
            except Exception as e:   # noqa
                self.fail('conversion of the calling function fails: %s' % str(e)[:200], crec, 0, None)
        out['tcallf'] = None
        if case.get('wrap'):
            self.stat('carries___wrapped__:%s/%s%s' % (case['wrap'], case['wrap_sig'], '/calls' if case.get('wrap_calls') else ''))
            if case['kind'] != 'method':
                # the wrapper reached from recursively converted code: converted_call(fn, args, kwargs, fscope)
                try:
                    out['tcallf'] = malt.to_graph(mod.call_f, recursive=True, experimental_optional_features=None)
                except Exception as e:   # noqa
                    self.fail('conversion of the calling function fails: %s' % str(e)[:200], crec, 0, None)
        if case.get('falsy_self'):
            self.stat('falsy_receivers:' + case['falsy_self'])
        if case.get('cf_write'):
            self.stat('write_only_in_control_flow:%s' % ('with_global' if case.get('decl_global') else 'no_global'))
        if case.get('namespaces', 1) > 1:
            self.stat('shared_code_namespaces:%d' % case['namespaces'])
        self.stat('kind:' + case['kind'])
        self.stat('free_vars:%d' % len(c09_gen.free_names(case)))
        if case['empty']:
            self.stat('with_empty_cells')
        if case['directive']:
            self.stat('directive:' + case['directive'])
        fs = out['f']
        recs = out['tf']
        for i, (f, rec) in enumerate(zip(fs, recs)):
            setters = out['inst_setters'][i] if out.get('inst_setters') else out['setters']
            getters = out['inst_getters'][i] if out.get('inst_getters') else out['getters']
            self.check_instance(case, crec, mod, out, i, f, rec, setters, getters, len(fs))
        if 'tsib' in out:
            self.check_sibling(case, crec, out, recs[0])
        if len(self.run.samples) < 4 and tag.startswith(('forced', 'rand')) and case['id'] % 5 == 0 \
                and len(c09_gen.free_names(case)) >= 2:
            self.run.sample({'case': {k: v for k, v in case.items() if k != 'params'},
                             'signature': c09_gen.render_params(case), 'source_lines': len(text.split('\n'))})

    def empty_probe(self, case, f, tf):
        sig_params = sig_kinds(f)
        args, kwargs = call_bindings(sig_params, None)[0]
        pre = [f.__self__] if inspect.ismethod(f) else ([] if case.get('bind') != 'unbound' else [None])
        res = []
        for fn, a in ((f, pre if not inspect.ismethod(f) else []), (tf, pre)):
            try:
                fn(*(a + list(args)), **kwargs)
                res.append('ok')
            except NameError:
                res.append('NameError')
            except Exception as e:   # noqa
                res.append(type(e).__name__)
        return res

    parent_case = None

    def fail(self, what, crec, inst, cls, extra=None):
        self.failed_keys.add((crec['case'].get('uid'), inst))
        c = {'case': self.parent_case or crec['case'], 'instance': inst, 'source': crec['source']}
        if extra:
            c['detail'] = extra
        self.run.fail(what, c, cls)

    def check_instance(self, case, crec, mod, out, i, f, rec, setters, getters, ninst):
        run = self.run
        ff = func_of(f)
        d = describe(f, self.directives)
        classes = py_classes(d)
        kind, val = rec['outcome']
        self.stat('outcome:' + ('ok' if kind == 'ok' else type(val).__name__))
        for k, v in classes.items():
            if v:
                self.stat('class:' + k)
        # ------------------------------------------------------------- direct oracle
        if kind == 'error':
            msg = str(val)
            cls = None
            if 'closure mismatch' in msg and classes[CLS_DIRECTIVE]:
                cls = CLS_DIRECTIVE
            elif 'NameError' in msg and classes[CLS_ANNOT]:
                cls = CLS_ANNOT
            self.fail('conversion of a convertible function fails: ' + msg[:200], crec, i, cls)
        else:
            tf = val
            self.oracle_ok(case, crec, mod, out, i, f, ff, tf, rec, setters, getters, classes)
        # decorators / defaults not re-applied / re-evaluated by the conversion itself
        if rec['before'] != rec['after']:
            self.fail('conversion re-evaluated a default expression or re-applied a decorator: counters %s -> %s'
                      % (rec['before'], rec['after']), crec, i, None)
        # ------------------------------------------------------------- correspondence L2
        self.correspond(case, crec, i, f, ff, d, classes, rec)

    def oracle_ok(self, case, crec, mod, out, i, f, ff, tf, rec, setters, getters, classes):
        cleared_cls = CLS_CLEARED if classes[CLS_CLEARED] else None
        if not inspect.isfunction(tf):
            self.fail('to_graph returned %s, not a plain function' % type(tf).__name__, crec, i, None)
            return
        # signature
        try:
            s0, s1 = inspect.signature(ff, follow_wrapped=False), inspect.signature(tf, follow_wrapped=False)
        except Exception as e:
            raise common.InfraError('inspect.signature failed: %r' % e)
        shape = lambda s: [(p.name, p.kind.name, p.default is not inspect.Parameter.empty) for p in s.parameters.values()]
        if shape(s0) != shape(s1):
            self.fail('parameter names / kinds / order / optionality differ: %s vs %s' % (s0, s1), crec, i, cleared_cls)
        else:
            for p0, p1 in zip(s0.parameters.values(), s1.parameters.values()):
                if p0.default is not p1.default:
                    self.fail('default of %s is not the same object' % p0.name, crec, i, cleared_cls)
            if s0 != s1:
                self.fail('inspect.signature differs (annotations): %s vs %s' % (s0, s1), crec, i, None)
        # defaults: same objects
        d0, d1 = ff.__defaults__ or (), tf.__defaults__ or ()
        if len(d0) != len(d1) or any(a is not b for a, b in zip(d0, d1)):
            self.fail('__defaults__ elements are not the original objects', crec, i, cleared_cls)
        k0, k1 = ff.__kwdefaults__ or {}, tf.__kwdefaults__ or {}
        if sorted(k0) != sorted(k1) or any(k0[k] is not k1[k] for k in k0):
            self.fail('__kwdefaults__ values are not the original objects', crec, i, cleared_cls)
        # globals
        if tf.__globals__ is not ff.__globals__:
            self.fail('__globals__ is not the original module dict', crec, i, None)
        # cells
        own = dict(zip(ff.__code__.co_freevars, ff.__closure__ or ()))
        got = dict(zip(tf.__code__.co_freevars, tf.__closure__ or ()))
        generated = {'ag__', tf.__name__}
        for n, cell in got.items():
            if n in own:
                if cell is not own[n]:
                    self.fail('free variable %s of the converted function is not bound to the original cell' % n, crec, i, None)
            elif n not in generated:
                self.fail('converted function has a free variable %s the original has not' % n, crec, i, None)
        for n in own:
            if n not in got and not any(nm == n and dr for nm, dr in describe(f, self.directives)['occs']):
                self.fail('free variable %s of the original is not a free variable of the converted function' % n, crec, i, None)
        if inspect.ismethod(f):
            self.stat('bound_methods')
            first = next(iter(inspect.signature(tf, follow_wrapped=False).parameters.values()), None)
            if first is None or first.name not in ('self', 'cls'):
                self.fail('converted bound method does not take the instance first', crec, i, None)
        # calls: every parameter kind; rebinding through the sibling setters before every call (outside -> in),
        # nonlocal writes observed through the sibling getters (inside -> out)
        targets = [('to_graph', tf)]
        if rec['wrapped'] is not None:
            targets.append(('convert', rec['wrapped']))
        if out.get('tcaller') is not None and inspect.ismethod(f):
            tc, recv = out['tcaller'], f.__self__
            targets.append(('caller', (lambda *a, **k: tc(recv, *a, **k))))
            self.stat('method_via_converted_caller')
        if out.get('tcallf') is not None and not inspect.ismethod(f):
            tcf = out['tcallf']
            targets.append(('caller', (lambda *a, **k: tcf(f, *a, **k))))
            self.stat('wrapper_via_converted_caller')
        sig_params = sig_kinds(f)
        unbound = case.get('bind') == 'unbound' and case['kind'] == 'method'
        if unbound:
            sig_params = sig_params[1:]          # `self` is supplied by the harness for both sides
        binds = call_bindings(sig_params, self.run.rng)
        self_args = [f.__self__] if inspect.ismethod(f) else []
        if unbound:
            self.stat('unbound_methods')
            f_call = (lambda *a, **k: f(out['self'], *a, **k))
            self_args = [out['self']]
        else:
            f_call = f
        if rec.get('empty_probe'):
            self.stat('empty_cell_probes:' + rec['empty_probe'][0])
            if rec['empty_probe'][0] != rec['empty_probe'][1]:
                self.fail('calling while a closed-over variable is still unassigned: original %s, converted %s'
                          % tuple(rec['empty_probe']), crec, i, None)
        for rnd, (args, kwargs) in enumerate(binds):
            base = {n: 1000 * (rnd + 1) + 7 * j + i for j, n in enumerate(sorted(setters))}
            r0 = run_call(f_call, args, kwargs, setters, getters, base)
            for tname, t in targets:
                a = (self_args + list(args)) if (tname == 'to_graph' or unbound) else list(args)
                r1 = run_call(t, a, kwargs, setters, getters, base)
                self.stat('calls')
                if r0[0][0] == 'ok':
                    self.stat('calls_ok')
                else:
                    self.stat('calls_raising:' + r0[0][1])
                if r0 != r1:
                    lost = sorted(k for k in r0[1] if r0[1].get(k) != r1[1].get(k)) if r0[0] == r1[0] else []
                    head = ('rebinding of %s by the converted function is not what the original does (seen through the sibling '
                            'getters): ' % ', '.join(lost)) if lost else ''
                    self.fail(head + 'call %s(*%r, **%r) after rebinding %r: original %r, converted %r' % (tname, args, kwargs, base, r0, r1),
                              crec, i, cleared_cls if (r0[0][0] != r1[0][0]) else None)
                    break
        # mutable defaults are shared: mutate through the converted function's view, observe on the original
        for a, b in zip(d0, d1):
            if isinstance(a, list) and isinstance(b, list):
                b.append('m')
                if a[-1:] != ['m']:
                    self.fail('mutable default not shared', crec, i, None)
                b.pop()
        if rec['wrapped'] is not None:
            w = rec['wrapped']
            if inspect.signature(w) != inspect.signature(f):  # noqa
                self.fail('signature of convert()-wrapper differs from the original', crec, i, None)
        if mod.COUNTS != rec['after']:
            self.fail('calling the converted function re-evaluated a default expression or re-applied a decorator: %s -> %s'
                      % (rec['after'], mod.COUNTS), crec, i, None)

    def check_sibling(self, case, crec, out, rec):
        srec = out['tsib']
        if srec['outcome'][0] != 'ok' or rec['outcome'][0] != 'ok':
            return
        tsib, tf, sib = srec['outcome'][1], rec['outcome'][1], out['sib']
        a = case['free'][0]
        c1 = dict(zip(tsib.__code__.co_freevars, tsib.__closure__))
        c2 = dict(zip(tf.__code__.co_freevars, tf.__closure__))
        c0 = dict(zip(sib.__code__.co_freevars, sib.__closure__))
        self.stat('converted_siblings')
        if a in c2 and not (c1.get(a) is c2[a] is c0[a]):
            self.fail('two converted siblings do not share the cell of %s' % a, crec, 0, None)
        out['setters'][a](424242)
        if tsib(1) != (1, 424242) or sib(1) != (1, 424242):
            self.fail('rebinding %s not seen by converted sibling' % a, crec, 0, None)

    # ---------------------------------------------------------------- L2
    def correspond(self, case, crec, i, f, ff, d, classes, rec, origin='generated', nominal_ok=False):
        api = self.api
        opts = self.converter.ConversionOptions(recursive=case['recursive'], user_requested=True, optional_features=None)
        bucket = api._TRANSPILER._cache[ff]
        fac = bucket.get(opts)
        kind, val = rec['outcome']
        if fac is None and not nominal_ok:
            self.add(None, 'no factory in the cache for the converted function', 'transform', crec)
            return
        if fac is None:
            # transform_ast itself raised (no factory was created): only the classifier is evaluated, on nominal names
            facfree, extra, inner = [], ['ag__'], 'inner_factory'
            newname = 'ag__' + ('lam' if ff.__code__.co_name == '<lambda>' else ff.__code__.co_name)
        else:
            facfree = list(fac._unbound_factory.__code__.co_freevars)
            extra = list(fac._extra_locals.keys())
            newname = fac._name
            inner = fac._unbound_factory.__name__
        code = ff.__code__
        if kind == 'ok' and not inspect.isfunction(val):
            self.add(None, 'to_graph returned %s, not a plain function' % type(val).__name__, 'transform', crec)
            return
        names = set(arg_names(d['args'])) | set(code.co_freevars) | set(facfree) | set(extra) | {newname, inner} \
            | set(d['ann_refs']) | {n for n, _ in d['occs']}
        if kind == 'ok':
            names |= set(val.__code__.co_freevars) | {n for n, _ in code_params(val.__code__)} | set((val.__kwdefaults__ or {}).keys())
            names |= set(val.__qualname__.split('.<locals>.')) | {val.__name__, '<lambda>'}
        names |= set((ff.__kwdefaults__ or {}).keys())
        R = Ranker(names)
        modnames = [R(x) for x in set(d['ann_refs']) if x in ff.__globals__ or hasattr(builtins, x)]
        own_cells = list(ff.__closure__ or ())

        def cellmap(c, n):
            for j, oc in enumerate(own_cells):
                if oc is c:
                    return ['o', 100 + j]
            return ['l', R(n)]
        objs = []
        for o in (ff.__defaults__ or ()):
            objs.append(o)
        for o in (ff.__kwdefaults__ or {}).values():
            objs.append(o)

        def objmap(o):
            if o is None:
                return 0
            for j, x in enumerate(objs):
                if x is o:
                    return 500 + j
            return 999

        def gid(g):
            return 1 if g is ff.__globals__ else 2
        src = ['src', arguments_sexp(d['args'], R), list(range(d['ndeco'])), [R(x) for x in d['ann_refs']],
               [[R(n), dr] for n, dr in d['occs']]]
        fnx = fn_sexp(ff, R, cellmap, objmap, gid)
        call = ['method', 7, fnx] if inspect.ismethod(f) else ['function', fnx]
        argstr = '%s %d %d %s %s %s' % (sexp([R(x) for x in extra]), R(newname), R(inner), sexp(modnames), sexp(src), sexp(call))
        tags = py_why(d, classes, extra, newname, inner)
        sig, fv = shape_of(ff)
        ent = {'origin': origin, 'key': (crec['case'].get('uid'), i), 'tags_py': tags, 'outcome': kind,
               'error': (str(val)[:160] if kind != 'ok' else ''), 'kind': case['kind'] + ('/method' if inspect.ismethod(f) else ''),
               'sig': sig, 'fv': fv, 'line': len(self.lines), 'name': crec.get('name', crec['case'].get('uid'))}
        self.entities.append(ent)
        self.add('c09.why ' + argstr, sexp(['why'] + tags), 'why', {'case': crec['case'], 'instance': i})
        if fac is None:
            return
        line = 'c09.transform ' + argstr
        # observed
        if kind == 'ok':
            res = ['ok', fn_sexp(val, R, cellmap, objmap, gid)]
        else:
            msg = str(val)
            if 'closure mismatch' in msg:
                res = ['error', 'closureMismatch']
            elif 'NameError' in msg:
                nm = msg.split("name '")[1].split("'")[0] if "name '" in msg else '?'
                res = ['error', 'nameError', R(nm) if nm in R.rank else 9999]
            elif 'KeyError' in msg:
                res = ['error', 'keyError', 9999]
            else:
                res = ['error', 'other', msg[:100]]
        # decorators still attached to the generated def / default expressions evaluated by it
        gen_decos, gen_trace = [], []
        try:
            gsrc = inspect.getsource(fac.module)
            gt = ast.parse(gsrc)
            for n in ast.walk(gt):
                if isinstance(n, ast.FunctionDef) and n.name == newname:
                    gen_decos = [ast.unparse(x) for x in n.decorator_list]
                    gen_trace = [ast.unparse(x) for x in n.args.defaults + [k for k in n.args.kw_defaults if k is not None]
                                 if not (isinstance(x, ast.Constant) and x.value is None)]
        except Exception as e:   # noqa
            gen_decos = ['<unreadable %r>' % e]
        observed = [res, ['classes', classes[CLS_DIRECTIVE], classes[CLS_ANNOT], classes[CLS_CLEARED]],
                    ['decorators'] + gen_decos, ['trace'] + gen_trace, ['facfree'] + [R(x) for x in facfree]]
        self.add(line, sexp(observed), 'transform', {'case': crec['case'], 'instance': i, 'names': R.names})
        if kind == 'ok':
            # to_graph through the extracted statement list + name / qualname / module / doc / __dict__ of the result
            is_lam = d['is_lambda']
            try:
                docstr = None if is_lam else ast.get_docstring(d['node'], clean=False)
            except Exception:   # noqa
                docstr = None
            qual = val.__qualname__.split('.<locals>.')
            src_meta = src + [R('<lambda>') if is_lam else 'none', 500 if docstr is not None else 'none']
            tline = 'c09.tograph %s %d %d %d %s %s %s' % (sexp([R(x) for x in extra]), R(newname), R(inner), R(qual[0]),
                                                          sexp(modnames), sexp(src_meta), sexp(call))
            mod_obs = 1 if val.__module__ == ff.__globals__.get('__name__') else 2
            # the docstring is re-emitted with the generated module's indentation: compared as inspect.cleandoc does
            doc_obs = 'none' if val.__doc__ is None else \
                (500 if docstr is not None and inspect.cleandoc(val.__doc__) == inspect.cleandoc(docstr) else 999)
            tobs = ['ok', fn_sexp(val, R, cellmap, objmap, gid),
                    ['meta', R(val.__name__), [R(x) for x in qual], mod_obs, doc_obs, list(val.__dict__.keys())]]
            self.add(tline, sexp(tobs), 'tograph', {'case': crec['case'], 'instance': i, 'names': R.names})

    # ---------------------------------------------------------------- bound objects through converted_call
    ZOO_SRC = '''
import functools
def fn(x=0, y=2, *r, k=1, **kw):
    return ('fn', x, y, r, k, sorted(kw.items()))
class Z(object):
    def __init__(self, tag):
        self.tag = tag
    def m(self, x=0, y=2, *r, k=1, **kw):
        return ('m', self.tag, x, y, r, k, sorted(kw.items()))
    @classmethod
    def cm(cls, x=0, y=2, *r, k=1, **kw):
        return ('cm', cls.__name__, x, y, r, k, sorted(kw.items()))
    @staticmethod
    def sm(x=0, y=2, *r, k=1, **kw):
        return ('sm', x, y, r, k, sorted(kw.items()))
    def __call__(self, x=0, y=2, *r, k=1, **kw):
        return ('call', self.tag, x, y, r, k, sorted(kw.items()))
class ZLen(Z):
    def __len__(self):
        return 0
class ZBool(Z):
    def __bool__(self):
        return False
'''

    def bound_zoo(self, rng, n):
        """functions, bound methods, classmethods, staticmethods, callable objects and functools.partial chains over
        them (truthy and falsy receivers) through malt.convert -> converted_call: which entity is converted and which
        arguments the converted function receives (spy on api._convert_actual) vs the model's `unwrap`; results vs the
        original callable."""
        import functools
        api, malt = self.api, self.malt
        mod = self.scratch.load('c09zoo_s%d' % self.run.seed, self.ZOO_SRC)
        classes = [mod.Z, mod.ZLen, mod.ZBool]
        fn_ids = {mod.fn: 1, mod.Z.m: 2, mod.Z.__dict__['cm'].__func__: 3, mod.Z.sm: 4, mod.Z.__call__: 5}
        knames = ['k', 'yy', 'zz']
        R = Ranker(knames)
        log = []
        orig = api._convert_actual

        def spy(entity, program_ctx):
            tf = orig(entity, program_ctx)

            def rec(*a, **k):
                log.append((entity, a, dict(k)))
                return tf(*a, **k)
            rec.ag_source_map = getattr(tf, 'ag_source_map', {})
            rec.ag_module = getattr(tf, 'ag_module', None)
            return rec
        api._convert_actual = spy
        try:
            for idx in range(n):
                v = rng.randrange(3)
                cls = classes[v]
                obj = cls('t%d' % v)
                base = rng.choice(['fn', 'method', 'cm_cls', 'cm_obj', 'sm_cls', 'sm_obj', 'object'])
                if base == 'fn':
                    c, desc = mod.fn, ['function', 1]
                elif base == 'method':
                    c, desc = obj.m, ['method', 50 + v, 2]
                elif base in ('cm_cls', 'cm_obj'):
                    c, desc = (cls.cm if base == 'cm_cls' else obj.cm), ['method', 60 + v, 3]
                elif base in ('sm_cls', 'sm_obj'):
                    c, desc = (cls.sm if base == 'sm_cls' else obj.sm), ['function', 4]
                else:
                    c, desc = obj, ['object', 50 + v, 5]
                objmap = {id(obj): 50 + v, id(cls): 60 + v}
                depth = rng.choice([0, 0, 1, 1, 2, 3])
                for _ in range(depth):
                    pa = [100 + rng.randrange(50) for _ in range(rng.choice([0, 1, 1, 2]))]
                    pk = {kn: 200 + rng.randrange(50) for kn in knames if rng.random() < 0.35}
                    c = functools.partial(c, *pa, **pk)
                    desc = ['partial', desc, pa, [[R(kn), vv] for kn, vv in pk.items()]]
                args = [300 + rng.randrange(50) for _ in range(rng.choice([0, 1, 1, 2, 3]))]
                kwargs = {kn: 400 + rng.randrange(50) for kn in knames if rng.random() < 0.35}
                case = {'base': base, 'receiver': cls.__name__, 'partials': depth, 'desc': desc, 'args': args, 'kwargs': kwargs}
                crec = {'case': {'uid': 'zoo-%d' % idx, 'kind': 'zoo', 'zoo': case}, 'source': self.ZOO_SRC}
                self.run.case(('zoo', base, cls.__name__, depth, len(args), tuple(sorted(kwargs))), True)
                self.stat('zoo:%s/%s/partials=%d' % (base, 'falsy' if v else 'truthy', depth))

                def call(fun):
                    try:
                        return ('ok', fun(*args, **kwargs))
                    except Exception as e:   # noqa
                        return ('exc', type(e).__name__)
                r0 = call(c)
                del log[:]
                conv = malt.convert(recursive=True, optional_features=None)(c)
                r1 = call(conv)
                if r0 != r1:
                    self.fail('converted_call on %s (%s receiver, %d partials): original %r, converted %r'
                              % (base, cls.__name__, depth, r0, r1), crec, 0, None)
                if not log:
                    obs = [['target', 'none'], ['args'], ['kwargs']]
                else:
                    ent, a, k = log[0]
                    fobj = func_of(ent)
                    obs = [['target', fn_ids.get(fobj, 999)],
                           ['args'] + [objmap.get(id(x), x if isinstance(x, int) else 998) for x in a],
                           ['kwargs'] + [[R(kn), vv] for kn, vv in k.items()]]
                self.add('c09.unwrap %s %s %s' % (sexp(desc), sexp(args), sexp([[R(kn), vv] for kn, vv in kwargs.items()])),
                         sexp(obs), 'unwrap', case)
        finally:
            api._convert_actual = orig

    # ---------------------------------------------------------------- /repo's own functions
    def repo_functions(self):
        """Every function / method defined in the malt package itself (deterministic order)."""
        import pkgutil
        out, seen = [], set()
        for m in sorted(pkgutil.walk_packages(self.malt.__path__, 'malt.'), key=lambda x: x.name):
            try:
                mod = importlib.import_module(m.name)
            except Exception:   # noqa
                self.stat('repo:module_import_failed')
                continue
            for name, obj in sorted(vars(mod).items()):
                cands = []
                if inspect.isfunction(obj) and obj.__module__ == mod.__name__:
                    cands.append((name, obj, 'function'))
                elif inspect.isclass(obj) and obj.__module__ == mod.__name__:
                    for n2, o2 in sorted(vars(obj).items()):
                        fn = o2.__func__ if isinstance(o2, (staticmethod, classmethod)) else o2
                        if inspect.isfunction(fn):
                            cands.append(('%s.%s' % (name, n2), fn,
                                          'staticmethod' if isinstance(o2, staticmethod) else
                                          'classmethod' if isinstance(o2, classmethod) else 'method'))
                for qn, fn, k in cands:
                    if id(fn) not in seen:
                        seen.add(id(fn))
                        out.append((m.name + '.' + qn, fn, k))
        return out

    def repo_sweep(self, rng, limit):
        """Classify (c09.why) and convert /repo's own functions; static oracle on those that convert."""
        fns = self.repo_functions()
        self.stats['repo:functions_found'] = len(fns)
        if limit is not None and len(fns) > limit:
            fns = [fns[k] for k in sorted(rng.sample(range(len(fns)), limit))]
        seen_codes = {}
        for qn, fn, k in fns:
            if fn.__code__.co_name == '<lambda>':
                self.stat('repo:skipped:lambda'); continue
            try:
                d = describe(fn, self.directives)
                if d['node'] is None:
                    raise ValueError('no def node')
                nlines = (d['node'].end_lineno or 0) - d['node'].lineno
            except Exception:   # noqa
                self.stat('repo:skipped:no_source'); continue
            if nlines > 120:
                self.stat('repo:skipped:long'); continue
            if fn.__code__ in seen_codes:
                # equal code objects share one cached conversion (C10-equal-code-objects): not a C09 observation
                self.stat('repo:skipped:equal_code_object'); continue
            seen_codes[fn.__code__] = qn
            classes = py_classes(d)
            case = {'recursive': False, 'kind': 'repo:' + k, 'uid': 'repo:' + qn}
            crec = {'case': case, 'source': qn, 'name': qn}
            try:
                tf = self.malt.to_graph(fn, recursive=False, experimental_optional_features=None)
                outcome = ('ok', tf)
            except Exception as e:   # noqa
                outcome = ('error', e)
            rec = {'outcome': outcome}
            self.run.case(('repo', qn), bool(fn.__code__.co_freevars or fn.__defaults__ or fn.__kwdefaults__))
            if outcome[0] == 'ok' and inspect.isfunction(outcome[1]):
                self.stat('repo:converted')
                self.static_oracle(crec, fn, outcome[1], classes)
            else:
                msg = str(outcome[1])
                proto = 'closure mismatch' in msg or 'NameError' in msg or 'KeyError' in msg
                self.stat('repo:' + ('factory_protocol_error' if proto else 'rejected_by_passes:' + type(outcome[1]).__name__))
                if proto:
                    cls = CLS_DIRECTIVE if ('closure mismatch' in msg and classes[CLS_DIRECTIVE]) else \
                        CLS_ANNOT if ('NameError' in msg and classes[CLS_ANNOT]) else None
                    self.fail('conversion of %s fails in the factory protocol: %s' % (qn, msg[:200]), crec, 0, cls)
            try:
                self.correspond(case, crec, 0, fn, fn, d, classes, rec, origin='repo', nominal_ok=True)
            except KeyError:
                self.stat('repo:skipped:unrankable')

    def static_oracle(self, crec, ff, tf, classes):
        """The part of the oracle that needs no call: signature, default identity, globals, cells."""
        cleared_cls = CLS_CLEARED if classes[CLS_CLEARED] else None
        s0, s1 = inspect.signature(ff, follow_wrapped=False), inspect.signature(tf, follow_wrapped=False)
        shape = lambda s: [(p.name, p.kind.name, p.default is not inspect.Parameter.empty) for p in s.parameters.values()]
        if shape(s0) != shape(s1):
            self.fail('parameter names / kinds / order / optionality differ: %s vs %s' % (s0, s1), crec, 0, cleared_cls)
        d0, d1 = ff.__defaults__ or (), tf.__defaults__ or ()
        if len(d0) != len(d1) or any(a is not b for a, b in zip(d0, d1)):
            self.fail('__defaults__ elements are not the original objects', crec, 0, cleared_cls)
        k0, k1 = ff.__kwdefaults__ or {}, tf.__kwdefaults__ or {}
        if sorted(k0) != sorted(k1) or any(k0[k] is not k1[k] for k in k0):
            self.fail('__kwdefaults__ values are not the original objects', crec, 0, cleared_cls)
        if tf.__globals__ is not ff.__globals__:
            self.fail('__globals__ is not the original module dict', crec, 0, None)
        own = dict(zip(ff.__code__.co_freevars, ff.__closure__ or ()))
        got = dict(zip(tf.__code__.co_freevars, tf.__closure__ or ()))
        for n, cell in got.items():
            if n in own:
                if cell is not own[n]:
                    self.fail('free variable %s of the converted function is not bound to the original cell' % n, crec, 0, None)
            elif n not in ('ag__', tf.__name__):
                self.fail('converted function has a free variable %s the original has not' % n, crec, 0, None)

    # ---------------------------------------------------------------- L1: the real _PythonFnFactory
    def factory_case(self, rng, idx):
        transpiler, naming = self.transpiler, self.naming
        pool = ['a', 'b', 'c', 'd', 'e', 'zz', '__class__', 'B', '_u']
        declared = rng.sample(pool, rng.choice([0, 1, 2, 3, 4]))        # deliberately NOT sorted
        extra = rng.choice([['ag__'], ['ag__'], ['ag__', 'xl'], []])
        ent = 'ent'
        special = [ent, 'inner_factory', 'gname'] + extra
        refs = rng.sample(pool + special, rng.choice([0, 1, 2, 3, 5]))
        if rng.random() < 0.6:      # the usual situation: every declared name is still mentioned somewhere
            refs = refs + [x for x in declared if x not in refs and rng.random() < 0.7]
        nested_refs = rng.sample(pool + special, rng.choice([0, 0, 1, 2]))
        if len(refs) > 1 and rng.random() < 0.5:
            nested_refs = nested_refs + [x for x in declared if x not in refs]
        ann = rng.choice([None, None, 'gname', 'undefined_name'] + declared[:1] + extra[:1])
        ndef = rng.choice([0, 1, 2]); nkw = rng.choice([0, 1])
        params = ['x%d' % k for k in range(2)]
        ptxt = []
        for k, p in enumerate(params):
            s = p
            if ann and k == 0:
                s += ': ' + ann
            if k >= len(params) - ndef:
                s += ' = None'
            ptxt.append(s)
        if nkw:
            ptxt += ['*', 'kk=None']
        src = 'def %s(%s):\n' % (ent, ', '.join(ptxt))
        if nested_refs:
            src += '    def nested():\n        return (%s,)\n' % ', '.join(nested_refs)
        src += '    return (%s)\n' % (', '.join(refs) + (',' if refs else ''))
        node = ast.parse(src).body[0]
        glob = {'gname': int, '__name__': 'c09_l1'}
        extra_locals = {k: object() for k in extra}
        fac = transpiler._PythonFnFactory(ent, tuple(declared), extra_locals)
        namer = naming.Namer({})
        try:
            fac.create(node, namer)
        except Exception as e:
            raise common.InfraError('factory.create failed on synthetic entity: %r\n%s' % (e, src))
        ncl = rng.choice([len(declared)] * 4 + [max(0, len(declared) - 1), len(declared) + 1])
        cells = [types.CellType(1000 + k) for k in range(ncl)]
        dflt = rng.choice([None, (), (11,), (11, 12)])
        kwd = rng.choice([None, {}, {'kk': 13}])
        try:
            new_fn = fac.instantiate(glob, tuple(cells), dflt, kwd)
            outcome = ('ok', new_fn)
        except KeyError as e:
            outcome = ('keyError', e.args[0])
        except ValueError as e:
            outcome = ('closureMismatch', None) if 'closure mismatch' in str(e) else ('other', repr(e))
        except NameError as e:
            outcome = ('nameError', getattr(e, 'name', None))
        except Exception as e:   # noqa
            outcome = ('other', repr(e))
        facfree = list(fac._unbound_factory.__code__.co_freevars)
        inner = fac._unbound_factory.__name__
        names = set(pool + special + params + ['kk', inner, 'undefined_name', 'nested'])
        R = Ranker(names)
        dobjs = list(dflt or ()) + list((kwd or {}).values())

        def objmap(o):
            if o is None:
                return 0
            for j, x in enumerate(dobjs):
                if x is o:
                    return 500 + j
            return 999
        a = node.args
        entity = ['entity', R(ent), arguments_sexp(a, R, orig_ids=False), [], [R(x) for x in refs + nested_refs],
                  [R(ann)] if ann else []]
        req = '%s %d %s %s' % (sexp([R(x) for x in declared]), R(inner), sexp([R(x) for x in extra]), sexp(entity))
        self.stat('L1:' + outcome[0])
        self.run.case(('L1', tuple(declared), tuple(extra), tuple(refs), tuple(nested_refs), ann, ncl, ndef, nkw,
                       repr(dflt), repr(kwd)), bool(declared))
        if outcome[0] == 'ok':
            entfree = list(new_fn.__code__.co_freevars)
            self.add('c09.resolve ' + req, sexp([[R(x) for x in facfree], [R(x) for x in entfree]]), 'resolve', src)

            def cellmap(c, n):
                for j, oc in enumerate(cells):
                    if oc is c:
                        return ['o', j]
                return ['l', R(n)]
            obs = ['ok', fn_sexp(new_fn, R, cellmap, objmap, lambda g: 1 if g is glob else 2)]
        elif outcome[0] in ('keyError', 'nameError'):
            obs = ['error', outcome[0], R(outcome[1]) if outcome[1] in R.rank else 9999]
        elif outcome[0] == 'closureMismatch':
            obs = ['error', 'closureMismatch']
        else:
            obs = ['error', 'other', outcome[1]]
        self.add('c09.instantiate %s %s 1 %s %s %s' % (
            req, sexp([R('gname')] + [R(x) for x in names if hasattr(builtins, x)]),
            sexp([['o', j] for j in range(ncl)]),
            sexp('none' if dflt is None else [objmap(o) for o in dflt]),
            sexp('none' if kwd is None else [[R(k), objmap(v)] for k, v in kwd.items()])),
            sexp(obs), 'instantiate', src)

    # ---------------------------------------------------------------- L0: the general scoping rule vs compile()
    def scope_case(self, rng, idx):
        """Random nesting of function scopes (parameters, assignments, loads, nonlocal / global declarations, nested
        defs); co_freevars of every code object, in preorder, from the real compiler vs `Scope.allFreevars`."""
        pool = ['a', 'b', 'c', 'd', 'e', 'f']
        counter = [0]

        def gen(depth, env):
            name = 'fn%d' % counter[0]; counter[0] += 1
            params = rng.sample(pool, rng.choice([0, 0, 1, 2]))
            nl = [x for x in dict.fromkeys(env) if x in pool and x not in params and rng.random() < 0.3]
            gl = [x for x in pool if x not in params and x not in nl and rng.random() < 0.12]
            assigned = [x for x in pool if rng.random() < 0.25]
            loads = [x for x in pool if rng.random() < 0.4]
            kids_n = 0 if depth >= 3 else rng.choice([0, 1, 1, 2, 3] if depth < 2 else [0, 0, 1, 2])
            own = params + [x for x in assigned if x not in params and x not in nl and x not in gl]
            # nested def names are bound here too, but nothing mentions them, so they never matter for the children
            child_env = [x for x in env if x not in gl] + own
            kids = [gen(depth + 1, child_env) for _ in range(kids_n)]
            bound = own + [k['name'] for k in kids]
            return {'name': name, 'params': params, 'nl': nl, 'gl': gl, 'assigned': assigned, 'loads': loads,
                    'bound': bound, 'kids': kids}

        def render(sc, ind):
            I = ' ' * ind
            L = [I + 'def %s(%s):' % (sc['name'], ', '.join(sc['params']))]
            B = I + '    '
            if sc['gl']:
                L.append(B + 'global ' + ', '.join(sc['gl']))
            if sc['nl']:
                L.append(B + 'nonlocal ' + ', '.join(sc['nl']))
            for x in sc['assigned']:
                L.append(B + '%s = 0' % x)
            if sc['loads']:
                L.append(B + '(%s,)' % ', '.join(sc['loads']))
            for k in sc['kids']:
                L += render(k, ind + 4)
            L.append(B + 'return None')
            return L
        root = gen(0, [])
        src = '\n'.join(render(root, 0)) + '\n'
        try:
            mod_code = compile(src, '<c09-scopes>', 'exec')
        except SyntaxError as e:
            raise common.InfraError('generated scope nest does not compile: %r\n%s' % (e, src))

        def pre(code):
            out = [list(code.co_freevars)]
            for k in code.co_consts:
                if isinstance(k, types.CodeType):
                    out += pre(k)
            return out
        top = [k for k in mod_code.co_consts if isinstance(k, types.CodeType)][0]
        observed = pre(top)
        names = set(pool)

        def collect(sc):
            names.add(sc['name'])
            for k in sc['kids']:
                collect(k)
        collect(root)
        R = Ranker(names)

        def sx(sc):
            return ['scope', [R(x) for x in sc['bound']], [R(x) for x in sc['gl']],
                    [R(x) for x in sc['loads'] + sc['nl']], [sx(k) for k in sc['kids']]]
        self.run.case(('L0', src), len(observed) > 1)
        self.stat('L0:code_objects', len(observed))
        self.stat('L0:nonempty_freevars', len([o for o in observed if o]))
        self.add('c09.scopes ' + sexp(sx(root)), sexp([[R(x) for x in o] for o in observed]), 'scopes', src)

    # ---------------------------------------------------------------- L3: _erase_arg_defaults
    def erase_case(self, rng, idx):
        case = {'kind': 'toplevel', 'params': c09_gen.gen_signature(rng, False, False), 'future_annotations': False}
        c = c09_gen.normalise(dict(case, free=[], free_nested=[], free_write=[], unused=[], empty=[], globals=[], body='ret',
                                   super=None, decorated=False, doc=False, directive=None, clear=None, api='to_graph',
                                   recursive=True, ninst=1, sibling_conv=False, ret_ann=None, id=idx))
        text = 'def f(%s):\n    pass\n' % c09_gen.render_params(c)
        node = ast.parse(text).body[0]
        names = arg_names(node.args)
        R = Ranker(names)
        before = arguments_sexp(node.args, R)
        tr = self.transpiler.GenericTranspiler()
        node2 = tr._erase_arg_defaults(node)
        a = node2.args

        def dx(e):
            return 'nonec' if (isinstance(e, ast.Constant) and e.value is None) else ['orig', 777]
        after = ['args', [R(x.arg) for x in a.posonlyargs], [R(x.arg) for x in a.args], R(a.vararg.arg) if a.vararg else 'none',
                 [R(x.arg) for x in a.kwonlyargs], ['none' if e is None else dx(e) for e in a.kw_defaults],
                 R(a.kwarg.arg) if a.kwarg else 'none', [dx(e) for e in a.defaults]]
        self.run.case(('L3', text), True)
        self.add('c09.erase ' + sexp(before), sexp(after), 'erase', text)
        # parameter list / optional shape as the real inspect sees them
        ns = {}
        exec(compile(ast.fix_missing_locations(ast.Module(body=[node2], type_ignores=[])), '<c09-erase>', 'exec'),
             {'_dflt': lambda v: v}, ns)
        g = ns['f']
        npos_def = len(g.__defaults__ or ())
        kwd = [k for k, _ in code_params(g.__code__) if k in (g.__kwdefaults__ or {})]
        self.add('c09.shape ' + sexp(before),
                 sexp([[[R(n), k] for n, k in code_params(g.__code__)], npos_def, [R(k) for k in kwd]]), 'shape', text)


# ------------------------------------------------------------------------------------------------ forced coverage

def forced_cases():
    """Shapes every run must contain regardless of the seed (the quantifier's corners + the known findings)."""
    P = lambda n, k, d=None, a=None: {'name': n, 'kind': k, 'default': d, 'ann': a}
    allkinds = [P('p0', 'posonly'), P('p1', 'posonly', 'int'), P('q0', 'pos', 'list'), P('va', 'varpos'),
                P('k0', 'kwonly'), P('k1', 'kwonly', 'dict'), P('vk', 'varkw')]
    base = {'params': allkinds, 'free': ['a0', 'a1'], 'free_nested': ['n0', 'n1', 'n2'], 'free_write': ['w0'],
            'unused': ['u0'], 'empty': [], 'globals': ['g0', 'g1'], 'body': 'if', 'super': None, 'decorated': True,
            'doc': True, 'future_annotations': False, 'directive': None, 'clear': None, 'api': 'to_graph',
            'recursive': True, 'ninst': 1, 'sibling_conv': True, 'ret_ann': None}
    out = []
    out.append(dict(base, kind='nested'))
    out.append(dict(base, kind='nested', empty=['a0', 'n0'], body='while'))
    out.append(dict(base, kind='nested', api='convert', recursive=False))
    out.append(dict(base, kind='nested', free=[], free_nested=[], free_write=[], unused=['u0', 'u1']))
    out.append(dict(base, kind='lambda', empty=['a1']))
    out.append(dict(base, kind='method', super='both'))
    out.append(dict(base, kind='method', super='super', api='convert'))
    out.append(dict(base, kind='classmethod', super='class'))
    out.append(dict(base, kind='loop', ninst=3))
    out.append(dict(base, kind='looplambda', ninst=3))
    out.append(dict(base, kind='factory_loop', ninst=3, body='for'))
    out.append(dict(base, kind='toplevel'))
    # one code object, three namespaces (different __globals__), converted in sequence with equal options
    out.append(dict(base, kind='toplevel', namespaces=3, global_write=True, decorated=False))
    out.append(dict(base, kind='toplevel', namespaces=2, global_write=False, api='convert', body='for'))
    # write-only rebinding of closed-over variables inside if / while / for bodies, with and without a `global` declaration
    out.append(dict(base, kind='nested', cf_write=['x0', 'x1', 'x2'], decl_global=True))
    out.append(dict(base, kind='nested', cf_write=['x0', 'x1', 'x2'], decl_global=False, body='while'))
    out.append(dict(base, kind='nested', cf_write=['x0'], decl_global=True, free=[], free_nested=[], free_write=[],
                    api='convert', params=[P('q0', 'pos')]))
    out.append(dict(base, kind='method', super='super', cf_write=['x0', 'x1'], decl_global=True))
    out.append(dict(base, kind='factory_loop', ninst=2, cf_write=['x0', 'x1', 'x2'], decl_global=True))
    # conversion histories that must not leak one function's interface into another's
    lam_b = [P('vab', 'varpos'), P('k0b', 'kwonly', 'int')]
    lam_c = [P('q0c', 'pos'), P('q1c', 'pos', 'list'), P('vkc', 'varkw')]
    out.append(dict(base, kind='linelambdas', params=[P('q0', 'pos'), P('q1', 'pos', 'int')], params_more=[lam_b],
                    lam_free=[['a0', 'a1'], ['a0', 'a1']]))
    out.append(dict(base, kind='linelambdas', params=[P('q0', 'pos'), P('q1', 'pos', 'int')], params_more=[lam_b, lam_c],
                    lam_free=[['a0', 'a1'], ['a0'], []], api='convert'))
    out.append(dict(base, kind='linelambdas', free=[], params=[P('q0', 'pos')], params_more=[lam_c], lam_free=[[], []]))
    out.append(dict(base, kind='reloaded', decorated=False, params=[P('q0', 'pos'), P('q1', 'pos', 'int')],
                    params2=[P('va', 'varpos'), P('k0', 'kwonly', 'list')]))
    out.append(dict(base, kind='reloaded', decorated=True, api='convert', params=allkinds,
                    params2=[P('q0', 'pos', 'dict')]))
    out.append(dict(base, kind='toplevel', namespaces=3, ns_mode='reexec', global_write=True, decorated=True))
    # the converted entity carries __wrapped__: it is the wrapper whose interface / cells / behaviour must be kept
    own = [P('q0', 'pos'), P('q1', 'pos', 'int'), P('va', 'varpos'), P('k0', 'kwonly', 'list'), P('vk', 'varkw')]
    plain = dict(base, sibling_conv=False, decorated=False)
    out.append(dict(plain, kind='toplevel', wrap='wraps', wrap_sig='star', wrap_calls=True))
    out.append(dict(plain, kind='toplevel', wrap='update_wrapper', wrap_sig='own', wrap_calls=False, params=own))
    out.append(dict(plain, kind='toplevel', wrap='manual', wrap_sig='star', wrap_calls=False, api='convert'))
    out.append(dict(plain, kind='toplevel', wrap='stacked', wrap_sig='own', wrap_calls=True, params=own, namespaces=2))
    out.append(dict(plain, kind='nested', wrap='wraps', wrap_sig='star', wrap_calls=True))
    out.append(dict(plain, kind='nested', wrap='wraps', wrap_sig='own', wrap_calls=True, params=own, api='convert'))
    out.append(dict(plain, kind='nested', wrap='stacked', wrap_sig='star', wrap_calls=True, decorated=True))
    out.append(dict(plain, kind='nested', wrap='manual', wrap_sig='own', wrap_calls=False, params=own, free=[], free_nested=[],
                    free_write=[]))
    out.append(dict(plain, kind='factory_loop', ninst=2, wrap='update_wrapper', wrap_sig='own', wrap_calls=True, params=own))
    out.append(dict(plain, kind='loop', ninst=2, wrap='wraps', wrap_sig='star', wrap_calls=True))
    out.append(dict(plain, kind='method', super='super', wrap='wraps', wrap_sig='own', wrap_calls=True, params=own))
    # bound methods whose receiver is falsy, through every route (to_graph, convert wrapper, converted caller)
    out.append(dict(base, kind='method', super='both', falsy_self='len', api='convert'))
    out.append(dict(base, kind='method', super=None, falsy_self='bool'))
    out.append(dict(base, kind='method', super='super', falsy_self='len', recursive=False,
                    params=[P('q0', 'pos'), P('k0', 'kwonly', 'list')]))
    out.append(dict(base, kind='nested', directive='global'))
    out.append(dict(base, kind='nested', directive='closure_used'))
    out.append(dict(base, kind='nested', future_annotations=True,
                    params=[P('q0', 'pos', None, 'encl'), P('q1', 'pos', 'closure', 'global')], ret_ann='encl'))
    out.append(dict(base, kind='nested', params=[P('q0', 'pos', None, 'free'), P('k0', 'kwonly', 'closure', 'str')],
                    ret_ann='global'))
    return out


def finding_cases():
    """Witnesses of the known findings (also kept in corpus/C09)."""
    P = lambda n, k, d=None, a=None: {'name': n, 'kind': k, 'default': d, 'ann': a}
    base = {'params': [P('q0', 'pos'), P('q1', 'pos', 'int'), P('k0', 'kwonly', 'list')], 'free': ['a0'], 'free_nested': [],
            'free_write': [], 'unused': [], 'empty': [], 'globals': [], 'body': 'while', 'super': None, 'decorated': False,
            'doc': False, 'future_annotations': False, 'directive': None, 'clear': None, 'api': 'to_graph',
            'recursive': True, 'ninst': 1, 'sibling_conv': False, 'ret_ann': None, 'kind': 'nested'}
    return [dict(base, directive='closure_only'),
            dict(base, directive='arg_closure_only', body='ret'),
            dict(base, params=[P('q0', 'pos', None, 'encl')], body='ret'),
            dict(base, clear='both', body='ret'),
            dict(base, clear='defaults', body='if'),
            dict(base, clear='kwdefaults', body='for')]


# ------------------------------------------------------------------------------------------------ check

def check(run, only_cases=None):
    logging.disable(logging.ERROR)
    run.rule = ('generated modules: signature (positional-only / positional / *args / keyword-only / **kwargs, with and without '
                'int / mutable list / dict / closure-valued defaults, annotations) x closure shape (0..n free variables read '
                'directly, only through a nested def / lambda / comprehension, written with nonlocal, unused enclosing '
                'locals, cells still empty at conversion time, sibling setter/getter closures on every cell, a converted '
                'sibling) x entity kind (nested def, module-level def, lambda, bound method / classmethod with super() / '
                '__class__, defs and lambdas created in a loop sharing one code object and their cells, or made by a '
                'factory: one code object with distinct cells) x body (straight, if, while, for, directive calls) x api '
                '(to_graph / convert, recursive or not); a case is distinct by its whole shape tuple; non-trivial = has a '
                'free variable, a default or is a method.  L1 cases: synthetic entities given to the real _PythonFnFactory '
                'with unsorted declared free variables and closure tuples of right and wrong length')
    run.assumptions += [
        'CPython compiler free-variable resolution (symtable/compile: nearest enclosing function scope, co_freevars sorted, duplicate-free; super => __class__) is a PARAMETER of the model (Rt/Closure.lean factoryFreevars/entityFreevars), validated against the running interpreter by the c09.resolve correspondence',
        'types.FunctionType / def-statement semantics (closure[i] is the cell of co_freevars[i]; __globals__ is the dict given; __defaults__ None when the def has no defaults) are PARAMETERS of the model (execDef), validated by c09.instantiate / c09.transform',
        'bound methods forward __code__/__globals__/__closure__/__defaults__/__kwdefaults__ to __func__ (CPython)',
        'generated names (ag__, ag__<name>, inner_factory) are fresh with respect to the function\'s namespace (naming.Namer; property C11) — hypothesis FreshNames of C09_succeeds',
        'the passes keep every occurrence of a name the function does not bind, except inside directive statements (modelled in convertEntity; validated by c09.transform, proved nowhere: the Conv models belong to C01/C04)',
    ]
    run.translate(['Closure'])
    run.build_and_audit('MaltModel.Props.C09', model_files=MODEL_FILES)
    scratch = Scratch()
    try:
        cr = CaseRunner(run, scratch)
        quick = run.tier == 'quick'
        n_rand = 400 if quick else 2500
        n_l1 = 1000 if quick else 6000
        n_l3 = 300 if quick else 1500
        n_l0 = 1500 if quick else 10000
        cases = []
        if only_cases is not None:
            cases = [('replay', c) for c in only_cases]
        else:
            # corpus first
            cdir = os.path.join(common.VERIF, 'corpus', 'C09')
            if os.path.isdir(cdir):
                for fn in sorted(os.listdir(cdir)):
                    if fn.endswith('.json'):
                        with open(os.path.join(cdir, fn)) as fh:
                            j = json.load(fh)
                        cases.append(('corpus', j['case']))
            cases += [('finding', c) for c in finding_cases()]
            cases += [('forced', c) for c in forced_cases()]
            for k in range(n_rand):
                cases.append(('rand', c09_gen.gen_case(run.rng, k)))
        for idx, (tag, c) in enumerate(cases):
            c = c09_gen.normalise(dict(c))
            c['id'] = idx
            cr.run_case(c, '%s_s%d' % (tag, run.seed))
        if only_cases is None:
            for k in range(n_l1):
                cr.factory_case(run.rng, k)
            for k in range(n_l3):
                cr.erase_case(run.rng, k)
            for k in range(n_l0):
                cr.scope_case(run.rng, k)
            cr.repo_sweep(run.rng, 150 if quick else None)
            cr.bound_zoo(run.rng, 300 if quick else 1500)
        # ---------------- correspondence
        if run.driver_ok:
            idxs = [k for k, l in enumerate(cr.lines) if l is not None]
            got = run.drive([cr.lines[k] for k in idxs]) if idxs else []
            ans = dict(zip(idxs, got))
            dis = {}
            n_by = {}
            for k, (l, e, w, m) in enumerate(zip(cr.lines, cr.expect, cr.what, cr.meta)):
                n_by[w] = n_by.get(w, 0) + 1
                run.evaluations += 1
                if l is None:
                    dis.setdefault(w, []).append({'request': None, 'implementation': e})
                    continue
                g = ans[k]
                if w == 'transform':
                    # compare component-wise: result, classes, decorators, def-time trace, factory co_freevars
                    try:
                        E, G = parse_sexp(e), parse_sexp(g)
                    except Exception:
                        E, G = e, g
                    if E != G:
                        parts = ['result', 'classes', 'decorators', 'trace', 'facfree']
                        bad = [parts[j] for j in range(min(len(E), len(G), 5)) if E[j] != G[j]] if isinstance(G, list) else ['unparsable']
                        dis.setdefault(w, []).append({'request': l, 'implementation': e, 'model': g, 'differs_in': bad,
                                                      'case': m})
                elif e != g:
                    dis.setdefault(w, []).append({'request': l, 'implementation': e, 'model': g, 'source': m})
            # ---- the proved fragment and the finding classes partition what was explored
            bad_part, dist = [], {}
            for ent in cr.entities:
                g = ans.get(ent['line'])
                try:
                    tags = parse_sexp(g)[1:]
                except Exception:
                    tags = ['unparsable']
                failed = ent['key'] in cr.failed_keys
                tagset = '+'.join(tags) or 'in-proved-fragment'
                for dim, val in (('all', 'all'), ('kind', ent['kind']), ('signature', ent['sig']), ('free_variables', ent['fv'])):
                    dd2 = dist.setdefault(ent['origin'], {}).setdefault(dim, {}).setdefault(val, {})
                    dd2[tagset] = dd2.get(tagset, 0) + 1
                if not tags:
                    protocol_err = ent['outcome'] != 'ok' and any(x in ent['error'] for x in ('closure mismatch', 'NameError', 'KeyError'))
                    if failed or protocol_err or (ent['outcome'] != 'ok' and ent['origin'] == 'generated'):
                        bad_part.append({'entity': ent['name'], 'why': tags, 'problem': 'inside the proved fragment but the real conversion deviates', 'error': ent['error']})
                elif any(t not in FINDING_TAGS for t in tags):
                    bad_part.append({'entity': ent['name'], 'why': tags, 'problem': 'outside the proved fragment for a reason that is not a listed finding class'})
            if cr.entities:
                run.oblige('model:proved-fragment-has-no-finding-class', 'model', not bad_part, json.dumps(bad_part[:3], default=str)[:1500])
                run.cov['why_distribution'] = dist
                n_in = len([1 for e in cr.entities if parse_sexp(ans.get(e['line'], '(why ?)'))[1:] == []])
                run.cov['proved_fragment'] = {'entities': len(cr.entities), 'in_fragment': n_in,
                                              'in_a_finding_class': len(cr.entities) - n_in - len([b for b in bad_part if 'not a listed' in b['problem']])}
            for w in ('erase', 'shape', 'scopes', 'resolve', 'instantiate', 'why', 'transform', 'tograph', 'unwrap'):
                dd = dis.get(w, [])
                run.oblige('correspondence:c09.' + w, 'correspondence', not dd and (n_by.get(w, 0) > 0 or only_cases is not None),
                           json.dumps(dd[:2], default=str)[:1800] if dd else ('no case' if not n_by.get(w) else ''))
            run.cov['correspondence_lines'] = {w: n for w, n in n_by.items()}
            if idxs:
                k = idxs[len(idxs) // 3]
                run.sample({'request': cr.lines[k][:400], 'implementation': cr.expect[k][:300], 'model': ans[k][:300]})
        else:
            run.oblige('correspondence:c09', 'correspondence', False, 'driver unavailable')
        run.cov['distribution'] = dict(sorted(cr.stats.items()))
        run.cov['exhaustive'] = False
        run.cov['search'] = ('direct oracle on %d generated modules (%d function instances converted with the real to_graph/convert, '
                             '%d calls compared after rebinding every cell) + %d synthetic _PythonFnFactory cases'
                             % (len(cases), cr.stats.get('outcome:ok', 0) + cr.stats.get('outcome:ConversionError', 0),
                                cr.stats.get('calls', 0), n_l1 if only_cases is None else 0))
    finally:
        scratch.close()


def replay(run, path):
    with open(path) as f:
        rep = json.load(f)
    print(json.dumps({k: v for k, v in rep.items() if k != 'case'}, indent=1))
    case = rep.get('case', {}).get('case')
    if case is None:
        check(run)
    else:
        print(rep['case'].get('source', ''))
        check(run, only_cases=[case])
    return run.finish()
