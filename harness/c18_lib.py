"""C18 helpers: calling the real ANF transformer, configurations, model-output comparison."""
import ast, copy, re

import common
from common import sexp, parse_sexp
import pyast

EXPR_CLASSES = ['Name', 'Constant', 'Attribute', 'Subscript', 'Call', 'UnaryOp', 'BinOp', 'Compare', 'Tuple', 'List',
                'Set', 'Dict', 'Starred', 'NamedExpr', 'BoolOp', 'IfExp', 'Lambda', 'Slice', 'expr']
PARENT_CLASSES = ['Call', 'BinOp', 'UnaryOp', 'Compare', 'Attribute', 'Subscript', 'Tuple', 'List', 'Set', 'Dict',
                  'Return', 'Raise', 'If', 'For', 'With', 'While', 'Assert', 'BoolOp', 'IfExp', 'expr', 'stmt']
FIELDS = ['func', 'args', 'keywords', 'left', 'right', 'operand', 'comparators', 'value', 'slice', 'elts', 'keys', 'values',
          'test', 'iter', 'items', 'exc', 'cause', 'body', 'orelse', 'msg']


def _malt():
    from malt.pyct import transformer
    from malt.pyct.common_transformers import anf
    return transformer, anf


def simple_context():
    transformer, _ = _malt()
    return transformer.Context(transformer.EntityInfo(name='f', source_code=None, source_file=None, future_features=(),
                                                      namespace=None), None, None)


# ------------------------------------------------------------------ configurations
# A configuration is None (default) or a list of rules:
#   ['any', replace]                      (anf.ANY, REPLACE|LEAVE)
#   ['edge', P, F, C, replace]            P, C: None (ANY) or list of class names;  F: None or field name
def config_to_real(cfg):
    _, anf = _malt()
    if cfg is None:
        return None
    out = []
    for r in cfg:
        d = anf.REPLACE if r[-1] else anf.LEAVE
        if r[0] == 'any':
            out.append((anf.ANY, d))
        else:
            _, p, f, c, _ = r
            cls = lambda names: anf.ANY if names is None else (getattr(ast, names[0]) if len(names) == 1 else tuple(getattr(ast, n) for n in names))  # noqa: E731
            out.append((anf.ASTEdgePattern(cls(p), anf.ANY if f is None else f, cls(c)), d))
    return out


def config_to_sexp(cfg):
    if cfg is None:
        return 'default'
    out = []
    for r in cfg:
        if r[0] == 'any':
            out.append(['any', bool(r[1])])
        else:
            _, p, f, c, d = r
            out.append(['edge', 'any' if p is None else list(p), 'any' if f is None else ['f', f], 'any' if c is None else list(c), bool(d)])
    return sexp(out)


_LIT = ['edge', None, None, ['Constant', 'Name'], False]
# configurations that name *inner* positions only (never the direct operands of and/or/if-else/lambda/assert)
INNER_ONLY = [
    [_LIT, ['edge', ['Call'], None, ['expr'], True]],                     # name call arguments (and callees) only
    [['edge', ['Call'], 'args', None, True]],                             # ... including literals
    [_LIT, ['edge', ['Call', 'BinOp'], None, ['Call'], True]],            # name calls that are operands of calls / operators
    [_LIT, ['edge', ['Call', 'Tuple', 'Subscript', 'Attribute'], None, ['expr'], True]],
]


def random_config(rng):
    """Random edge-pattern configuration in the style of anf_test.py (class / tuple of classes / ANY slots)."""
    k = rng.random()
    if k < 0.10:
        return [['any', True]]
    if k < 0.15:
        return [['any', False]]
    rules = []
    for _ in range(rng.randint(1, 4)):
        p = None if rng.random() < 0.45 else rng.sample(PARENT_CLASSES, rng.choice([1, 1, 2]))
        f = None if rng.random() < 0.6 else rng.choice(FIELDS)
        c = None if rng.random() < 0.2 else rng.sample(EXPR_CLASSES, rng.choice([1, 1, 2, 3]))
        rules.append(['edge', p, f, c, rng.random() < 0.65])
    tail = rng.random()
    if tail < 0.35:      # the default tail
        rules += [['edge', None, None, ['Constant', 'Name'], False], ['edge', None, None, ['expr'], True]]
    elif tail < 0.5:
        rules.append(['edge', None, None, ['expr'], True])
    elif tail < 0.6:
        rules.append(['any', rng.random() < 0.5])
    return rules


# ------------------------------------------------------------------ the real transformer
_KIND = re.compile(r'^(?:Nontrivial )?(\w+) nodes')


def err_kind(e):
    msg = str(e)
    if isinstance(e, ValueError):
        if msg.startswith('Multi-ary compare'):
            return 'Compare'
        if msg.startswith('While with nontrivial'):
            return 'While'
        m = _KIND.match(msg)
        return m.group(1) if m else '?' + msg[:40]
    return '-'


def real_anf(fn_node, cfg):
    """Run anf.transform on a deep copy. -> ('ok', node) | ('err', ExcTypeName, kind)"""
    _, anf = _malt()
    node = copy.deepcopy(fn_node)
    try:
        out = anf.transform(node, simple_context(), config=config_to_real(cfg))
    except Exception as e:  # noqa
        return ('err', type(e).__name__, err_kind(e))
    return ('ok', out)


def real_answer(res):
    """Canonical text of the real result, in the format of the model's answer (ids stripped)."""
    if res[0] == 'err':
        return sexp(['err', res[1], res[2]])
    out = res[1]
    outs = out if isinstance(out, list) else [out]
    return sexp(['ok', [pyast.strip_ids(_strs(pyast.Ser(o).sexp)) for o in outs]])


def _strs(x):
    if isinstance(x, list):
        return [_strs(e) for e in x]
    if isinstance(x, bool):
        return 'True' if x else 'False'
    return str(x)


def model_answer_canon(line):
    """Model answer with ids stripped (same canonical text as real_answer)."""
    try:
        x = parse_sexp(line)
    except Exception:
        return line
    if isinstance(x, list) and x and x[0] == 'ok':
        return sexp(['ok', [pyast.strip_ids(s) for s in x[1]]])
    return sexp(x) if isinstance(x, list) else line


def model_stmts(line):
    """Model answer -> list of ast statements (or None)."""
    x = parse_sexp(line)
    if isinstance(x, list) and x and x[0] == 'ok':
        return [ast.fix_missing_locations(pyast.to_stmt(s)) for s in x[1]]
    return None
