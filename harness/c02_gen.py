"""Generator of the C02 program class: side-effect-free, total, definitely-assigned functions
`f(a, b, c, l)` (a, b, c ints, l a list of ints that is only read).

* pure: no tracer call, no mutation of arguments/globals; arithmetic on parameters and locals only
  (core profile: + - * comparisons and/or/not conditional expressions — the fragment shared with the Lean
  semantics; rich profile adds read-only closures / nested defs with their own control flow, `o.v` / `d['k']`
  state on attributes / keys that exist before the statement, `len`, `abs`);
* total: every `while` is bounded by its own counter that is reset immediately before the loop, every `for`
  iterates a finite list / `range` — so every branch and loop body terminates from *any* state (a tracing backend
  also runs the branches the original does not take);
* definitely assigned: the generator tracks the set of variables assigned on every path and reads only those
  (so no branch can raise NameError even when it runs out of band);
* if/elif/else, while, for, break/continue/return, nesting depth <= 4.

Rich programs take two more arguments, an object `o` (attributes v, w, flag) and a dict `d` (keys k, j, last) that
exist before the call ("fixed structure"); `o.flag` and `d['last']` are only ever WRITTEN by the program, so the only
observer is the caller: the oracle compares the final state of `o` and `d` as well as the result.

Documented limits are not generated: writes through called functions/methods (closures here only read),
for/while-else, mutation of collections.

`KNOWN_CLASS_PROGRAMS` are the witnesses of the known findings (DESIGN §8) — they are in the class of the
property and fail on the pinned tree.
"""
import hashlib, random

import progen

PRELUDE = progen.PRELUDE + '''\
class Obj(object):
    def __init__(self, v, w):
        self.v = v
        self.w = w
        self.flag = 0
'''

INPUTS = [(1, 2, 3, [1, 2]), (0, 0, 0, []), (-1, 5, 2, [3, -1, 4]), (4, 1, 0, [2]), (2, -3, 1, [0, 5, 1, 2])]


class Gen(object):
    def __init__(self, rng, size, rich, midreturn):
        self.rng = rng
        self.budget = size
        self.rich = rich
        self.midreturn = midreturn
        self.lines = []
        self.features = set()
        self.nw = 0
        self.nfn = 0
        self.ivars = ['x', 'y', 'z', 'w', 'u']
        self.closures = []      # (name, set of closed-over variables)
        self.uses_obj = False
        self.uses_dict = False
        self.s1 = False         # S1 constructs: with cm(k), try / except E1|E2 / finally, raise E1()|E2()
        self.ntag = 0
        self.readonly = set()   # variables of f that f itself only assigns at its top level (owned by a nonlocal-writing closure)
        self.nh = 0

    def emit(self, ind, s):
        self.lines.append(ind + s)

    # ------------------------------------------------------------------ expressions
    def leaf(self, da):
        r = self.rng
        pool = sorted(v for v in da if v in self.ivars or v in ('i', 'j', 'k') or v in self.readonly) + ['a', 'b', 'c']
        c = r.random()
        if c < 0.2:
            return str(r.randrange(-2, 6))
        if self.rich and c < 0.3 and self.uses_obj:
            self.features.add('attr_read')
            return r.choice(['o.v', 'o.w'])
        if self.rich and c < 0.38 and self.uses_dict:
            self.features.add('item_read')
            return r.choice(["d['k']", "d['j']"])
        if self.rich and c < 0.42:
            self.features.add('builtin')
            return 'len(l)'
        return r.choice(pool)

    def iexpr(self, da, depth=2):
        r = self.rng
        c = r.random()
        if depth <= 0 or c < 0.35:
            return self.leaf(da)
        if c < 0.65:
            return '(%s %s %s)' % (self.iexpr(da, depth - 1), r.choice(['+', '-']), self.iexpr(da, depth - 1))
        if c < 0.75:
            return '(%s * %d)' % (self.iexpr(da, depth - 1), r.randrange(-1, 4))
        if c < 0.85:
            self.features.add('ifexp')
            return '(%s if %s else %s)' % (self.iexpr(da, depth - 1), self.bexpr(da, depth - 1), self.iexpr(da, depth - 1))
        if self.rich and c < 0.93:
            ok = [g for g, fv in self.closures if g in da and fv <= da]
            if ok:
                self.features.add('closure_call')
                return '%s(%s)' % (r.choice(ok), self.iexpr(da, depth - 1))
        if self.rich and c < 0.96:
            self.features.add('builtin')
            return 'abs(%s)' % self.iexpr(da, depth - 1)
        return '(-%s)' % self.leaf(da)

    def bexpr(self, da, depth=2):
        r = self.rng
        c = r.random()
        if depth <= 0 or c < 0.5:
            return '%s %s %s' % (self.iexpr(da, depth - 1), r.choice(['<', '>', '==', '!=', '<=', '>=']), self.iexpr(da, depth - 1))
        if c < 0.65:
            self.features.add('and')
            return '(%s and %s)' % (self.bexpr(da, depth - 1), self.bexpr(da, depth - 1))
        if c < 0.8:
            self.features.add('or')
            return '(%s or %s)' % (self.bexpr(da, depth - 1), self.bexpr(da, depth - 1))
        self.features.add('not')
        return '(not %s)' % self.bexpr(da, depth - 1)

    # ------------------------------------------------------------------ statements
    def block(self, ind, da, depth, inloop, minlen=1):
        n = self.rng.randrange(minlen, 4)
        start = len(self.lines)
        for _ in range(n):
            da = self.stmt(ind, da, depth, inloop)
            if self.budget <= 0:
                break
        if len(self.lines) == start:
            self.emit(ind, 'pass')
        return da

    def assign(self, ind, da):
        r = self.rng
        v = r.choice(self.ivars)
        c = r.random()
        if c < 0.6 or v not in da:
            self.emit(ind, '%s = %s' % (v, self.iexpr(da)))
            return da | {v}
        if c < 0.8:
            self.features.add('augassign')
            self.emit(ind, '%s %s= %s' % (v, r.choice(['+', '-']), self.iexpr(da, 1)))
            return da
        if self.rich and c < 0.86:
            # a PURE composite write (never read by the program): only the caller observes it
            self.features.add('pure_composite_write')
            self.emit(ind, r.choice(["o.flag = %s", "d['last'] = %s"]) % self.iexpr(da, 1))
            return da
        if self.rich and self.uses_obj and c < 0.9:
            self.features.add('attr_store')
            self.emit(ind, 'o.%s = %s' % (r.choice(['v', 'w']), self.iexpr(da, 1)))
            return da
        if self.rich and self.uses_dict:
            self.features.add('item_store')
            self.emit(ind, "d[%r] = %s" % (r.choice(['k', 'j']), self.iexpr(da, 1)))
            return da
        self.emit(ind, '%s = %s' % (v, self.iexpr(da)))
        return da | {v}

    def stmt(self, ind, da, depth, inloop):
        r = self.rng
        self.budget -= 1
        c = r.random()
        F = self.features
        if depth <= 0 or c < 0.3:
            return self.assign(ind, da)
        if self.s1 and c < 0.5:
            k = r.random()
            if k < 0.3:
                F.add('with')
                self.ntag += 1
                self.emit(ind, 'with cm(%d):' % self.ntag)
                return self.block(ind + '    ', da, depth - 1, inloop)
            if k < 0.5:
                F.add('raise')
                self.emit(ind, 'if %s:' % self.bexpr(da, 1))
                self.emit(ind + '    ', 'raise %s()' % r.choice(['E1', 'E2']))
                return da
            F.add('try')
            self.emit(ind, 'try:')
            self.block(ind + '    ', da, depth - 1, inloop, minlen=2)
            m = r.random()
            if m < 0.8:
                F.add('except')
                self.emit(ind, 'except E1:')
                self.block(ind + '    ', da, depth - 1, inloop)
                if r.random() < 0.3:
                    self.emit(ind, 'except E2:')
                    self.block(ind + '    ', da, depth - 1, inloop)
            if m >= 0.8 or r.random() < 0.4:
                F.add('finally')
                self.emit(ind, 'finally:')
                self.block(ind + '    ', da, depth - 1, False)
            return da
        if c < 0.55:
            F.add('if')
            self.emit(ind, 'if %s:' % self.bexpr(da))
            outs = [self.block(ind + '    ', da, depth - 1, inloop)]
            m = r.random()
            if m < 0.3:
                F.add('elif')
                self.emit(ind, 'elif %s:' % self.bexpr(da, 1))
                outs.append(self.block(ind + '    ', da, depth - 1, inloop))
            if m < 0.65:
                self.emit(ind, 'else:')
                outs.append(self.block(ind + '    ', da, depth - 1, inloop))
            else:
                outs.append(da)
            res = outs[0]
            for o in outs[1:]:
                res = res & o
            return res
        if c < 0.68:
            F.add('while')
            self.nw += 1
            wv = 'n%d' % self.nw
            self.emit(ind, '%s = 0' % wv)
            da1 = da | {wv}
            self.emit(ind, 'while %s < %d and %s:' % (wv, r.randrange(1, 4), self.bexpr(da1, 1)))
            self.emit(ind + '    ', '%s += 1' % wv)
            self.block(ind + '    ', da1, depth - 1, True)
            return da1
        if c < 0.84:
            F.add('for')
            if r.random() < 0.2:
                tv = r.choice(self.ivars)
                F.add('for_target_is_variable')
            else:
                tv = r.choice(['i', 'j', 'k'])
            form = r.randrange(4 if self.rich else 3)
            if form == 0:
                self.emit(ind, 'for %s in l:' % tv)
            elif form == 1:
                self.emit(ind, 'for %s in range(%d):' % (tv, r.randrange(0, 4)))
            elif form == 2:
                F.add('for_range_expr')
                self.emit(ind, 'for %s in range(%s):' % (tv, r.choice(['a', 'b', 'c', '2 - a', 'b - 1'])))   # bounded by the inputs
            else:
                F.add('builtin')
                self.emit(ind, 'for %s in range(len(l)):' % tv)
            self.block(ind + '    ', da | {tv}, depth - 1, True)
            return da
        if c < 0.90 and inloop:
            kw = r.choice(['break', 'continue'])
            F.add(kw)
            self.emit(ind, 'if %s:' % self.bexpr(da, 1))
            self.emit(ind + '    ', kw)
            return da
        if c < 0.94 and self.midreturn:
            F.add('return')
            self.emit(ind, 'if %s:' % self.bexpr(da, 1))
            self.emit(ind + '    ', 'return %s' % self.iexpr(da, 1))
            return da
        if c < 0.965 and self.rich and depth >= 1:
            cand = sorted(v for v in da if v in self.ivars)
            if cand:
                return self.closure_rebind(ind, da, depth, r.choice(cand))
        if c < 0.99 and self.rich and depth >= 2:
            F.add('nested_def')
            self.nfn += 1
            g = 'g%d' % self.nfn
            self.emit(ind, 'def %s(p):' % g)
            # read-only closure with its own control flow; reads only variables that are assigned here
            inner = Gen(self.rng, 3, False, True)
            fv = set(v for v in da if v in self.ivars)
            inner_da = inner.block_as_function(ind + '    ', fv | {'p'}, depth - 2)
            self.lines.extend(inner.lines)
            self.features |= set('closure:' + f for f in inner.features)
            self.emit(ind + '    ', 'return %s' % inner.iexpr(inner_da, 1))
            self.closures.append((g, set(fv)))
            v = r.choice(self.ivars)
            self.emit(ind, '%s = %s(%s)' % (v, g, self.iexpr(da, 1)))
            return da | {v, g}
        return self.assign(ind, da)

    def closure_rebind(self, ind, da, depth, x):
        """A read-only closure over `x`; then control flow that changes `x`; then ONE statement that calls the closure
        and rebinds `x` (`x = g(e) + 1`): the only later reader of the changed `x` is the closure."""
        r = self.rng
        self.nfn += 1
        g = 'g%d' % self.nfn
        self.features.add('closure_rebind')
        self.emit(ind, 'def %s(p):' % g)
        if r.random() < 0.5:
            self.emit(ind + '    ', 'return (p + %s)' % x)
        else:
            self.emit(ind + '    ', 'if p > %d:' % r.randrange(-1, 3))
            self.emit(ind + '        ', 'return (%s - p)' % x)
            self.emit(ind + '    ', 'return (%s * 2)' % x)
        self.closures.append((g, {x}))
        da = da | {g}
        form = r.randrange(3)
        if form == 0:
            self.emit(ind, 'if %s:' % self.bexpr(da, 1))
            self.emit(ind + '    ', '%s = %s' % (x, r.choice(['(%s * 10)' % x, '(%s + 7)' % x, self.iexpr(da, 1)])))
        elif form == 1:
            self.emit(ind, 'for %s in l:' % r.choice(['i', 'j', 'k']))
            self.emit(ind + '    ', '%s = (%s + %s)' % (x, x, r.choice(['1', 'a', 'b'])))
        else:
            self.emit(ind, 'if %s:' % self.bexpr(da, 1))
            self.emit(ind + '    ', '%s = %s' % (x, self.iexpr(da, 1)))
            self.emit(ind, 'else:')
            self.emit(ind + '    ', '%s += %d' % (x, r.randrange(1, 4)))
        self.emit(ind, '%s = (%s(%s) + %d)' % (x, g, self.iexpr(da - {x}, 1) if (da - {x}) else 'a', r.randrange(0, 3)))
        return da

    def closure_after_join(self, ind, da, x):
        """Tail of a program: a read-only closure over `x` (re)defined at the END of a branch of varying length or in a loop
        body — a definition that does not read `x` precedes, so the name is definitely assigned; after the join an
        `if` doing a read-modify-write of `x`; then `x` is read ONLY through the closure, in the return expression.
        Whether the closure's free variables stay live after the join depends on the function definition reaching it."""
        r = self.rng
        self.nfn += 1
        g = 'g%d' % self.nfn
        self.features.add('closure_after_join')
        pad = lambda k: ['%s = %s' % (r.choice(['q1', 'q2', 'q3']), self.iexpr(da, 1)) for _ in range(k)]
        others = sorted(v for v in da if v in self.ivars and v != x)
        d0 = ['def %s(p):' % g, '    return (p + %s)' % (r.choice(others) if others and r.random() < 0.5 else '1')]   # does not read x
        d1 = ['def %s(p):' % g, '    return (p + %s)' % x]
        d2 = ['def %s(p):' % g, '    return (%s - p)' % x]
        form = r.randrange(4)
        if form < 2:
            # defined before (not reading x), redefined (reading x) at the end of the LONGER branch only
            for l in d0:
                self.emit(ind, l)
            long_first = form == 0
            n_long, n_short = r.randrange(3, 7), r.randrange(0, 2)
            self.emit(ind, 'if %s:' % self.bexpr(da, 1))
            for l in (pad(n_long) + d1) if long_first else (pad(n_short) or ['pass']):
                self.emit(ind + '    ', l)
            self.emit(ind, 'else:')
            for l in (pad(n_short) or ['pass']) if long_first else (pad(n_long) + d2):
                self.emit(ind + '    ', l)
        elif form == 2:
            # both branches define it (reading x), of different lengths
            n_long, n_short = r.randrange(3, 6), r.randrange(0, 2)
            self.emit(ind, 'if %s:' % self.bexpr(da, 1))
            for l in pad(n_long) + d1:
                self.emit(ind + '    ', l)
            self.emit(ind, 'else:')
            for l in pad(n_short) + d2:
                self.emit(ind + '    ', l)
        else:
            # defined before the loop (not reading x), redefined (reading x) in the loop body
            for l in d0:
                self.emit(ind, l)
            self.emit(ind, 'for %s in %s:' % (r.choice(['i', 'j', 'k']), r.choice(['l', 'range(2)', 'range(b)'])))
            for l in pad(r.randrange(1, 4)) + d1:
                self.emit(ind + '    ', l)
        self.emit(ind, 'if %s:' % self.bexpr(da - {x}, 1))
        self.emit(ind + '    ', '%s = %s' % (x, r.choice(['(%s * 10)' % x, '(%s + 7)' % x, '(%s - a)' % x])))
        return '(%s(%s) + %d)' % (g, self.iexpr(da - {x}, 1) if (da - {x}) else 'a', r.randrange(0, 3))

    def deep_closure_tail(self, ind, da, x):
        """Tail of a program: a closure chain nested 2-3 levels deep whose INNERMOST function reads `x` (def in def (in def);
        lambda in def, immediately called or stored inside the def) — or whose middle function rebinds `x` through
        `nonlocal`, or a lambda stored at f's level / in a default (the last three are classes of known findings) —; then
        control flow (if / nested if / while / for) that reads and reassigns `x`; then `x` is read ONLY through the chain, in
        the return expression: called directly, through an alias, or transitively through a sibling function.  The chain is
        the only thing that keeps `x` alive after the conditional."""
        r = self.rng
        self.nfn += 1
        g = 'g%d' % self.nfn
        self.features.add('deep_closure')
        others = sorted(v for v in da if v in self.ivars and v != x) or ['a']
        k = r.choice(others + ['2', '3'])
        c = r.random()
        if c < 0.34:
            shape = 'def2'
        elif c < 0.52:
            shape = 'def3'
        elif c < 0.64:
            shape = 'lambda_in_def'
        elif c < 0.74:
            shape = 'lambda_stored_in_def'
        elif c < 0.86:
            shape = 'middle_nonlocal'
        elif c < 0.93:
            shape = 'lambda_default'
        else:
            shape = 'lambda_stored'
        self.features.add('deep_closure:' + shape)
        body = r.choice(['(%s * p)' % x, '(%s + p)' % x, '(p - %s)' % x])
        if shape == 'def2':
            lines = ['def %s(p):' % g, '    def %si():' % g, '        return %s' % body, '    return (%si() + %s)' % (g, k)]
        elif shape == 'def3':
            lines = ['def %s(p):' % g, '    def %si(q):' % g, '        def %sj():' % g, '            return (%s + q)' % body,
                     '        return %sj()' % g, '    return %si(%s)' % (g, k)]
        elif shape == 'lambda_in_def':
            lines = ['def %s(p):' % g, '    return (lambda q: (%s + q))(%s)' % (body, k)]
        elif shape == 'lambda_stored_in_def':
            lines = ['def %s(p):' % g, '    %sh = (lambda q: (%s + q))' % (g, body), '    return %sh(%s)' % (g, k)]
        elif shape == 'middle_nonlocal':
            lines = ['def %s(p):' % g, '    def %si(q):' % g, '        nonlocal %s' % x, '        %s = (%s + q)' % (x, x),
                     '        def %sj():' % g, '            return (%s * 2)' % x, '        return %sj()' % g, '    return %si(p)' % g]
        elif shape == 'lambda_default':
            lines = ['def %s(p, h=(lambda: %s)):' % (g, x), '    return (h() + p)']
        else:
            lines = ['%s = (lambda p: %s)' % (g, body)]
        for l in lines:
            self.emit(ind, l)
        callee = g
        form = r.randrange(3)
        if form == 1:
            self.features.add('deep_closure:alias')
            self.emit(ind, '%sa = %s' % (g, g))
            callee = g + 'a'
        elif form == 2:
            self.features.add('deep_closure:transitive')
            self.emit(ind, 'def %st(p):' % g)
            self.emit(ind + '    ', 'return (%s(p) + 1)' % g)
            callee = g + 't'
        # control flow that reads and reassigns x; nothing else reads x afterwards
        rmw = lambda: r.choice(['(%s * 10)' % x, '(%s + 7)' % x, '(%s - a)' % x, '(%s + %s)' % (x, r.choice(others))])
        cf = r.randrange(5)
        nox = da - {x}
        if cf == 0:
            self.emit(ind, 'if %s:' % self.bexpr(nox, 1))
            self.emit(ind + '    ', '%s = %s' % (x, rmw()))
        elif cf == 1:
            self.emit(ind, 'if %s:' % self.bexpr(nox, 1))
            self.emit(ind + '    ', 'if %s:' % self.bexpr(nox, 1))
            self.emit(ind + '        ', '%s = %s' % (x, rmw()))
            self.emit(ind + '    ', 'else:')
            self.emit(ind + '        ', '%s = %s' % (x, rmw()))
        elif cf == 2:
            self.emit(ind, 'if %s:' % self.bexpr(nox, 1))
            self.emit(ind + '    ', '%s = %s' % (x, rmw()))
            self.emit(ind, 'elif %s:' % self.bexpr(nox, 1))
            self.emit(ind + '    ', '%s += %d' % (x, r.randrange(1, 4)))
        elif cf == 3:
            self.nw += 1
            n = 'n%d' % (self.nw + 20)
            self.emit(ind, '%s = 0' % n)
            self.emit(ind, 'while %s < %d:' % (n, r.randrange(1, 3)))
            self.emit(ind + '    ', '%s += 1' % n)
            self.emit(ind + '    ', 'if %s:' % self.bexpr(nox, 1))
            self.emit(ind + '        ', '%s = %s' % (x, rmw()))
        else:
            self.emit(ind, 'for %s in %s:' % (r.choice(['i', 'j', 'k']), r.choice(['l', 'range(2)'])))
            self.emit(ind + '    ', '%s = %s' % (x, rmw()))
        return '(%s(%s) + %d)' % (callee, self.iexpr(nox, 1) if nox else 'a', r.randrange(0, 3))

    def nonlocal_closure(self, ind, da):
        """At the top level of f only: a closure that WRITES a variable of f through `nonlocal`, with its own control
        flow, called at the top level.  The closure is never called from inside f's control flow (writes through called
        functions are a documented limit)."""
        r = self.rng
        self.nh += 1
        m, h = 'm%d' % self.nh, 'h%d' % self.nh
        self.features.add('nonlocal_closure')
        self.emit(ind, '%s = %s' % (m, self.iexpr(da, 1)))
        self.emit(ind, 'def %s(p):' % h)
        self.emit(ind + '    ', 'nonlocal %s' % m)
        inner = Gen(self.rng, 4, False, False)
        fv = set(v for v in da if v in self.ivars or v in self.readonly)
        inner.ivars = [m, 'q']

        def leaf(d):
            if inner.rng.random() < 0.25:
                return str(inner.rng.randrange(-2, 6))
            return inner.rng.choice(sorted(d))
        inner.leaf = leaf
        # half of the closures only write the nonlocal (it is then neither live into nor out of their statements:
        # only the `nonlocals` clause of _get_block_basic_vars keeps it in the state)
        start = fv | {'p', m} if r.random() < 0.5 else fv | {'p'}
        inner_da = inner.block(ind + '    ', start, 2, False, minlen=2)
        self.lines.extend(inner.lines)
        self.features |= set('nlclosure:' + f for f in inner.features)
        self.emit(ind + '    ', 'return %s' % inner.iexpr(inner_da, 1))
        if r.random() < 0.5:
            # f changes the variable in a branch between the definition and the call: the closure's access through
            # `nonlocal` is what keeps it live (the finding fixed by ccf3d44; a recurrence is a violation)
            self.features.add('nonlocal_closure_after_branch_write')
            self.emit(ind, 'if %s:' % self.bexpr(da, 1))
            self.emit(ind + '    ', '%s = %s' % (m, self.iexpr(da, 1)))
        v = r.choice(self.ivars)
        self.emit(ind, '%s = %s(%s)' % (v, h, self.iexpr(da, 1)))
        self.readonly.add(m)
        return da | {v, m}

    def block_as_function(self, ind, da, depth):
        """Body of a nested def: reads (never writes) the enclosing variables in `da`; its own locals are q, r."""
        self.ivars = ['q', 'r']

        def leaf(d):
            if self.rng.random() < 0.25:
                return str(self.rng.randrange(-2, 6))
            return self.rng.choice(sorted(d))
        self.leaf = leaf
        return self.block(ind, set(da), max(depth, 1), False)


def make_program(rng, size=10, rich=False, midreturn=False):
    g = Gen(rng, size, rich, midreturn)
    ind = '    '
    head = ['def f(a, b, c, l, o, d):' if rich else 'def f(a, b, c, l):']
    if rich and rng.random() < 0.6:
        g.uses_obj = True
    if rich and rng.random() < 0.5:
        g.uses_dict = True
    da = set()
    # most variables are initialised; the others must be assigned on every path before they are read
    for v, e in (('x', 'a'), ('y', 'b'), ('z', 'c'), ('w', '0'), ('u', '1')):
        if rng.random() < 0.75:
            g.emit(ind, '%s = %s' % (v, e))
            da.add(v)
    while g.budget > 0:
        if rich and g.nh < 2 and rng.random() < 0.2:
            da = g.nonlocal_closure(ind, da)
        da = g.stmt(ind, da, 4, False)
    ints = sorted(v for v in da if v in g.ivars)
    if rich and ints and rng.random() < 0.35:
        ret = g.closure_after_join(ind, da, rng.choice(ints))
    elif rich and ints and rng.random() < 0.4:
        ret = g.deep_closure_tail(ind, da, rng.choice(ints))
    elif rich and rng.random() < 0.5:
        parts = rng.sample(ints, min(len(ints), 2)) if ints else ['a']
        if g.uses_obj:
            parts.append('o.v')
        if g.uses_dict:
            parts.append("d['k']")
        ret = '(%s)' % ', '.join(parts + ['0'])
    else:
        ret = g.iexpr(da, 2) if ints else 'a'
    g.emit(ind, 'return %s' % ret)
    src = '\n'.join(head + g.lines) + '\n'
    feats = set(g.features)
    feats.add('rich' if rich else 'core')
    if midreturn:
        feats.add('midreturn')
    extra = (rng.randrange(-3, 6), rng.randrange(-3, 6), rng.randrange(-3, 6), [rng.randrange(-2, 5) for _ in range(rng.randrange(0, 4))])
    return progen.Program(PRELUDE + src, INPUTS + [extra], feats, 'c02')


def make_s1_program(rng, size=9):
    """Core statements plus `with cm(k)`, `try / except E1|E2 / finally`, `raise E1()|E2()` — NOT pure (cm logs enter/exit):
    used only for the correspondence of the Lean source / native semantics of the pass-through statements."""
    g = Gen(rng, size, False, False)
    g.s1 = True
    ind = '    '
    da = set()
    for v, e in (('x', 'a'), ('y', 'b'), ('z', 'c'), ('w', '0'), ('u', '1')):
        g.emit(ind, '%s = %s' % (v, e))
        da.add(v)
    while g.budget > 0:
        da = g.stmt(ind, da, 4, False)
    g.emit(ind, 'return %s' % g.iexpr(da, 2))
    src = '\n'.join(['def f(a, b, c, l):'] + g.lines) + '\n'
    feats = set(g.features) | {'s1'}
    return progen.Program(PRELUDE + src, list(INPUTS), feats, 'c02')


def make_wrap_program(rng, size=8):
    """Programs for the function-wrapper checks: core / s1 statements, with or without conditional returns, the final
    `return` dropped more often than not (falling off the end: `None`; no `return` at all: shape (a) of the wrapper)."""
    if rng.random() < 0.5:
        p = make_program(rng, size=size, rich=False, midreturn=rng.random() < 0.5)
    else:
        p = make_s1_program(rng, size=size)
    src = p.source
    feats = set(p.features) | {'wrap'}
    if rng.random() < 0.6:
        lines = src.rstrip('\n').split('\n')
        assert lines[-1].startswith('    return ')
        lines[-1] = '    pass'
        src = '\n'.join(lines) + '\n'
        feats.add('falls-off-end')
        if 'return' not in src[len(PRELUDE):]:
            feats.add('no-return')
    return progen.Program(src, list(p.inputs), feats, 'c02')


def programs(rng, n, size=10, profile='core'):
    made = 0
    while made < n and profile == 'wrap':
        p = make_wrap_program(rng, size=rng.randrange(max(3, size // 2), size + 1))
        try:
            compile(p.source, '<gen>', 'exec')
        except SyntaxError:
            continue
        made += 1
        yield p
    while made < n and profile == 's1':
        p = make_s1_program(rng, size=rng.randrange(max(3, size // 2), size + 1))
        try:
            compile(p.source, '<gen>', 'exec')
        except SyntaxError:
            continue
        made += 1
        yield p
    while made < n:
        rich = profile == 'rich'
        mid = (profile == 'rich' and rng.random() < 0.5) or (profile == 'core' and rng.random() < 0.15)
        p = make_program(rng, size=rng.randrange(max(3, size // 2), size + 1), rich=rich, midreturn=mid)
        try:
            compile(p.source, '<gen>', 'exec')
        except SyntaxError:
            continue
        made += 1
        yield p


# ------------------------------------------------------------------------------------------------
# witnesses of the known findings (programs of the C02 class that fail on the pinned tree)
# ------------------------------------------------------------------------------------------------
KNOWN_CLASS_PROGRAMS = {
    'for_target_live_across_zero_trip': '''def f(a, b, c, l):
    if a:
        i = 5
    else:
        i = 6
    for i in l:
        pass
    return i
''',
    'nested_function_parameter_shadows_global': '''def f(a, b, c, l):
    if c:
        k = (lambda G: G + 1)(1)
    else:
        k = 0
    return k + G
''',
    'state_var_unbound_local_of_enclosing_body': '''def f(a, b, c, l):
    t = 0
    if a:
        if c:
            t = 1
        else:
            t = 2
        b = b + t
        t = 7
    return b
''',
    'nonlocal_state_var_marked_input_only': '''def f(a, b, c, l):
    m = 3
    def h(p):
        nonlocal m
        if m > p:
            m = p
        return p
    z = h(a)
    return m
''',
    'nonlocal_in_closure_nested_two_levels': '''def f(a, b, c, l):
    x = a
    def g(p):
        def gi():
            nonlocal x
            x = x + p
            return x
        return gi()
    if c:
        x = x + 10
    return g(1)
''',
    'stored_lambda_reads_reassigned_variable': '''def f(a, b, c, l):
    x = a
    g = lambda q: x + q
    if c:
        x = x + 10
    return g(1)
''',
}


def known_program(cls):
    return progen.Program(PRELUDE + KNOWN_CLASS_PROGRAMS[cls], list(INPUTS), {'known:' + cls}, 'c02-known')
