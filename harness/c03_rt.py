"""C03 — runtime part: instrumented operators.

`Instrument(ag_modules, expect)` replaces `if_stmt/while_stmt/for_stmt/if_exp/and_/or_/not_` on the given `ag__`
module objects by wrappers which, on EVERY dynamic invocation, check the calling contract and then delegate to
the original operator, so the program runs as before.  Every probe of `set_state` is undone exactly (values
written back, composite entries the probe created are deleted again).

Checks of a control-flow operator invocation (caller frame = the frame executing the `ag__.xxx_stmt(...)` call):
  names          symbol_names is a tuple of str
  lengths        len(symbol_names) == len(get_state())
  denote         get_state()[i] *is* the value of the expression symbol_names[i] evaluated in the caller frame
                 (a composite whose container lacks it is read as Undefined(<that name>))
  get_pure       get_state() twice: same values, no tracer event, caller-frame variables unchanged
  get_set        set_state(get_state()): get_state() and the caller-frame variables unchanged   (*)
  set_get        set_state(vs) for fresh values vs: get_state() returns vs and the caller-frame variables are vs
  arity          inspect.signature of get_state/set_state/body/orelse/test/extra_test
  nouts          isinstance(nouts, int) and 0 <= nouts <= len(symbol_names)
  opts           loops: dict; for_stmt: has 'iterate_names'; the other keys are exactly the directive the user placed
                 in THAT loop (the generator gives loop number k the directive maximum_iterations=1000+k, so the value
                 identifies the loop) and iterate_names is that loop's unparsed target
Finding classes (each computed from the case, never from "it failed"; each is the negation of a hypothesis of a
`_partial` theorem of Props/C03.lean):
  missing_composite_written_back      get_set (*): some composite name of the tuple raised KeyError/AttributeError when
                                      evaluated in the caller frame before the probe   (Lean: missingComposite c σ)
  composite_base_undefined            a probe raised and the root variable of a composite name holds ag__.Undefined
  state_entry_indexes_by_state_entry  set_get: a composite name is subscripted by a variable that is itself in the tuple
                                      (Lean: dependentEntries es)
  aliased_state_entries               set_get: two composite names denote the same container slot at call time
                                      (Lean: aliasedEntries es σ)
Symbol names that are not Python expressions (str(QN) does not escape quotes: dd['it's']) are only checked on the
read side.  Every probe is undone: values written back, then every container of a composite entry gets exactly the
content it had before the probes.
"""
import ast, inspect, sys


class Sentinel(object):
    """Fresh value for the write-then-read probe; tolerates being used as a container."""

    def __init__(self, k):
        object.__setattr__(self, '_k', k)
        object.__setattr__(self, '_items', {})

    def __setitem__(self, k, v):
        self._items[k] = v

    def __getitem__(self, k):
        return self._items[k]

    def __delitem__(self, k):
        del self._items[k]

    def __repr__(self):
        return '<S%d>' % self._k


class _Unevaluable(object):
    """The symbol name is not a Python expression (str(QN) does not escape quotes: dd['it's'])."""

    def __repr__(self):
        return '<unevaluable>'


UNEVALUABLE = _Unevaluable()


class _Missing(object):
    def __init__(self, name, exc):
        self.name, self.exc = name, exc

    def __repr__(self):
        return '<missing %s: %s>' % (self.name, self.exc)


def is_composite(name):
    return '.' in name or '[' in name


def index_vars(name):
    """Variables used as subscripts inside a qualified-name string (`dd[x]` -> {'x'})."""
    try:
        tree = ast.parse(name, mode='eval')
    except SyntaxError:
        return set()
    out = set()
    for n in ast.walk(tree):
        if isinstance(n, ast.Subscript):
            for m in ast.walk(n.slice):
                if isinstance(m, ast.Name):
                    out.add(m.id)
    return out


def path_parts(name):
    """Variables and proper prefix paths the location of a qualified name goes through (`o.a[i]` -> {'o', 'o.a', 'i'})."""
    try:
        node = ast.parse(name, mode='eval').body
    except SyntaxError:
        return set()
    out = set()
    while isinstance(node, (ast.Attribute, ast.Subscript)):
        if isinstance(node, ast.Subscript):
            for m in ast.walk(node.slice):
                if isinstance(m, ast.Name):
                    out.add(m.id)
        node = node.value
        try:
            out.add(ast.unparse(node))
        except Exception:  # noqa
            pass
    return out


def dependent_entries(names):
    """Finding class `state_entry_indexes_by_state_entry` (Lean: dependentAt / staticDependent): the location of some
    entry of the tuple goes through a variable or a proper prefix path that the same tuple rewrites."""
    ns = set(names)
    return any(path_parts(n) & ns for n in names if is_composite(n))


class Instrument(object):
    def __init__(self, ag_modules, expect, undefined_cls):
        self.ags = ag_modules
        self.expect = expect or {}          # {'loops': {k: {'kind','target'}}, 'plain_for_targets': set, ...}
        self.Undefined = undefined_cls
        self.failures = []                  # dicts: what, cls, detail
        self.counts = {}
        self.saved = []
        self.seen_loops = set()

    # ------------------------------------------------------------------ install / remove
    def __enter__(self):
        for ag in self.ags:
            for name in ('if_stmt', 'while_stmt', 'for_stmt', 'if_exp', 'and_', 'or_', 'not_'):
                orig = getattr(ag, name)
                self.saved.append((ag, name, orig))
                setattr(ag, name, getattr(self, '_mk_' + name)(orig))
        return self

    def __exit__(self, *a):
        for ag, name, orig in reversed(self.saved):
            setattr(ag, name, orig)
        self.saved = []

    # ------------------------------------------------------------------ helpers
    def count(self, k, n=1):
        self.counts[k] = self.counts.get(k, 0) + n

    def fail(self, what, cls, **detail):
        self.count('fail:' + what)
        if len(self.failures) < 20:
            self.failures.append({'what': what, 'cls': cls, 'detail': {k: repr(v)[:300] for k, v in detail.items()}})

    def same(self, a, b):
        if a is b or a is UNEVALUABLE or b is UNEVALUABLE:
            return True
        if isinstance(a, self.Undefined) and isinstance(b, self.Undefined):
            return object.__getattribute__(a, 'symbol_name') == object.__getattribute__(b, 'symbol_name')
        if isinstance(a, _Missing) and isinstance(b, _Missing):
            return True
        return False

    def same_tuple(self, a, b):
        return len(a) == len(b) and all(self.same(x, y) for x, y in zip(a, b))

    def frame_vals(self, frame, names):
        out = []
        loc = frame.f_locals
        for n in names:
            try:
                out.append(eval(n, frame.f_globals, loc))
            except (KeyError, AttributeError, NameError, IndexError, TypeError) as e:
                out.append(_Missing(n, type(e).__name__))
            except SyntaxError:
                out.append(UNEVALUABLE)
                self.count('unevaluable_symbol_name')
        return tuple(out)

    def matches_frame(self, state, fvals, names):
        """state[i] is the frame value of names[i]; a missing composite reads as Undefined(name)."""
        for s, f, n in zip(state, fvals, names):
            if f is UNEVALUABLE:
                continue
            if isinstance(f, _Missing):
                if not (isinstance(s, self.Undefined) and object.__getattribute__(s, 'symbol_name') == n):
                    return False
            elif s is not f:
                return False
        return True

    def root_is_undefined(self, frame, name):
        root = name.split('.')[0].split('[')[0]
        try:
            return isinstance(eval(root, frame.f_globals, frame.f_locals), self.Undefined)
        except Exception:
            return False

    def nparams(self, fn):
        try:
            sig = inspect.signature(fn)
        except (TypeError, ValueError):
            return None
        ps = list(sig.parameters.values())
        if any(p.kind not in (p.POSITIONAL_OR_KEYWORD, p.POSITIONAL_ONLY) or p.default is not p.empty for p in ps):
            return -1
        return len(ps)

    def log_len(self, frame):
        log = frame.f_globals.get('LOG')
        return len(log) if isinstance(log, list) else None

    def containers(self, frame, names):
        """The container objects of the composite entries with a copy of their content (taken before any probe)."""
        out = []
        for n in names:
            if not is_composite(n):
                continue
            try:
                node = ast.parse(n, mode='eval').body
                obj = eval(compile(ast.Expression(node.value), '<c03>', 'eval'), frame.f_globals, frame.f_locals)
            except Exception:
                continue
            if isinstance(obj, (self.Undefined, Sentinel)) or any(obj is o for o, _ in out):
                continue
            if isinstance(obj, dict):
                out.append((obj, dict(obj)))
            elif isinstance(obj, list):
                out.append((obj, list(obj)))
            elif hasattr(obj, '__dict__'):
                out.append((obj, dict(obj.__dict__)))
        return out

    def aliased(self, frame, names):
        """Two composite entries denote the same location at call time (Lean: aliasedEntries)."""
        seen = set()
        for n in names:
            if not is_composite(n):
                continue
            try:
                node = ast.parse(n, mode='eval').body
                obj = eval(compile(ast.Expression(node.value), '<c03>', 'eval'), frame.f_globals, frame.f_locals)
                if isinstance(node, ast.Subscript):
                    key = ('item', repr(eval(compile(ast.Expression(node.slice), '<c03>', 'eval'), frame.f_globals, frame.f_locals)))
                else:
                    key = ('attr', node.attr)
            except Exception:
                continue
            k = (id(obj),) + key
            if k in seen:
                return True
            seen.add(k)
        return False

    def restore(self, frame, set_state, s1, names, before, conts):
        """Write the original values back, then give every container exactly the content it had before the probes."""
        try:
            set_state(s1)
        finally:
            for obj, snap in conts:
                if isinstance(obj, dict):
                    obj.clear(); obj.update(snap)
                elif isinstance(obj, list):
                    obj[:] = snap
                else:
                    obj.__dict__.clear(); obj.__dict__.update(snap)

    # ------------------------------------------------------------------ the contract of a control-flow operator call
    def check_state(self, op, frame, get_state, set_state, names, callbacks, nouts=None, opts=None):
        self.count('calls:' + op)
        ctx = {'op': op, 'names': names}
        self.count('clause:names_are_strings')
        if not (isinstance(names, tuple) and all(isinstance(n, str) for n in names)):
            self.fail('symbol_names is not a tuple of str', None, **ctx)
            return
        self.count('clause:distinct')
        if len(set(names)) != len(names):
            self.fail('a variable occurs twice in symbol_names', None, **ctx)
        # arity
        self.count('clause:arity')
        self.check_callbacks(op, names, callbacks, ctx)
        for label, fn, want in [('get_state', get_state, 0), ('set_state', set_state, 1)] + callbacks:
            if fn is None:
                continue
            got = self.nparams(fn)
            if got != want:
                self.fail('%s takes %s parameters, documented %d' % (label, got, want), None, **ctx)
        # nouts
        if op == 'if_stmt':
            self.count('clause:nouts_bounds')
            if not (isinstance(nouts, int) and not isinstance(nouts, bool) and 0 <= nouts <= len(names)):
                self.fail('nouts out of bounds', None, nouts=nouts, **ctx)
        # opts
        if op in ('while_stmt', 'for_stmt'):
            self.check_opts(op, opts, ctx)
        # state probes
        n0 = self.log_len(frame)
        before = self.frame_vals(frame, names)
        conts = self.containers(frame, names)
        try:
            s1 = get_state()
        except (NameError, KeyError, AttributeError, IndexError, TypeError) as e:
            self.count('getter_raised:' + type(e).__name__)
            return
        missing = [n for n, b in zip(names, before) if isinstance(b, _Missing) and is_composite(n)]
        cls = 'missing_composite_written_back' if missing else None
        self.count('clause:lengths')
        if not isinstance(s1, tuple) or len(s1) != len(names):
            self.fail('len(symbol_names) != len(get_state())', None, state=s1, **ctx)
            return
        # the class of (state tuple, store) of this invocation: exactly one (Lean: classify)
        undefined_roots = [n for n in names if is_composite(n) and self.root_is_undefined(frame, n)]
        pyclass = ('undefinedBase' if undefined_roots else 'missingComposite' if missing
                   else 'dependent' if dependent_entries(names) else 'aliased' if self.aliased(frame, names) else 'lawful')
        self.count('class:' + pyclass)
        nfail0 = sum(v for k, v in self.counts.items() if k.startswith('fail:'))
        self.count('clause:positions')
        if not self.matches_frame(s1, before, names):
            self.fail('get_state()[i] is not the caller-frame value of symbol_names[i]', None, state=s1, frame=before, **ctx)
        dirty = False
        try:
            self.count('clause:get_pure')
            s2 = get_state()
            mid = self.frame_vals(frame, names)
            if not self.same_tuple(s1, s2) or not self.same_tuple(before, mid) or self.log_len(frame) != n0:
                self.fail('get_state() is not pure', None, first=s1, second=s2, **ctx)
            if any(b is UNEVALUABLE for b in before):
                # the container of such an entry cannot be located from the name, so a probe of set_state could not be
                # undone exactly: only the read-side checks are made for this invocation
                self.count('set_probes_skipped_unevaluable_name')
                return
            # (*) write back what was just read
            self.count('clause:get_set')
            dirty = True
            set_state(s1)
            s3 = get_state()
            after = self.frame_vals(frame, names)
            if not self.same_tuple(s1, s3):
                self.fail('set_state(get_state()) changes get_state()', cls, before=s1, after=s3, missing=missing, **ctx)
            if not self.same_tuple(before, after):
                self.fail('set_state(get_state()) changes the caller-frame variables', cls,
                          before=before, after=after, missing=missing, **ctx)
                self.count('writeback_changed_frame')
            if self.log_len(frame) != n0:
                self.fail('set_state/get_state produce tracer events', None, **ctx)
            # write then read
            aliased = self.aliased(frame, names)
            vs = tuple(Sentinel(i) for i in range(len(names)))
            self.count('clause:set_get')
            self.count('clause:setter_reaches_caller_variables')
            set_state(vs)
            s4 = get_state()
            f4 = self.frame_vals(frame, names)
            cls2 = ('state_entry_indexes_by_state_entry' if dependent_entries(names)
                    else 'aliased_state_entries' if aliased else None)
            if not (len(s4) == len(vs) and all(a is b for a, b in zip(s4, vs))):
                self.fail('get_state() after set_state(vs) is not vs', cls2, got=s4, **ctx)
            if not all(a is b or a is UNEVALUABLE for a, b in zip(f4, vs)):
                self.fail('after set_state(vs) the caller-frame variables are not vs', cls2, got=f4, **ctx)
            if dependent_entries(names):
                self.count('probed_with_dependent_entries')
            self.count('probed')
            if names:
                self.count('probed_nonempty')
            if missing:
                self.count('probed_with_missing_composite')
        except Exception as e:  # noqa -- a probe must never change what the program does
            roots_undefined = [n for n in names if is_composite(n) and self.root_is_undefined(frame, n)]
            self.fail('set_state/get_state probe raised %s' % type(e).__name__,
                      'composite_base_undefined' if roots_undefined else cls, error=e, missing=missing,
                      undefined_roots=roots_undefined, **ctx)
        finally:
            if pyclass == 'lawful' and sum(v for k, v in self.counts.items() if k.startswith('fail:')) != nfail0:
                self.count('FAILURE-IN-LAWFUL-CLASS')
            try:
                if dirty:
                    self.restore(frame, set_state, s1, names, before, conts)
                fin = self.frame_vals(frame, names)
                if not self.same_tuple(before, fin):
                    self.count('RESTORE-FAILED')
            except Exception as e:  # noqa
                self.count('RESTORE-RAISED:' + type(e).__name__)

    def check_callbacks(self, op, names, callbacks, ctx):
        """The callbacks write caller-visible variables only through the declared names: every store of the body / orelse /
        extra_test code to a free (closure) variable or to a global is a store to a simple state variable; the `test`
        function of a while_stmt stores to none.  (A store to a local of the callback, or to a cell it owns, is its own.)"""
        import dis
        self.count('clause:callbacks_write_only_declared_names')
        simple = {n for n in names if not is_composite(n)}
        for label, fn, _ in callbacks:
            code = getattr(fn, '__code__', None)
            if code is None:
                continue
            free = set(code.co_freevars)
            for ins in dis.get_instructions(code):
                if ins.opname in ('STORE_DEREF', 'DELETE_DEREF') and ins.argval in free or ins.opname in ('STORE_GLOBAL', 'DELETE_GLOBAL'):
                    if label == 'test' or ins.argval not in simple:
                        self.fail('%s writes %s, which is not a declared state variable' % (label, ins.argval), None, **ctx)
                        return

    def check_opts(self, op, opts, ctx):
        self.count('clause:opts')
        if not isinstance(opts, dict):
            self.fail('opts is not a dict', None, opts=opts, **ctx)
            return
        o = dict(opts)
        if op == 'for_stmt':
            if 'iterate_names' not in o or not isinstance(o['iterate_names'], str):
                self.fail('for_stmt opts lack iterate_names', None, opts=opts, **ctx)
                return
            it = o.pop('iterate_names')
        elif 'iterate_names' in o:
            self.fail('while_stmt opts carry iterate_names', None, opts=opts, **ctx)
            return
        if not self.expect:
            return
        kind = 'for' if op == 'for_stmt' else 'while'
        if not o:
            # a loop without directive: must be one of the source loops of that kind that carry none
            if op == 'for_stmt':
                if it not in self.expect['plain_for_targets']:
                    self.fail('iterate_names is not the target of a directive-less for loop', None, opts=opts, **ctx)
            elif not self.expect['plain_while']:
                self.fail('a while loop lost its directive', None, opts=opts, **ctx)
            self.count('opts_plain')
            return
        keys = sorted(o)
        k = o.get('maximum_iterations')
        loop = self.expect['loops'].get(k - 1000) if isinstance(k, int) else None
        if loop is None or loop['kind'] != kind or keys != sorted(loop['opts']) or any(o[q] != loop['opts'][q] for q in keys):
            self.fail('loop options are not the directive placed in that loop', None, opts=opts, expected=loop, **ctx)
            return
        if op == 'for_stmt' and it != loop['target']:
            self.fail('iterate_names is not the unparsed target of the loop carrying the directive', None, opts=opts, expected=loop, **ctx)
        self.seen_loops.add(k - 1000)
        self.count('opts_directive')

    # ------------------------------------------------------------------ wrappers
    def _mk_if_stmt(self, orig):
        def if_stmt(cond, body, orelse, get_state, set_state, symbol_names, nouts):
            self.check_state('if_stmt', sys._getframe(1), get_state, set_state, symbol_names,
                             [('body', body, 0), ('orelse', orelse, 0)], nouts=nouts)
            return orig(cond, body, orelse, get_state, set_state, symbol_names, nouts)
        return if_stmt

    def _mk_while_stmt(self, orig):
        def while_stmt(test, body, get_state, set_state, symbol_names, opts):
            self.check_state('while_stmt', sys._getframe(1), get_state, set_state, symbol_names,
                             [('test', test, 0), ('body', body, 0)], opts=opts)
            return orig(test, body, get_state, set_state, symbol_names, opts)
        return while_stmt

    def _mk_for_stmt(self, orig):
        def for_stmt(iter_, extra_test, body, get_state, set_state, symbol_names, opts):
            self.check_state('for_stmt', sys._getframe(1), get_state, set_state, symbol_names,
                             [('extra_test', extra_test, 0), ('body', body, 1)], opts=opts)
            return orig(iter_, extra_test, body, get_state, set_state, symbol_names, opts)
        return for_stmt

    def _mk_if_exp(self, orig):
        def if_exp(cond, if_true, if_false, expr_repr):
            self.count('calls:if_exp')
            if self.nparams(if_true) != 0 or self.nparams(if_false) != 0 or not isinstance(expr_repr, str):
                self.fail('if_exp arguments are not (cond, thunk, thunk, str)', None, op='if_exp')
            return orig(cond, if_true, if_false, expr_repr)
        return if_exp

    def _mk_and_(self, orig):
        def and_(a, b):
            self.count('calls:and_')
            if self.nparams(a) != 0 or self.nparams(b) != 0:
                self.fail('and_ arguments are not two thunks', None, op='and_')
            return orig(a, b)
        return and_

    def _mk_or_(self, orig):
        def or_(a, b):
            self.count('calls:or_')
            if self.nparams(a) != 0 or self.nparams(b) != 0:
                self.fail('or_ arguments are not two thunks', None, op='or_')
            return orig(a, b)
        return or_

    def _mk_not_(self, orig):
        def not_(a):
            self.count('calls:not_')
            return orig(a)
        return not_
