"""C04 — every overloadable construct is routed through its operator.

1. build + audit Props/C04.lean (verified checker `noNative_sound`, structural theorems about the models of the expression
   passes) and Props/C01Exprs.lean (semantic equivalence of the expression wrappers under the default operators);
2. correspondence of the models of functions / directives / call_trees / conditional_expressions / logical_expressions /
   variables with the real passes (c04_exprs.check on every recorded pass input);
3. the verified checker `noNative` on the REAL final tree of every generated program / context / configuration;
4. the dynamic count oracle (c04_dyn): operator invocations vs construct executions.
"""
import ast, json, multiprocessing, os, random, subprocess, sys, time, traceback

import common
import progen
import pyast
from common import sexp, parse_sexp

MODEL_FILES = ['MaltModel/Conv/Tmpl.lean', 'MaltModel/Conv/Functions.lean', 'MaltModel/Conv/Directives.lean',
               'MaltModel/Conv/CallTrees.lean', 'MaltModel/Conv/IfExp.lean', 'MaltModel/Conv/Logical.lean',
               'MaltModel/Conv/Variables.lean', 'MaltModel/Conv/NoNative.lean', 'MaltModel/Proofs/C04Traverse.lean',
               'MaltModel/Proofs/C04Passes.lean', 'MaltModel/Proofs/C04Calls.lean', 'MaltModel/Proofs/C04Sound.lean',
               'MaltModel/Proofs/C04Mono.lean', 'MaltModel/Proofs/C04MonoPasses.lean', 'MaltModel/Conv/LoopTest.lean', 'MaltModel/Sem/Operators.lean',
               'MaltModel/Proofs/C01Exprs.lean', 'MaltModel/Proofs/C01ExprsStmt.lean', 'MaltModel/Proofs/C01ExprsTarget.lean',
               'MaltModel/Sem/Wrappers.lean', 'MaltModel/Sem/WrappersStmt.lean', 'MaltModel/Sem/WrappersTarget.lean', 'MaltModel/Conv/Slices.lean', 'MaltModel/Drv/C04.lean']

CLS_IFEXP = 'ifexp_nested_in_ifexp_branch'
CLS_DIRECTIVE = 'call_in_loop_directive_argument'
CLS_ANNOT = 'call_in_parameter_annotation'
ALL_CFG_CONSTRUCTS = ('print', 'eq', 'noteq', 'chain', 'nested_ifexp', 'debugger')


# ------------------------------------------------------------------------------------------------
# worker (one process per core): trace, drive the Lean driver, compare, check, count
# ------------------------------------------------------------------------------------------------
_W = {}


def _winit(repo):
    sys.path.insert(0, repo)
    import logging
    logging.disable(logging.WARNING)
    import c04_exprs, c04_dyn, passes   # noqa
    sys.stdout = open(os.devnull, 'w')     # generated programs may print
    _W['ws'] = progen.Workspace()
    import atexit
    atexit.register(_W['ws'].close)


def _drive(lines):
    if not lines:
        return []
    p = subprocess.run([common.driver_path('C04')], input='\n'.join(lines) + '\n', text=True,
                       stdout=subprocess.PIPE, stderr=subprocess.PIPE, timeout=900)
    if p.returncode != 0:
        raise common.InfraError('driver exited %d: %s' % (p.returncode, p.stderr[-300:]))
    out = p.stdout.split('\n')
    if out and out[-1] == '':
        out.pop()
    if len(out) != len(lines):
        raise common.InfraError('driver answered %d lines for %d requests' % (len(out), len(lines)))
    return out


def _fsrc(prog):
    import c04_exprs as cx
    if prog.kind == 'context':
        return prog.source[len(cx.CTX_PRELUDE):]
    if prog.kind == 'random':
        return prog.source[len(progen.RANDOM_PRELUDE):]
    if prog.kind == 'skeleton':
        return prog.source[len(progen.PRELUDE):]
    return prog.meta.get('fsrc') or prog.source


def _entity_node(fsrc):
    """The AST of the converted entity as the converter sees it (the def, or the lambda)."""
    t = ast.parse(fsrc).body[-1]
    if isinstance(t, ast.Assign) and isinstance(t.value, ast.Lambda):
        return t.value
    return t


def _count_kinds(sx, acc):
    """node kinds (= cases of the structural inductions) occurring in a serialised tree"""
    stack = [sx]
    while stack:
        x = stack.pop()
        if isinstance(x, list):
            if x and isinstance(x[0], str) and len(x) > 1 and str(x[1]).isdigit():
                k = x[0]
                if k == 'Compare':
                    for op in x[3]:
                        acc['Compare:' + op] = acc.get('Compare:' + op, 0) + 1
                elif k == 'UnaryOp':
                    k = 'UnaryOp:' + x[2]
                elif k == 'BoolOp':
                    k = 'BoolOp:' + x[2]
                elif k in ('Other', 'OtherStmt'):
                    k = x[2]
                acc[k] = acc.get(k, 0) + 1
            stack.extend(x)
    return acc


def _task(arg):
    try:
        return _task_inner(arg)
    except common.InfraError as e:
        return {'infra': str(e)}
    except Exception:
        return {'infra': traceback.format_exc()[-1500:]}


def _task_history(pj, pairs):
    """History slice: for every ordered pair (A, B) of option sets, a FRESH copy of the function is converted through the
    real `malt.to_graph` (process-wide transpiler and cache) first under A, then under B; what the API SERVES for each request
    is checked with `noNative` under the option set of THAT request and with the dynamic operator counts."""
    import inspect, textwrap
    import malt
    import c04_exprs as cx, c04_dyn as dyn
    from malt.core import converter
    prog = progen.Program.from_json(pj)
    prog.kind = pj['kind']
    ws = _W['ws']
    res = {'key': prog.key, 'kind': 'history', 'construct': pj.get('construct'), 'context': 'history', 'cases': [], 'load_error': None}
    fsrc = prog.source[len(cx.CTX_PRELUDE):]
    orig_sx = pyast.Ser(_entity_node(fsrc)).text()
    for pi, (A, B) in enumerate(pairs):
        try:
            mod = ws.load(prog)
        except Exception as e:  # noqa
            res['load_error'] = repr(e)[:200]
            return res
        fn = mod.f
        for step, names in enumerate((A, B)):
            feats = tuple(getattr(converter.Feature, n) for n in names)
            eq_on = 'EQUALITY_OPERATORS' in names
            bi_on = 'BUILTIN_FUNCTIONS' in names
            tag = 'hist:%s>%s#%d' % ('+'.join(x[0] for x in A) or '-', '+'.join(x[0] for x in B) or '-', step)
            case = {'cfg': tag, 'cfg_id': [list(A), list(B), step], 'dis': [], 'npass': {}, 'off': None, 'nested': None, 'dircalls': 0,
                    'anncalls': 0, 'error': None, 'dyn': [], 'skip_seen': 0, 'kinds': {}, 'pass_kinds': {}, 'regions': [[], [], []]}
            try:
                g = malt.to_graph(fn, recursive=False, experimental_optional_features=(feats or None))
                src = textwrap.dedent(inspect.getsource(g))
                node = ast.parse(src).body[0]
            except Exception as e:  # noqa
                case['error'] = '%s: %s' % (type(e).__name__, str(e)[:120])
                res['cases'].append(case)
                continue
            ftxt = pyast.Ser(node).text()
            ans = _drive(['c04.nonative %s %s %s' % (sexp(eq_on), sexp(bi_on), ftxt), 'c04.regions ' + ftxt])
            case['off'] = parse_sexp(ans[0])
            rg = parse_sexp(ans[1])
            offids = set(o[1] for o in case['off'])
            case['regions'] = [[i for i in r if i in offids] for r in rg]
            case['final_source'] = src if case['off'] else None
            try:
                isrc = dyn.instrument(fsrc, bi_on)
                cnt_o = dyn.Counter(); cnt_o.install(mod)
                exec(compile(isrc, '<c04-instrumented>', 'exec'), mod.__dict__)
                agmod = dyn.ag_module_of(g)
                cnt_c = dyn.Counter()
                if agmod is not None:
                    cnt_c.patch(agmod)
                    try:
                        for inp in prog.inputs[:2]:
                            dec = prog.decisions[0]
                            r0 = progen.run_program(mod, mod.f, inp, dec)
                            cnt_o.reset()
                            r1 = progen.run_program(mod, mod._c04_f, inp, dec)
                            co = cnt_o.snapshot()
                            cnt_c.reset()
                            r2 = progen.run_program(mod, g, inp, dec)
                            cc = cnt_c.snapshot()
                            same = (r0[0] == r1[0] == r2[0]) and (r0[1] == r1[1] == r2[1])
                            fine = r0[0][0] == 'ret' or r0[0][1] in ('E1', 'E2')
                            case['dyn'].append({'input': list(inp), 'decisions': list(dec), 'comparable': bool(same and fine),
                                                'instr_same': r0[0] == r1[0] and r0[1] == r1[1], 'orig': co, 'ops': cc,
                                                'outcome': list(r0[0])[:1]})
                    finally:
                        cnt_c.unpatch()
            except Exception as e:  # noqa
                case['dyn_error'] = repr(e)[:200]
            res['cases'].append(case)
        ws.unload(mod)
    return res


def _task_inner(arg):
    import c04_exprs as cx, c04_dyn as dyn, passes
    from malt.core import converter
    pj, cfg_ids, do_dyn = arg
    if isinstance(cfg_ids, tuple) and cfg_ids and cfg_ids[0] == 'hist':
        return _task_history(pj, cfg_ids[1])
    prog = progen.Program.from_json(pj)
    prog.kind = pj['kind']
    prog.meta = pj.get('meta', {})
    ws = _W['ws']
    res = {'key': prog.key, 'kind': prog.kind, 'construct': pj.get('construct'), 'context': pj.get('context'),
           'cases': [], 'load_error': None}
    try:
        mod = ws.load(prog)
    except Exception as e:  # noqa
        res['load_error'] = repr(e)[:200]
        return res
    cfgs = cx.configs()
    fsrc = _fsrc(prog)
    orig_sx = None
    try:
        orig_sx = pyast.Ser(_entity_node(fsrc)).text()
    except Exception:
        pass
    for ci in cfg_ids:
        rec_, fs = cfgs[ci]
        options = cx.make_options(rec_, fs)
        eq_on = bool(options.uses(converter.Feature.EQUALITY_OPERATORS))
        bi_on = bool(options.uses(converter.Feature.BUILTIN_FUNCTIONS))
        case = {'cfg': cx.cfg_key(rec_, fs), 'cfg_id': ci, 'dis': [], 'npass': {}, 'off': None, 'nested': None, 'dircalls': None, 'anncalls': None,
                'error': None, 'dyn': [], 'skip_seen': 0, 'kinds': {}, 'pass_kinds': {}}
        tr = cx.trace(mod.f, options)
        case['skip_seen'] = cx._state['skip_seen']
        if tr.error is not None:
            case['error'] = '%s: %s' % (type(tr.error).__name__, str(tr.error)[:120])
        # ---- requests
        lines, meta = [], []
        gen_before = []
        dir_rec = None
        for r in tr.passes:
            if r.name == 'DirectivesTransformer':
                dir_rec = r
            line = cx.request(r, tr, options, gen_before)
            if line is not None:
                lines.append(line); meta.append(r)
                _count_kinds(r.before, case['pass_kinds'].setdefault(cx.MODELLED[r.name], {}))
            gen_before = gen_before + [x[2] for x in r.new_symbols]
        npass = len(lines)
        final_ok = tr.error is None and tr.final_tree is not None
        if final_ok:
            try:
                fser = pyast.Ser(tr.final_tree)
                ftxt = fser.text()
                case['kinds'] = dict(fser.kinds)
                lines.append('c04.nonative %s %s %s' % (sexp(eq_on), sexp(bi_on), ftxt))
                lines.append('c04.regions ' + ftxt)
            except Exception as e:  # noqa
                final_ok = False
                case['error'] = 'final tree not serialisable: %r' % (e,)
        if orig_sx is not None:
            lines.append('c04.nested-ifexp ' + orig_sx)
            lines.append('c04.annotation-calls ' + orig_sx)
        if dir_rec is not None and isinstance(dir_rec.before, list) and dir_rec.before[:1] != ['SNAPSHOT-ERROR']:
            ann = [a for a in (dir_rec.before_annos or []) if a[1] == 'static']
            lines.append('c04.directive-calls %s %s' % (sexp(dir_rec.before), sexp(ann)))
        ans = _drive(lines)
        for r, a in zip(meta, ans[:npass]):
            op = cx.MODELLED[r.name]
            case['npass'][op] = case['npass'].get(op, 0) + 1
            ok, detail = cx.compare(r, tr, a)
            if not ok:
                case['dis'].append({'op': op, 'detail': detail[:500]})
        k = npass
        if final_ok:
            case['off'] = parse_sexp(ans[k]); k += 1
            rg = parse_sexp(ans[k]); k += 1
            offids = set(o[1] for o in case['off'])
            case['regions'] = [[i for i in r if i in offids] for r in rg] if case['off'] else [[], [], []]
        if orig_sx is not None:
            case['nested'] = int(ans[k]) if ans[k].isdigit() else None; k += 1
            case['anncalls'] = int(ans[k]) if ans[k].isdigit() else None; k += 1
        if k < len(ans):
            case['dircalls'] = int(ans[k]) if ans[k].isdigit() else None
        case['final_source'] = tr.final_source if (case['off'] or case['dis']) else None
        # ---- dynamic counts
        if do_dyn and tr.error is None and tr.converted is not None:
            try:
                isrc = dyn.instrument(fsrc, bi_on)
                cnt_o = dyn.Counter(); cnt_o.install(mod)
                exec(compile(isrc, '<c04-instrumented>', 'exec'), mod.__dict__)
                agmod = dyn.ag_module_of(tr.converted)
                cnt_c = dyn.Counter()
                if agmod is not None:
                    cnt_c.patch(agmod)
                    for inp in prog.inputs[:2]:
                        for dec in prog.decisions[:2]:
                            r0 = progen.run_program(mod, mod.f, inp, dec)
                            cnt_o.reset()
                            r1 = progen.run_program(mod, mod._c04_f, inp, dec)
                            co = cnt_o.snapshot()
                            cnt_c.reset()
                            r2 = progen.run_program(mod, tr.converted, inp, dec)
                            cc = cnt_c.snapshot()
                            same = (r0[0] == r1[0] == r2[0]) and (r0[1] == r1[1] == r2[1])
                            fine = r0[0][0] == 'ret' or r0[0][1] in ('E1', 'E2')
                            case['dyn'].append({'input': list(inp), 'decisions': list(dec), 'comparable': bool(same and fine),
                                                'instr_same': r0[0] == r1[0] and r0[1] == r1[1],
                                                'orig': co, 'ops': cc, 'outcome': list(r0[0])[:1]})
            except RecursionError:
                case['dyn_error'] = 'RecursionError'
            except Exception as e:  # noqa
                case['dyn_error'] = repr(e)[:200]
        res['cases'].append(case)
    ws.unload(mod)
    return res


# ------------------------------------------------------------------------------------------------
# check
# ------------------------------------------------------------------------------------------------
def _pj(p):
    j = p.to_json()
    j['construct'] = getattr(p, 'construct', None)
    j['context'] = getattr(p, 'context', None)
    j['meta'] = {k: v for k, v in (p.meta or {}).items() if isinstance(v, (str, int))}
    return j


def build_tasks(run, quick):
    import c04_exprs as cx
    ncfg = cx.NCFG_BASE
    sk_info = {}
    sk = list(progen.skeleton_programs(4 if quick else 5, 3, cap=(120 if quick else 1200),
                                       rng=random.Random(run.rng.getrandbits(32)), info=sk_info))
    rnd = list(progen.random_programs(random.Random(run.rng.getrandbits(32)), 60 if quick else 500, size=12))
    ctx = cx.context_programs() + cx.lambda_programs()
    off = run.rng.randrange(ncfg)
    tasks = []
    for n, p in enumerate(sk + rnd):
        ids = [(n + off) % ncfg] if quick else [(n + off) % ncfg, (n + off + 3) % ncfg]
        tasks.append((_pj(p), ids, True))
    for n, p in enumerate(ctx):
        if p.shape == 'test' and not quick:
            # every feature subset, recursive alternating
            ids = [2 * k + ((n + k + off) % 2) for k in range(ncfg // 2)]
        elif not quick or p.shape in ('entity', 'lambda'):
            ids = list(range(ncfg))
        elif p.construct in ALL_CFG_CONSTRUCTS or (p.shape == 'test' and p.construct[2:] in cx.EQ_SENSITIVE_TESTS):
            # every feature subset, recursive alternating (it only changes the options expression of FunctionScope)
            ids = [2 * k + ((n + k + off) % 2) for k in range(ncfg // 2)]
        else:
            ids = [(n + off) % ncfg]
        tasks.append((_pj(p), ids, True))
    # LISTS configurations (ids 8, 9) on the programs where lists.py / slices.py have something to do
    lists_ctx = ('subscript', 'subscript_store', 'slice', 'del_sub', 'tuple_elt', 'starred', 'comp_elt', 'for_iter')
    for n, p in enumerate(rnd):
        if quick and n % 3:
            continue
        tasks.append((_pj(p), [8 + n % 2], True))
    for n, p in enumerate(ctx):
        if p.context in lists_ctx or p.construct in ('augassign', 'del', 'for', 'method', 'starcall'):
            if quick and p.construct not in ('call', 'and', 'ifexp', 'augassign', 'del', 'for', 'method', 'starcall'):
                continue
            tasks.append((_pj(p), [8, 9] if not quick else [8 + n % 2], True))
    # history slice: same function object through the real API under sequences of option sets (cache in play)
    hpairs = cx.history_pairs(not quick)
    for p in cx.history_programs():
        for k0 in range(0, len(hpairs), 8):
            tasks.append((_pj(p), ('hist', hpairs[k0:k0 + 8]), True))
    flt = os.environ.get('C04_FILTER')          # debugging aid only: restrict to matching context programs
    if flt:
        tasks = [t for t in tasks if flt in ('%s/%s' % (t[0].get('construct'), t[0].get('context')))]
    return tasks, sk_info, len(sk), len(rnd), len(ctx)


def _classify(case, res):
    """Classes of a case whose final tree has surviving native nodes.  Each surviving node must be attributable:
    a Call lying inside a parameter
    annotation, in a program with a call in a parameter annotation -> call_in_parameter_annotation; a Call lying inside the
    options argument of `ag__.for_stmt/while_stmt`, in a program with a call inside directive arguments ->
    call_in_loop_directive_argument.  Anything else: None (a new violation)."""
    in_ifexp, in_ann, in_opts = [set(x) for x in case.get('regions', [[], [], []])]
    classes = set()
    for kind, i, _ in case['off']:
        # (a surviving IfExp is no longer attributable: C04-ifexp-nested was fixed by 33af8cf; a recurrence is a violation)
        if kind == 'Call' and i in in_ann and case.get('anncalls'):
            classes.add(CLS_ANNOT)
        elif kind == 'Call' and i in in_opts and case['dircalls']:
            classes.add(CLS_DIRECTIVE)
        else:
            return None
    return classes


def operator_contract(run):
    """Direct oracle tying `Malt.SemW` (Sem/Wrappers.lean) to the REAL default operators: for every pair/triple of values of a
    small domain, `ag__.and_/or_/not_/if_exp/eq/not_eq/ld` applied to logging thunks must behave like the Python construct
    (same result, same evaluation log: laziness and order)."""
    from malt.impl import api
    ag = api.PyToPy().get_extra_locals()['ag__']
    vals = [0, 1, 2, [], [1], None, '', 'x', (), 0.0]
    bad = []
    n = 0
    for a in vals:
        log1, log2 = [], []

        def t(tag, v, log):
            def th():
                log.append(tag)
                return v
            return th
        n += 1
        if ag.not_(a) != (not a) or ag.ld(a) is not a:
            bad.append(('not_/ld', repr(a)))
        for b in vals:
            for name, py in (('and_', lambda x, y: x() and y()), ('or_', lambda x, y: x() or y())):
                del log1[:], log2[:]
                r1 = getattr(ag, name)(t('a', a, log1), t('b', b, log1))
                r2 = py(t('a', a, log2), t('b', b, log2))
                n += 1
                if r1 is not r2 or log1 != log2:
                    bad.append((name, repr(a), repr(b), list(log1), list(log2)))
            n += 1
            if ag.eq(a, b) != (a == b) or ag.not_eq(a, b) != (a != b):
                bad.append(('eq', repr(a), repr(b)))
            for c in (0, 1, [], 'x'):
                del log1[:], log2[:]
                r1 = ag.if_exp(c, t('t', a, log1), t('e', b, log1), 'c')
                r2 = t('t', a, log2)() if c else t('e', b, log2)()
                n += 1
                if r1 is not r2 or log1 != log2:
                    bad.append(("if_exp", repr(c), repr(a), repr(b), list(log1), list(log2)))
    # converted_call under a non-converting policy: f(*args, **kwargs), arguments as packed
    from malt.core import converter
    seen = []

    def f(*a, **k):
        seen.append((a, tuple(sorted(k.items()))))
        return len(a)
    opts = converter.ConversionOptions(recursive=False, user_requested=False, optional_features=None)
    r = ag.converted_call(f, (1, 2) + tuple([3]) + (4,), dict(k=1, **{'j': 2}), None, opts)
    n += 1
    if r != 4 or seen != [((1, 2, 3, 4), (('j', 2), ('k', 1)))]:
        bad.append(('converted_call', r, seen))
    try:
        ag.ld(ag.Undefined('x'))
        bad.append(('ld(Undefined) did not raise',))
    except NameError:
        pass
    run.evaluations += n
    run.oblige('oracle:default-operator-semantics', 'oracle', not bad, json.dumps(bad[:4], default=str)[:800] if bad else '%d operator applications' % n)
    for b in bad[:3]:
        run.fail('a default operator does not behave like the Python construct it replaces', {'operator_case': [str(x) for x in b]}, None)
    return n


class _FakeRec(object):
    pass


def repo_corpus(run, quick):
    """The real LogicalExpressionTransformer / ConditionalExpressionTransformer run STANDALONE on the functions of /repo
    (malt + tests: real-world shapes, not executable in isolation) vs the Lean models: -> (kinds per pass, disagreements, counts)."""
    import copy
    import c04_exprs as cx
    from malt.core import converter
    from malt.pyct import transformer
    from malt.converters import logical_expressions, conditional_expressions
    fns = list(progen.repo_functions())
    if quick and len(fns) > 500:
        stride = len(fns) // 500
        fns = fns[run.rng.randrange(stride)::stride]
    info = transformer.EntityInfo(name='f', source_code='', source_file='', future_features=(), namespace={})
    lines, meta = [], []
    kinds = {'logical': {}, 'ifexp': {}}
    counts = {'logical': 0, 'ifexp': 0, 'errors': 0}
    for n, fn in enumerate(fns):
        eq_on = bool(n % 2)
        opts = converter.ConversionOptions(recursive=True, optional_features=((converter.Feature.EQUALITY_OPERATORS,) if eq_on else None))
        for op, cls in (('logical', logical_expressions.LogicalExpressionTransformer),
                        ('ifexp', conditional_expressions.ConditionalExpressionTransformer)):
            try:
                node = copy.deepcopy(fn.node)
                ser = pyast.Ser(node)
                before = ser.sexp
                annos = []
                if op == 'ifexp':
                    for i, nd in ser.nodes.items():
                        if isinstance(nd, ast.IfExp):
                            annos.append([i, 'test_repr', repr(ast.unparse(nd.test).strip())])
                ctx = transformer.Context(info, None, converter.ProgramContext(opts))
                out = cls(ctx).visit(node)
                after = pyast.Ser(out).sexp
            except Exception:
                counts['errors'] += 1
                continue
            rec = _FakeRec()
            rec.name = cls.__name__; rec.before = before; rec.after = after; rec.before_annos = annos
            rec.new_symbols = []; rec.after_annos = []
            tr = _FakeRec(); tr.error = None; tr.namespace = []
            lines.append(cx.request(rec, tr, opts, []))
            meta.append((op, rec, tr, fn))
            _count_kinds(before, kinds[op])
    dis = {}
    for k0 in range(0, len(lines), 400):
        answers = run.drive(lines[k0:k0 + 400])
        for (op, rec, tr, fn), a in zip(meta[k0:k0 + 400], answers):
            counts[op] += 1
            run.evaluations += 1
            ok, detail = cx.compare(rec, tr, a)
            if not ok:
                dis.setdefault(op, []).append({'function': '%s:%s' % (fn.path, fn.qualname), 'detail': detail[:400]})
    return kinds, dis, counts


def check(run, only_corpus=None):
    import c04_exprs as cx, c04_dyn as dyn
    quick = run.tier == 'quick'
    run.rule = ('programs: progen skeletons (bounded-exhaustive, stride-sampled), progen random programs, and the systematic '
                'context enumeration (each construct of c04_exprs.EXPR_CONSTRUCTS/STMT_CONSTRUCTS in each context of EXPR_CONTEXTS/STMT_CONTEXTS; '
                'the test-position matrix: every expression kind of TEST_EXPRS — all comparison operators incl. is/is not/in/not in, chained and '
                'mixed — as the bare test of every position of TEST_POSITIONS: if/elif/while/ifexp/assert/comprehension/…; '
                'entity-level shapes, lambda entities, malformed directives); configurations: every '
                'subset of {BUILTIN_FUNCTIONS, EQUALITY_OPERATORS} x recursive in {T,F} (all 8 for entity shapes and in the thorough tier, '
                'every feature subset for option-sensitive constructs, rotating otherwise) plus two LISTS configurations on programs '
                'with subscripts/lists (slices.py modelled, lists.py not); plus the history slice: the SAME function object converted through the '
                'real malt.to_graph (process-wide cache) under every ordered pair of subsets of {BUILTIN_FUNCTIONS, EQUALITY_OPERATORS, LISTS, '
                'ASSERT_STATEMENTS} differing in one feature (quick: all pairs flipping BUILTIN_FUNCTIONS/EQUALITY_OPERATORS + a sample), each '
                'served result checked with noNative and the count oracle under the option set of THAT request. A case = (program, configuration); non-trivial = conversion '
                'succeeded and the function contains at least one overloadable construct; distinct by (program hash, config).')
    run.assumptions += [
        'anno.Basic.SKIP_PROCESSING is never set by a converter (asserted on every snapshot; the models leave it out)',
        'ast.unparse of the IfExp test (expr_repr argument of ag__.if_exp), the static resolution of directive callees through '
        'the live namespace, and the ORIG_DEFINITIONS annotation are read off the real run and given to the models as annotations',
        'Py.Ast covers the node kinds the generators produce; other kinds are serialised as Other and visited generically',
        'dynamic count oracle: CPython executes the instrumented copy like the original (checked per run: same outcome and log)',
    ]
    run.translate(['Pipeline'])      # Generated/Pipeline.lean: `exprSuffix_extracted` re-checks the pass order of transform_ast
    run.build_and_audit('MaltModel.Props.C04', model_files=[m for m in MODEL_FILES if os.path.exists(os.path.join(common.LEAN, m))],
                        more_props=['MaltModel.Props.C01Exprs'])
    if not run.driver_ok:
        run.oblige('correspondence:c04', 'correspondence', False, 'driver unavailable')
        run.oblige('checker:noNative', 'checker', False, 'driver unavailable')
        run.cov['search'] = 'none (driver unavailable)'
        return
    run.cov['operator_contract_cases'] = operator_contract(run)
    tasks, sk_info, nsk, nrnd, nctx = build_tasks(run, quick)
    # corpus first
    cdir = os.path.join(common.VERIF, 'corpus', 'C04')
    corpus = []
    if os.path.isdir(cdir):
        for fn in sorted(os.listdir(cdir)):
            if fn.endswith('.json'):
                with open(os.path.join(cdir, fn)) as f:
                    j = json.load(f)
                pj = j['program']
                pj.setdefault('kind', 'replay')
                pj.setdefault('meta', {})
                pj['meta']['fsrc'] = pj.get('fsrc') or pj['source']
                pj['construct'] = j.get('name', fn)
                pj['context'] = 'corpus'
                corpus.append((pj, j.get('cfg_ids', list(range(8))), True))
    if only_corpus is not None:
        tasks = only_corpus
    else:
        tasks = corpus + tasks
    nproc = max(2, min(16, (os.cpu_count() or 4)))
    ctxm = multiprocessing.get_context('fork')
    t0 = time.time()
    with ctxm.Pool(nproc, initializer=_winit, initargs=(common.REPO,)) as pool:
        results = pool.map(_task, tasks, chunksize=4)
    run.cov['worker_wall_s'] = round(time.time() - t0, 1)
    infra = [r['infra'] for r in results if 'infra' in r]
    if infra:
        raise common.InfraError('worker failed: ' + infra[0])

    dis_by_op, npass = {}, {}
    conv_errors = {}
    off_cases, known_hits = [], {CLS_DIRECTIVE: 0, CLS_ANNOT: 0}
    checked_final = 0
    dyn_stats = {'runs': 0, 'comparable': 0, 'exact_all_kinds': 0, 'instr_diverged': 0, 'by_kind_ops': dict.fromkeys(dyn.KINDS, 0),
                 'by_kind_orig': dict.fromkeys(dyn.KINDS, 0)}
    dyn_bad = []
    ctx_matrix = set()
    history = {'requests': 0, 'served_trees_checked': 0, 'errors': 0}
    pass_kinds = {}
    kinds = {}
    skip_seen = 0
    load_errors = 0
    for (pj, ids, _), res in zip(tasks, results):
        if res.get('load_error'):
            load_errors += 1
            continue
        for case in res['cases']:
            key = (res['key'], case['cfg'])
            if res['kind'] == 'history':
                history['requests'] += 1
                history['served_trees_checked'] += case['off'] is not None
                history['errors'] += case['error'] is not None
            skip_seen = max(skip_seen, case['skip_seen'])
            nontriv = case['error'] is None
            run.case(key, nontriv)
            if res['construct'] and res['kind'] == 'context':
                ctx_matrix.add((res['construct'], res['context']))
            for kk, nn in case.get('kinds', {}).items():
                kinds[kk] = kinds.get(kk, 0) + nn
            for op_, d_ in case.get('pass_kinds', {}).items():
                acc_ = pass_kinds.setdefault(op_, {})
                for kk, nn in d_.items():
                    acc_[kk] = acc_.get(kk, 0) + nn
            if case['error']:
                ek = case['error'].split(':')[0]
                conv_errors[ek] = conv_errors.get(ek, 0) + 1
            for op, n in case['npass'].items():
                npass[op] = npass.get(op, 0) + n
            for d in case['dis']:
                dis_by_op.setdefault(d['op'], []).append({'program': pj['source'][-1200:], 'config': case['cfg'], 'detail': d['detail']})
            desc = {'program': {'source': pj['source'], 'inputs': pj['inputs'], 'decisions': pj['decisions'], 'kind': pj['kind'],
                                'fsrc': pj.get('meta', {}).get('fsrc')},
                    'config': case['cfg'], 'cfg_ids': [case['cfg_id']], 'construct': res['construct'], 'context': res['context']}
            if case['off'] is not None:
                checked_final += 1
                if case['off']:
                    classes = _classify(case, res)
                    what = 'native %s survive(s) in the generated code' % sorted(set(o[0] for o in case['off']))
                    d2 = dict(desc, surviving=case['off'][:6], nested_ifexp=case['nested'], directive_calls=case['dircalls'], annotation_calls=case.get('anncalls'),
                              generated=(case.get('final_source') or '')[-1500:])
                    if classes is None:
                        run.fail(what, d2, None)
                        off_cases.append(d2)
                    else:
                        for c in classes:
                            known_hits[c] += 1
                            run.fail(what, d2, c)
            for dr in case['dyn']:
                dyn_stats['runs'] += 1
                if not dr['instr_same']:
                    dyn_stats['instr_diverged'] += 1
                if not dr['comparable']:
                    continue
                dyn_stats['comparable'] += 1
                exact = True
                for k in dyn.KINDS:
                    o, c = dr['orig'][k], dr['ops'][k]
                    dyn_stats['by_kind_ops'][k] += c
                    dyn_stats['by_kind_orig'][k] += o
                    exact = exact and o == c
                    bad = c < o or (k in dyn.EXACT and c != o)
                    if bad:
                        # attribute: nested ifexp / directive-argument calls are the known findings
                        cls = None
                        if k == 'call' and c < o and case['dircalls']:
                            cls = CLS_DIRECTIVE
                        if k == 'call' and c < o and case.get('anncalls'):
                            cls = CLS_ANNOT
                        d3 = dict(desc, kind=k, executions=o, operator_invocations=c, input=dr['input'], decisions=dr['decisions'])
                        run.fail('dynamic count: %d executed `%s` construct(s) but %d operator invocation(s)' % (o, k, c), d3, cls)
                        if cls is None:
                            dyn_bad.append(d3)
                        else:
                            known_hits[cls] += 1
                if exact:
                    dyn_stats['exact_all_kinds'] += 1
    # ---- obligations
    for op in ('functions', 'directives', 'calltrees', 'ifexp', 'logical', 'variables', 'slices'):
        d = dis_by_op.get(op, [])
        run.oblige('correspondence:pass:' + op, 'correspondence', not d and (npass.get(op, 0) > 0 or only_corpus is not None),
                   json.dumps(d[:2]) if d else ('%d pass inputs' % npass.get(op, 0)))
    known_kinds = set('FunctionDef AsyncFunctionDef ClassDef Return Delete Assign AugAssign AnnAssign For AsyncFor While If With AsyncWith '
                      'Raise Try ExceptHandler Assert Import ImportFrom Global Nonlocal Expr Pass Break Continue Name Constant Attribute '
                      'Subscript Call keyword BoolOp UnaryOp BinOp Compare IfExp Lambda Tuple List Set Starred NamedExpr ListComp SetComp '
                      'GeneratorExp DictComp comprehension arguments arg withitem Dict Slice JoinedStr FormattedValue Await Yield '
                      'YieldFrom'.split())
    unknown = sorted(k for k in kinds if k not in known_kinds)
    run.oblige('assumption:node-kinds-covered', 'correspondence', not unknown,
               'node kinds outside Py.Ast in final trees (serialised generically): %s' % unknown)
    run.cov['final_tree_node_kinds'] = dict(sorted(kinds.items(), key=lambda kv: -kv[1]))
    # evidence for the structural inductions: how many nodes of each kind (= case of the induction; Compare per operator,
    # BoolOp/UnaryOp per operator) the modelled passes were fed, per pass, from generated programs and from /repo functions
    run.cov['induction_cases_generated'] = {op_: dict(sorted(d_.items(), key=lambda kv: -kv[1])) for op_, d_ in pass_kinds.items()}
    rk, rdis, rn = repo_corpus(run, quick)
    run.cov['induction_cases_repo'] = {op_: dict(sorted(d_.items(), key=lambda kv: -kv[1])) for op_, d_ in rk.items()}
    run.cov['repo_functions_compared'] = rn
    all_kinds = set(known_kinds) | set('Compare:' + o for o in ('Eq', 'NotEq', 'Lt', 'LtE', 'Gt', 'GtE', 'Is', 'IsNot', 'In', 'NotIn')) \
        | {'BoolOp:And', 'BoolOp:Or', 'UnaryOp:Not', 'UnaryOp:USub'}
    seen_l = set(pass_kinds.get('logical', {})) | set(rk.get('logical', {}))
    run.cov['induction_cases_never_exercised(logical)'] = sorted(k for k in all_kinds if k not in seen_l and k not in
                                                                 ('BoolOp', 'UnaryOp', 'Compare', 'AsyncFunctionDef', 'AsyncFor', 'AsyncWith'))
    for op_ in ('logical', 'ifexp'):
        d = rdis.get(op_, [])
        run.oblige('correspondence:repo-corpus:' + op_, 'correspondence', not d, json.dumps(d[:2])[:1200] if d else
                   '%d /repo functions' % rn.get(op_, 0))
    run.oblige('assumption:no-skip-processing', 'correspondence', skip_seen == 0, 'SKIP_PROCESSING seen on %d nodes' % skip_seen)
    run.oblige('checker:noNative-on-real-output', 'checker', not off_cases,
               json.dumps(off_cases[:2])[:1500] if off_cases else '%d final trees checked' % checked_final)
    run.oblige('oracle:dynamic-operator-counts', 'oracle', not dyn_bad, json.dumps(dyn_bad[:2])[:1500] if dyn_bad else
               '%d comparable runs' % dyn_stats['comparable'])
    # the listed witnesses must still fail (they are in the corpus and were run first)
    run.cov.update({
        'programs': {'skeleton': nsk, 'random': nrnd, 'context': nctx, 'corpus': len(corpus), 'load_errors': load_errors},
        'skeleton_space': sk_info,
        'pass_inputs_compared': npass,
        'final_trees_checked': checked_final,
        'conversion_errors_by_type (cases without a final tree; correspondence still compared up to the failing pass)': conv_errors,
        'known_finding_cases': known_hits,
        'history_slice (same function object through malt.to_graph under ordered pairs of option sets differing in one feature)': history,
        'context_matrix_cells': len(ctx_matrix),
        'dynamic': dyn_stats,
        'exhaustive': False,
        'search': 'verified checker noNative on %d real final trees + dynamic count oracle on %d comparable runs '
                  '(skeleton %d, random %d, context enumeration %d programs x configs)' % (checked_final, dyn_stats['comparable'], nsk, nrnd, nctx),
    })
    for t, res in list(zip(tasks, results))[len(corpus):len(corpus) + 400:97]:
        if res.get('cases'):
            c = res['cases'][0]
            run.sample({'program_tail': t[0]['source'][-300:], 'config': c['cfg'], 'passes': c['npass'], 'surviving_native': c['off'],
                        'dynamic': c['dyn'][:1]})


def replay(run, path):
    with open(path) as f:
        rep = json.load(f)
    case = rep.get('case') or rep
    print(json.dumps({k: v for k, v in rep.items() if k != 'case'}, indent=1)[:2000])
    if 'program' not in case:
        check(run)
        return run.finish()
    pj = dict(case['program'])
    pj.setdefault('kind', 'replay')
    pj['meta'] = {'fsrc': pj.get('fsrc') or _guess_fsrc(pj['source'])}
    pj['kind'] = 'replay'
    pj['construct'] = case.get('construct')
    pj['context'] = case.get('context')
    ids = case.get('cfg_ids', list(range(8)))
    if case.get('context') == 'history' and ids and isinstance(ids[0], list):
        ids = ('hist', [(tuple(ids[0][0]), tuple(ids[0][1]))])
    check(run, only_corpus=[(pj, ids, True)])
    return run.finish()


def _guess_fsrc(source):
    """the source of the last top-level statement (the converted entity)"""
    t = ast.parse(source)
    seg = ast.get_source_segment(source, t.body[-1])
    if isinstance(t.body[-1], ast.FunctionDef) and t.body[-1].decorator_list:
        first = t.body[-1].decorator_list[0]
        lines = source.split('\n')
        seg = '\n'.join(lines[first.lineno - 1:t.body[-1].end_lineno])
    return seg + '\n'
