"""Per-pass capture of the real conversion pipeline (shared by C01–C04, C11, C17).

`trace_conversion(fn, options)` converts `fn` with a fresh transpiler (no cache) and records, for every
converter transformer that ran (in order):  its class name, the tree *as the transformer's root visit
received it* (after that pass's own analyses ran, so the static annotations the pass reads are on it),
and the tree it returned.  Trees are serialised with harness/pyast.py; annotations go to a side table
`annos` keyed by the serial node id of that snapshot:

  (id 'extra_test' <expr sexp>)                for-loops carrying anno.Basic.EXTRA_LOOP_TEST (also embedded in the For node)
  (id 'directives' ((name ((kw <expr sexp>)...))...))   anno.Basic.DIRECTIVES on loops
  (id 'fn_ctx_name' name)                      'function_context_name' on FunctionDef/Lambda
  (id 'skip' True)                             anno.Basic.SKIP_PROCESSING
  (id <SCOPE KEY> (scope ...))                 SCOPE/BODY_SCOPE/ORELSE_SCOPE/COND_SCOPE/ITERATE_SCOPE/ARGS_SCOPE/ARGS_AND_BODY_SCOPE:
        (scope (read ...) (modified ...) (bound ...) (deleted ...) (globals ...) (nonlocals ...) (params ...)
               (referenced ...) (isolated b) (function_name n))
  (id 'LIVE_VARS_IN' (names...)) / LIVE_VARS_OUT / DEFINED_VARS_IN
Names are qualified-name strings (str(qn)), sorted.

Also records every `Namer.new_symbol(root, reserved)` call (root, sorted reserved, result) in order, and the
final namespace keys / generated names.
"""
import ast, contextlib, sys

import common
import pyast


def _imports():
    from malt.core import converter
    from malt.impl import api
    from malt.pyct import anno, naming, transformer, transpiler, parser
    from malt.pyct.static_analysis import annos as sannos
    return converter, api, anno, naming, transformer, transpiler, parser, sannos


SCOPE_KEYS = None


def _scope_keys():
    global SCOPE_KEYS
    if SCOPE_KEYS is None:
        converter, api, anno, naming, transformer, transpiler, parser, sannos = _imports()
        ks = [(anno.Static.SCOPE, 'SCOPE'), (anno.Static.ARGS_SCOPE, 'ARGS_SCOPE'), (anno.Static.COND_SCOPE, 'COND_SCOPE'),
              (anno.Static.BODY_SCOPE, 'S_BODY_SCOPE'), (anno.Static.ORELSE_SCOPE, 'S_ORELSE_SCOPE')]
        for k in sannos.NodeAnno:
            ks.append((k, k.name))
        SCOPE_KEYS = ks
    return SCOPE_KEYS


def qn_list(s):
    return sorted(str(q) for q in s)


def scope_sexp(sc):
    return ['scope', ['read'] + qn_list(sc.read), ['modified'] + qn_list(sc.modified), ['bound'] + qn_list(sc.bound),
            ['deleted'] + qn_list(sc.deleted), ['globals'] + qn_list(sc.globals), ['nonlocals'] + qn_list(sc.nonlocals),
            ['params'] + qn_list(sc.params.keys()), ['referenced'] + qn_list(sc.referenced),
            ['isolated', bool(sc.isolated)], ['function_name', sc.function_name or '']]


def snapshot(node, with_static=True):
    """Serialise an (annotated) tree: returns (sexp_text, annos list, Ser)."""
    converter, api, anno, naming, transformer, transpiler, parser, sannos = _imports()

    def extra(for_node):
        return anno.getanno(for_node, anno.Basic.EXTRA_LOOP_TEST, default=None)
    ser = pyast.Ser(node, annotate_for=extra)
    table = []
    for i, n in ser.nodes.items():
        if not hasattr(n, '___pyct_anno'):
            continue
        if isinstance(n, (ast.For, ast.AsyncFor)) and anno.hasanno(n, anno.Basic.EXTRA_LOOP_TEST):
            table.append([i, 'extra_test', 'True'])
        if anno.hasanno(n, anno.Basic.DIRECTIVES) and isinstance(n, (ast.For, ast.While)):
            ds = []
            for dfn, kws in anno.getanno(n, anno.Basic.DIRECTIVES).items():
                ds.append([getattr(dfn, '__name__', str(dfn)), [[k, pyast.Ser(v).sexp] for k, v in kws.items()]])
            table.append([i, 'directives', ds])
        if anno.hasanno(n, 'function_context_name'):
            table.append([i, 'fn_ctx_name', anno.getanno(n, 'function_context_name')])
        if anno.hasanno(n, anno.Basic.SKIP_PROCESSING):
            table.append([i, 'skip', 'True'])
        if with_static:
            for k, name in _scope_keys():
                if anno.hasanno(n, k):
                    sc = anno.getanno(n, k)
                    if hasattr(sc, 'referenced'):
                        try:
                            table.append([i, name, scope_sexp(sc)])
                        except Exception:
                            pass
            for k, name in ((anno.Static.LIVE_VARS_IN, 'LIVE_VARS_IN'), (anno.Static.LIVE_VARS_OUT, 'LIVE_VARS_OUT'),
                            (anno.Static.DEFINED_VARS_IN, 'DEFINED_VARS_IN')):
                if anno.hasanno(n, k):
                    table.append([i, name, qn_list(anno.getanno(n, k))])
    return ser.sexp, table, ser


class PassRecord(object):
    def __init__(self, name):
        self.name = name
        self.before = None       # sexp (nested lists)
        self.before_annos = None
        self.after = None        # sexp or list of sexps
        self.new_symbols = []    # (root, flattened reserved sorted, result) issued during this pass


class ConversionTrace(object):
    def __init__(self):
        self.passes = []
        self.new_symbols = []
        self.namespace = []
        self.converted = None
        self.error = None
        self.final_source = None
        self.final_tree = None


@contextlib.contextmanager
def _patched(trace):
    converter, api, anno, naming, transformer, transpiler, parser, sannos = _imports()
    orig_visit = transformer.Base.visit
    orig_new_symbol = naming.Namer.new_symbol
    depth = {}

    def visit(self, node):
        if type(self).__module__.startswith('malt.converters') and depth.get(id(self), 0) == 0:
            depth[id(self)] = 1
            rec = PassRecord(type(self).__name__)
            trace.passes.append(rec)
            trace._cur = rec
            try:
                rec.before, rec.before_annos, _ = snapshot(node)
            except Exception as e:   # snapshot problems must never change the conversion
                rec.before = ['SNAPSHOT-ERROR', repr(e)]
            try:
                res = orig_visit(self, node)
            finally:
                depth[id(self)] = 0
            try:
                if isinstance(res, (list, tuple)):
                    rec.after = [snapshot(r, with_static=False)[0] for r in res]
                else:
                    rec.after, rec.after_annos, _ = snapshot(res, with_static=False)
            except Exception as e:
                rec.after = ['SNAPSHOT-ERROR', repr(e)]
            return res
        return orig_visit(self, node)

    def new_symbol(self, name_root, reserved_locals):
        res = orig_new_symbol(self, name_root, reserved_locals)
        flat = set()
        for r in reserved_locals:      # exactly the flattening Namer.new_symbol applies (QN -> its components)
            if isinstance(r, str):
                flat.add(r)
            else:
                flat.update(x for x in getattr(r, 'qn', ()) if isinstance(x, str))
        ent = (name_root, sorted(flat), res)
        trace.new_symbols.append(ent)
        cur = getattr(trace, '_cur', None)
        if cur is not None:
            cur.new_symbols.append(ent)
        return res

    transformer.Base.visit = visit
    naming.Namer.new_symbol = new_symbol
    try:
        yield
    finally:
        transformer.Base.visit = orig_visit
        naming.Namer.new_symbol = orig_new_symbol


def make_options(recursive=True, features=None, user_requested=True):
    converter = _imports()[0]
    return converter.ConversionOptions(recursive=recursive, user_requested=user_requested,
                                       optional_features=features)


def trace_conversion(fn, options=None):
    """Convert `fn` with a fresh (cache-less) transpiler, recording every pass. Returns ConversionTrace."""
    converter, api, anno, naming, transformer, transpiler, parser, sannos = _imports()
    if options is None:
        options = make_options()
    tr = ConversionTrace()
    t = api.PyToPy()
    orig_transform_ast = t.transform_ast

    def transform_ast(node, ctx):
        tr.namespace = sorted(ctx.info.namespace.keys())
        out = orig_transform_ast(node, ctx)
        tr.final_tree = out
        try:
            tr.final_source = parser.unparse(out, include_encoding_marker=False)
        except Exception as e:
            tr.final_source = 'UNPARSE-ERROR %r' % (e,)
        return out
    t.transform_ast = transform_ast
    with _patched(tr):
        try:
            program_ctx = converter.ProgramContext(options=options)
            converted, module, source_map = t.transform(fn, program_ctx)
            tr.converted = converted
            tr.module = module
            tr.source_map = source_map
        except Exception as e:
            tr.error = e
    return tr
