"""The two phases shared by run_c06.py and run_c07.py.

static_phase  : verified checkers (Lean) on the REAL graph / Scope sets / Analyzer.in_/out / annotations of every function
                graph of the corpus (all FunctionDefs of /repo + the functions of the executable programs)
dynamic_phase : direct oracles on instrumented executions of executable programs (corpus replays, deliberate scenarios,
                progen skeletons, progen random programs); failing observations are classified by the Lean driver, which
                evaluates on the recorded trace the decidable hypotheses of `rd_trace_sound` / `live_trace_sound`
"""
import ast, collections, json, os, random, time

import common
from common import sexp
import progen
import dataflow_common as dc
import dataflow_instr as di
import dataflow_oracle as do
import dataflow_scenarios as ds

STATIC_KEYS = {
    'C06': [('quiescent', 'worklist model is quiescent with the proved fuel bound (C06_worklist_terminates; sanity)'),
            ('start', 'visited set contains the entry node'), ('closed', 'visited set closed under successor edges'),
            ('postfix', 'real in_/out are a post-fixed point (the inclusions soundness needs)'),
            ('fix', 'real in_/out are a fixed point of the transfer equations (equality; the property\'s literal last clause)'),
            ('unvisited_empty', 'nodes never visited keep their initial (empty) state'),
            ('model_eq', 'isLeast: the real in_/out equal the model run = the LEAST fixed point (C06_worklist_lfp, C06_real_is_lfp)'),
            ('genmap', 'real gen_map == model gen on the same Scope'),
            ('prev_incomplete', 'stmt_prev contains every outside predecessor of the statement'),
            ('defined_in_uncovered', 'DEFINED_VARS_IN ⊇ symbols defined at the exit of every statement predecessor'),
            ('defined_in_loose', 'DEFINED_VARS_IN ⊆ that union (literal equality)'),
            ('names_bad', 'DEFINITIONS(name) == definitions of its variable in in_/out of the CFG node evaluating it')],
    'C07': [('quiescent', 'worklist models are quiescent with the proved fuel bound (C07_worklist_terminates; sanity)'),
            ('start', 'visited set contains the exit nodes'), ('closed', 'visited set closed under predecessor edges'),
            ('postfix', 'real in_/out are a post-fixed point of the liveness equations (the inclusions soundness needs)'),
            ('fix', 'real in_/out solve the liveness equations with equality (the property\'s literal last clause)'),
            ('unvisited_empty', 'nodes never visited keep their initial (empty) state'),
            ('model_eq', 'isLeast: the real in_/out equal the model run = the LEAST solution of the liveness equations (C07_worklist_lfp, C07_real_is_lfp)'),
            ('fnd_start', 'reaching-fndefs: visited set contains the entry'), ('fnd_closed', 'reaching-fndefs: visited set closed'),
            ('fnd_postfix', 'reaching-fndefs: real in_/out are a post-fixed point and contain the external definitions'),
            ('fns_in_anno', 'DEFINED_FNS_IN annotation == reaching-fndefs in_'),
            ('next_incomplete', 'stmt_next contains every outside successor of the statement'),
            ('live_out_uncovered', 'LIVE_VARS_OUT ⊇ live_in of every statement successor'),
            ('live_out_loose', 'LIVE_VARS_OUT ⊆ that union (literal equality)'),
            ('live_in_bad', 'LIVE_VARS_IN(statement) == live_in of its entry node'),
            ('simple_bad', 'LIVE_VARS_IN / LIVE_VARS_OUT of simple statements == in_/out of their node')],
}
NOT_FAILS = {'visited', 'unvisited'}


def _bad(v):
    return v is False or (isinstance(v, list) and len(v) > 0)


def budgets(run):
    q = run.tier == 'quick'
    return {'repo_cap': None, 'skel_stmts': 4 if q else 5, 'skel_depth': 3, 'skel_cap': 500 if q else 2500,
            'random_n': 150 if q else 1000, 'random_size': 12 if q else 16, 'scenario_scale': 1 if q else 4,
            'runs_per_program': 6 if q else 12}


def corpus_programs(run):
    cdir = os.path.join(common.VERIF, 'corpus', run.prop)
    if os.path.isdir(cdir):
        for fn in sorted(os.listdir(cdir)):
            if fn.endswith('.json'):
                with open(os.path.join(cdir, fn)) as f:
                    j = json.load(f)
                p = progen.Program.from_json(j['program'] if 'program' in j else j)
                p.kind = 'corpus'
                p.meta['file'] = fn
                p.meta['expect_class'] = j.get('expect_class')
                p.meta['finding'] = j.get('finding')
                p.meta['must_pass'] = j.get('must_pass')
                yield p


def executable_programs(run, info):
    b = budgets(run)
    for p in corpus_programs(run):
        yield p
    rng = random.Random(run.rng.getrandbits(48))
    for p in ds.scenario_programs(rng, b['scenario_scale']):
        yield p
    sk = {}
    for p in progen.skeleton_programs(b['skel_stmts'], b['skel_depth'], cap=b['skel_cap'], rng=random.Random(run.rng.getrandbits(48)),
                                      rich=run.tier != 'quick', info=sk):
        yield p
    info['skeleton_space'] = sk
    for p in progen.random_programs(random.Random(run.rng.getrandbits(48)), b['random_n'], size=b['random_size']):
        yield p
    # small exhaustive families added by the coordinator: binding constructs, nested raise/handler shapes, jump contexts
    for p in progen.binding_scenario_programs():
        yield p
    rh = list(progen.raise_handler_programs(info=sk))
    for p in rh:                 # all 432 shapes in both tiers (~10 s): explicit raises into outer handlers
        yield p
    for p in progen.jump_context_programs(2, cap=150 if run.tier == 'quick' else 1500, rng=random.Random(run.rng.getrandbits(48)), info=sk):
        yield p
    for p in targeted_jump_programs(info):
        yield p
    for p in renamed_slice(run, info):
        yield p


def renamed_slice(run, info=None):
    """In every run: existing programs (all deliberate scenarios and binding scenarios, a sample of skeletons, random programs and
    jump contexts) with the locals of `f` injectively renamed into prefix-related names (`a`, `a2`, `acc`, `a_`, `ab`, …)."""
    rng = random.Random(run.seed * 7919 + 17)
    b = budgets(run)
    q = run.tier == 'quick'
    src = list(ds.scenario_programs(random.Random(run.seed + 101), 1)) + list(progen.binding_scenario_programs())
    src += list(progen.skeleton_programs(b['skel_stmts'], b['skel_depth'], cap=120 if q else 600, rng=random.Random(run.seed + 103), rich=not q))
    src += list(progen.random_programs(random.Random(run.seed + 105), 80 if q else 400, size=b['random_size']))
    src += list(progen.jump_context_programs(2, cap=60 if q else 300, rng=random.Random(run.seed + 107)))
    n = 0
    for p in src:
        r = ds.rename_locals(p, random.Random(rng.getrandbits(40)))
        if r is not None:
            n += 1
            yield r
    if info is not None:
        info['renamed_slice'] = {'source_programs': len(src), 'renamed': n}


def targeted_jump_programs(info=None):
    """Exhaustive in both tiers: every jump kind x both loop kinds x guarded/unguarded x every context path (depth <= 2) that
    contains a try-with-finally, or consists of try bodies / except handlers only, with trailing statements at every level
    or at none — the shapes in which a jump is threaded through `finally` bodies / past handlers (progen's jump-context space,
    of which the stride sample above takes only a fraction)."""
    n = 0
    for ix, (jump, loopkind, path, trailing, guarded) in enumerate(progen.jump_context_space(2)):
        if not path or not ('tryfin' in path or all(c in ('try', 'handler') for c in path)):
            continue
        if len(set(trailing)) > 1:
            continue
        src = progen._jump_program(jump, loopkind, path, trailing, guarded)
        prng = random.Random(ix * 7919 + 13)
        n += 1
        yield progen.Program(progen.PRELUDE + src, [(1, 2, 3)], set(path) | {jump, loopkind, 'jumpctx', 'jumpctx_targeted'}, 'jumpctx_targeted',
                             decisions=progen.decision_vectors(prng, 8, length=10), meta={'index': ix})
    if info is not None:
        info['targeted_jump_programs'] = n


# ---------------------------------------------------------------------------------------------
def static_phase(run, prop, extra_sources=()):
    """verified checkers on every function graph of the corpus.  Returns the number of graphs checked."""
    lines, meta = [], []
    skipped = collections.Counter()
    sizes = collections.Counter()
    unexpected = []
    flags = collections.Counter()
    t0 = time.time()

    def add(node, src, origin):
        try:
            a = dc.Analysis(node, src)
            for fn, g in a.functions():
                d = a.graph_data(fn, g)
                if prop == 'C06':
                    if 'rd' not in d:
                        continue
                    flags['empty_sets'] += d['rd']['empty_sets']
                    flags['param_of_bad'] += d['rd']['param_of_bad']
                    lines.append(dc.c06_graph_line(d, a.name_definitions(fn, g)))
                else:
                    if 'live' not in d or 'fnd' not in d:
                        skipped['graph without liveness/fndefs analyzer'] += 1
                        continue
                    lines.append(dc.c07_graph_line(d))
                meta.append((origin, d['fn'], len(d['nodes']), len(d['edges'])))
                sizes[min(len(d['nodes']) // 10 * 10, 100)] += 1
        except dc.Unsupported as e:
            skipped[e.kind] += 1
            if e.kind not in dc.EXPECTED_CRASH_KINDS:
                unexpected.append({'function': origin, 'error': str(e)[:160]})
    nrepo = 0
    for rf in progen.repo_functions():
        node = ast.parse(ast.unparse(rf.node)).body[0]
        add(node, '', '%s:%s' % (rf.path, rf.qualname))
        nrepo += 1
    for key, src in extra_sources:
        try:
            tree = ast.parse(src)
        except SyntaxError:
            continue
        for s in tree.body:
            if isinstance(s, ast.FunctionDef) and s.name == 'f':
                add(s, src, key)
    run.cov['static'] = {'repo_functions': nrepo, 'program_functions': len(extra_sources), 'graphs': len(lines),
                         'skipped': dict(skipped), 'nodes_histogram': {str(k): v for k, v in sorted(sizes.items())},
                         'serialise_s': round(time.time() - t0, 1)}
    keys = STATIC_KEYS[prop]
    run.oblige('corpus:analyses-crash-only-in-the-known-ways', 'checker', not unexpected,
               'the real analyses raise on %d corpus functions in ways not seen on the pinned tree, e.g. %s' % (len(unexpected), json.dumps(unexpected[:3]))
               if unexpected else 'crash kinds: %s' % dict(skipped))
    if prop == 'C06':
        run.oblige('annotation:no-empty-definition-set', 'checker', flags['empty_sets'] == 0, 'states with a symbol mapped to an empty set: %d' % flags['empty_sets'])
        run.oblige('annotation:param_of', 'checker', flags['param_of_bad'] == 0,
                   'parameter definitions whose param_of is not the owning function (or non-parameter definitions with one): %d' % flags['param_of_bad'])
    if not run.driver_ok:
        for k, what in keys:
            run.oblige('checker:%s' % k, 'checker', False, 'driver unavailable')
        return 0
    t0 = time.time()
    answers = run.drive(lines)
    run.cov['static']['lean_s'] = round(time.time() - t0, 1)
    bad = collections.defaultdict(list)
    for (origin, fid, nn, ne), ans in zip(meta, answers):
        if not ans.startswith('('):
            bad['protocol'].append({'graph': origin, 'fn_id': fid, 'answer': ans[:200]})
            continue
        r = dc.parse_kv(ans)
        run.case(('graph', origin, fid), nn > 3)
        for k, v in r.items():
            if k not in NOT_FAILS and _bad(v):
                bad[k].append({'graph': origin, 'fn_id': fid, 'nodes': nn, 'value': v})
    for k, what in keys:
        run.oblige('checker:%s' % k, 'checker', not bad.get(k), what + (' — FAILS on %d graphs, e.g. %s' % (len(bad[k]), json.dumps(bad[k][:2])) if bad.get(k) else ''))
    if bad.get('protocol'):
        run.oblige('checker:protocol', 'checker', False, json.dumps(bad['protocol'][:2]))
    return len(lines), bad


# ---------------------------------------------------------------------------------------------
# dynamic phase: workers (one program each) produce observations + the Lean request lines; the parent drives Lean once
# ---------------------------------------------------------------------------------------------
MAX_FAIL_PER_PROGRAM = 12
MAX_TALLY_TRACES = 6


def _obs_key(o):
    return (o['kind'], o['act'].fid, o['name'], o.get('pre_class'), o.get('sid'), o.get('writer_node'), o.get('where'), o.get('reader_defined_later'),
            None if o.get('view') is None or not o['view'].ok or o.get('i') is None else (o['view'].nodes[o['i']], o['view'].nodes[o['j']]))


def _work(task):
    """one program: instrument, execute, observe.  Returns plain data."""
    prop, pj, runs_cap = task
    p = progen.Program.from_json(pj)
    res = {'key': p.key, 'kind': pj.get('kind'), 'features': pj.get('features', []), 'skipped': None, 'stats': {}, 'cases': [],
           'failing': [], 'lines': [], 'source': p.source, 'fsrc': p.function_source()}
    try:
        ins = di.Instrumented(p.source)
        pd = do.ProgramData(ins)
    except dc.Unsupported as e:
        res['skipped'] = 'analysis unsupported: ' + str(e)[:40]
        res['crash'] = str(e)[:200]
        return res
    except di.NotInstrumentable as e:
        res['skipped'] = 'not instrumentable: ' + str(e)[:40]
        return res
    observe = do.c06_observations if prop == 'C06' else do.c07_observations
    stats = collections.Counter()
    runs = [(a, d) for a in p.inputs for d in p.decisions][:runs_cap]
    per_fid = {}          # fid -> {trace json -> [steps, queries]}
    seen_fail = set()
    for args, dec in runs:
        try:
            out, tr = ins.run(args, dec, progen.run_program)
        except RecursionError:
            stats['recursion'] += 1
            continue
        stats['executions'] += 1
        if tr.implicit or out == ('exc', 'NameError'):
            stats['implicit_exception_runs'] += 1
            continue
        if out[0] == 'exc':
            stats['runs_ending_in_explicit_raise'] += 1
        st = collections.Counter()
        obs = list(observe(pd, tr, st))
        stats.update(st)
        res['cases'].append([list(map(str, args)), list(dec), st['reads'] > 3])
        stats['activations'] += len(tr.acts)
        for a in tr.acts:
            v = do.ActView(pd, a)
            if not v.ok:
                continue
            d = v.d
            if (prop == 'C06' and 'rd' not in d) or (prop == 'C07' and 'live' not in d):
                continue
            stats['traces'] += 1
            if not v.is_path:
                stats['traces_not_a_cfg_path'] += 1
            ls = v.lean_steps()
            slot = per_fid.setdefault(a.fid, {})
            k = json.dumps(ls)
            if k not in slot and len(slot) < MAX_TALLY_TRACES:
                slot[k] = [ls, [['all']]]
        for o in obs:
            stats['failing_observations'] += 1
            ok = _obs_key(o)
            if ok in seen_fail or len(res['failing']) >= MAX_FAIL_PER_PROGRAM:
                continue
            seen_fail.add(ok)
            f = {'args': list(args), 'decisions': list(dec), 'detail': o['detail'], 'fid': o['act'].fid, 'pre_class': o.get('pre_class'),
                 'kind': o['kind'], 'ref': None, 'where': o.get('where'), 'reader_defined_later': o.get('reader_defined_later'),
                 'nonpath_kind': None if o.get('view') is None or not o['view'].ok else o['view'].nonpath_kind}
            v = o.get('view')
            q = None
            if v is not None and v.ok:
                if prop == 'C07':
                    q = ['live', o['i'], o['j'], o['var']]
                else:
                    var = o.get('var') if o.get('var') is not None else pd.vid(o['name'])
                    if o.get('k') is not None and var is not None:
                        if o['kind'] == 'read':
                            q = ['read', v.idx[o['k']], var] + ([[list(x) for x in o['anno']]] if o.get('anno') is not None else [])
                        else:
                            q = ['entry', o['k'], o['sid'], var]
            if q is not None:
                ls = v.lean_steps()
                slot = per_fid.setdefault(o['act'].fid, {})
                k = json.dumps(ls)
                ent = slot.setdefault(k, [ls, []])
                ent[1].append(q)
                f['ref'] = [o['act'].fid, k, len(ent[1]) - 1]
            res['failing'].append(f)
    # one request line per function graph
    pos = {}
    for fid, slot in per_fid.items():
        d = pd.gd[fid]
        items = list(slot.items())
        for ti, (k, ent) in enumerate(items):
            pos[(fid, k)] = (len(res['lines']), ti)
        if prop == 'C06':
            line = ' '.join(['c06.traces'] + dc.graph_args(d) + [sexp(dc.sx_sol(d['rd']['in'])), sexp(dc.sx_sol(d['rd']['out'])), sexp(dc.sx_stmts(d)),
                                                                 sexp([ent for _, ent in items])])
        else:
            line = ' '.join(['c07.traces'] + dc.graph_args(d) + [sexp(dc.sx_sol(d['live']['in'])), sexp(dc.sx_sol(d['live']['out'])),
                                                                 sexp([ent for _, ent in items])])
        res['lines'].append(line)
    for f in res['failing']:
        if f['ref'] is not None:
            fid, k, qi = f['ref']
            li, ti = pos[(fid, k)]
            f['ref'] = [li, ti, qi]
    res['stats'] = dict(stats)
    return res


def dynamic_phase(run, prop, programs):
    """runs the direct oracle on every program (in worker processes); returns [(key, source)] for the static phase."""
    b = budgets(run)
    t0 = time.time()
    tasks = []
    for p in programs:
        j = p.to_json()
        j['kind'] = p.kind
        for k in ('scenario', 'expect_class', 'finding', 'must_pass'):
            if p.meta.get(k):
                j[k] = p.meta[k]
        tasks.append((prop, j, b['runs_per_program']))
    nproc = 1
    results = [_work(t) for t in tasks]       # ~20 ms per program: not worth a process pool
    stats, feats, kinds, skipped = collections.Counter(), collections.Counter(), collections.Counter(), collections.Counter()
    sources, lines, owner = [], [], []
    for r, t in zip(results, tasks):
        if r['skipped']:
            skipped[r['skipped']] += 1
            if r.get('crash') and 'except-as' not in r['skipped']:
                # generated programs are in the property's class by construction (no `except … as`): the analysis must run
                run.fail('%s: the real analysis raises on a program of the property\'s class: %s' % (prop, r['crash']),
                         {'program': t[1], 'error': r['crash']}, None)
            continue
        sources.append((r['key'], r['source']))
        kinds[r['kind']] += 1
        for f in r['features']:
            feats[f] += 1
        stats.update(r['stats'])
        for args, dec, nontriv in r['cases']:
            run.case((r['key'], tuple(args), tuple(dec)), nontriv)
        r['line0'] = len(lines)
        lines.extend(r['lines'])
        if len(run.samples) < 4 and r['kind'] in ('scenario', 'random') and len(r['fsrc']) < 1500:
            run.sample({'kind': r['kind'], 'program': r['fsrc'], 'executions': r['stats'].get('executions', 0)})
    t1 = time.time()
    answers = None
    if run.driver_ok and lines:
        answers = [common.parse_sexp(a) if a.startswith('(') else a for a in run.drive(lines)]
    tally, classes = collections.Counter(), collections.Counter()
    classify = classify_c06 if prop == 'C06' else classify_c07
    for r, t in zip(results, tasks):
        if r['skipped']:
            continue
        if answers is not None:
            for li in range(len(r['lines'])):
                a = answers[r['line0'] + li]
                if isinstance(a, str):
                    raise common.InfraError('driver answered %s' % a)
                for per_trace in a:
                    for qa in per_trace:
                        if isinstance(qa, list) and qa and qa[0] == 'tally':
                            _, fl = _flags(qa)
                            for k, val in fl.items():
                                if isinstance(val, str) and val.isdigit():
                                    tally[k] += int(val)
                            tally['traces_evaluated'] += 1
        for f in r['failing']:
            ans = None
            if answers is not None and f['ref'] is not None:
                li, ti, qi = f['ref']
                per_trace = answers[r['line0'] + li][ti]
                ans = per_trace[qi]
            f['cls'] = classify(f, ans) if (answers is not None or f['ref'] is None) else None
            f['lean'] = ans
    # known-finding protocol (DESIGN 2.7): a class is attributed only while the listed witness itself still fails in it
    listed = {k.get('class'): k for k in common.load_known_findings() if k.get('property') == prop and k.get('status', 'open') == 'open'}
    witnessed = set()
    for r, t in zip(results, tasks):
        if not r['skipped'] and t[1].get('expect_class'):
            if any(f['cls'] == t[1]['expect_class'] for f in r['failing']):
                witnessed.add(t[1]['expect_class'])
    stale = sorted(c for c in listed if c not in witnessed)
    for c in stale:
        run.notes.append('known finding %s: its witness (corpus/%s/%s.json) no longer fails in class %s — the class is not attributed any more; '
                         'update the model and drop the hypothesis' % (listed[c].get('id'), prop, listed[c].get('id'), c))
    pending = []
    for r, t in zip(results, tasks):
        if r['skipped']:
            continue
        for f in r['failing']:
            cls = f['cls'] if f['cls'] not in stale else None
            if t[1].get('must_pass'):
                cls = None        # witness of a REPAIRED finding: it suppresses nothing and must pass
            classes[f['cls'] or 'UNCLASSIFIED'] += 1
            case = {'program': t[1], 'args': f['args'], 'decisions': f['decisions'], 'function_id': f['fid'], 'observation': f['detail'],
                    'class_predicate': f['cls'], 'lean': f['lean']}
            pending.append((cls is not None, len(r['fsrc']), len(pending), '%s: %s' % (prop, f['detail']), case, cls))
    # smallest unattributed programs first: these become the replay files
    for _, _, _, what, case, cls in sorted(pending, key=lambda x: x[:3]):
        run.fail(what, case, cls)
    run.cov['known_finding_witnesses_still_failing'] = sorted(witnessed)
    run.cov['dynamic'] = {'programs': dict(kinds), 'features': dict(feats), 'skipped': dict(skipped), 'stats': dict(stats),
                          'failing_by_class': dict(classes), 'trace_theorem_tally': dict(tally),
                          'wall_s': round(time.time() - t0, 1), 'lean_s': round(time.time() - t1, 1), 'workers': nproc}
    if answers is not None:
        run.oblige('theorem-instances:no-contradiction', 'checker', tally.get('contradiction', 0) == 0,
                   'on %d real traces: %s' % (tally.get('traces_evaluated', 0), dict(tally)))
    return sources


# ---------------------------------------------------------------------------------------------
# classification from the Lean driver's evaluation of the theorem's hypotheses on the recorded trace
# ---------------------------------------------------------------------------------------------
def _flags(x):
    """('read' (k v) ...) -> (head, dict)"""
    if isinstance(x, str):
        return x, {}
    head = x[0]
    d = {}
    for kv in x[1:]:
        if isinstance(kv, list) and len(kv) == 2 and isinstance(kv[0], str):
            v = kv[1]
            d[kv[0]] = (v == 'True') if v in ('True', 'False') else v
        else:
            d.setdefault('_rest', []).append(kv)
    return head, d


def _nonpath_class(f):
    """the executed node sequence is not a path of the real graph (hypothesis `isPathB`, property C05)"""
    if f.get('nonpath_kind') == 'jump_in_handler_of_try_with_finally':
        return 'jump_in_handler_of_try_with_finally'
    return 'executed_trace_not_a_cfg_path'


def classify_c06(f, ans):
    pre = f.get('pre_class')
    if pre == 'read_inside_lambda_body':
        return pre
    if f['ref'] is None:
        # the value was produced before this activation began (no step of the activation touched it)
        return pre
    if ans is None:
        return None
    head, fl = _flags(ans)
    if head == 'nowriter':
        return pre if (pre == 'value_written_by_another_activation' and ans[1] in ('foreign', 'unbound')) else None
    if pre:
        return None          # the harness saw a foreign writer, the Lean reading of the trace a direct one
    if head == 'read' and fl.get('concl') and fl.get('anno_at_eval') is False and f.get('where') == 'nested_def_args' \
            and fl.get('postfix') and fl.get('path') and fl.get('gen'):
        # in_ of the evaluating node has the definition, the annotation was taken from another state (Lean: nameDefsAtEval = false)
        return 'read_in_default_of_nested_def'
    if head not in ('read', 'entry') or fl.get('concl'):
        return None          # in_/out contain the definition although the annotation does not
    if not fl.get('postfix') or not fl.get('gen') or fl.get('other_kill'):
        return None
    if not fl.get('path'):
        return _nonpath_class(f)
    if fl.get('for_target'):
        return 'for_target_defined_before_zero_trip'
    return None


def classify_c07(f, ans):
    if ans is None:
        return None
    head, fl = _flags(ans)
    if head != 'live' or not fl.get('rbo') or (fl.get('concl_out') and fl.get('concl_in')):
        return None
    if not fl.get('postfix') or fl.get('other_kill'):
        return None
    if not fl.get('path'):
        return _nonpath_class(f)
    if fl.get('gen'):
        return 'for_target_live_across_zero_trip' if fl.get('for_target') else None
    # the read is not generated at the reading step: which readers are not covered, and why
    cls = set()
    for r in fl.get('readers') or []:
        if r[0] == 'direct':
            # a direct read that the node's Scope does not record (hgen of live_sound, property C08): listed only for the
            # reads of `except <type>:` expressions and of class bodies, which belong to no CFG node's Scope at all
            cls.add({'except_type': 'read_in_except_handler_type', 'class_body': 'read_in_class_body'}.get(f.get('where')))
            continue
        _, rf = _flags(['closure'] + r[2:])
        if rf.get('covered'):
            continue
        if rf.get('lambda'):
            cls.add('read_by_lambda_called_after_its_statement')
        elif rf.get('nonlocal'):
            cls.add('nonlocal_declared_below_reaching_closure')
        elif rf.get('outside_unseeded') and not rf.get('reaching') and f.get('reader_defined_later'):
            # (the run itself shows that the reader's def statement ran after the running function's own def statement)
            cls.add('outer_function_defined_after_callers_definition')
        else:
            cls.add(None)
    if not cls or None in cls:
        return None
    return sorted(cls)[0]
