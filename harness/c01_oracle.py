"""Direct differential oracle for C01 (and reused by other properties): original function vs the function
returned by malt.to_graph / malt.convert under the default operators.

Runs as a worker subprocess (one PYTHONHASHSEED each): generates its shard of programs deterministically from
(seed, shard), converts each under several option sets, runs original and converted on every input x decision
vector and compares the observables the property names: return value | escaping exception type ("some NameError"
for unbound reads), ordered tracer log (calls, context-manager enter/exit, decisions), module global G, final
state of the mutable list argument.  Prints one JSON document.
"""
import ast, copy, json, os, random, sys, time, traceback

HERE = os.path.dirname(os.path.abspath(__file__))
sys.path.insert(0, HERE)
import common  # noqa: E402
sys.path.insert(0, common.REPO)
import progen  # noqa: E402


# ------------------------------------------------------------------------------------------------
# finding-class predicates: computed from the program (+ the ORIGINAL run), never from the failure
# ------------------------------------------------------------------------------------------------
def _fn_node(prog):
    tree = ast.parse(prog.source)
    return [n for n in tree.body if isinstance(n, ast.FunctionDef) and n.name == prog.fname][0]


def _names_bound_outside(fn, loop):
    """names bound in fn (params, assignment/for/with/aug targets) by nodes that are not inside `loop`."""
    inside = set(id(n) for n in ast.walk(loop))
    out = set(a.arg for a in fn.args.args + fn.args.kwonlyargs + fn.args.posonlyargs)
    for n in ast.walk(fn):
        if id(n) in inside and n is not loop:
            continue
        if isinstance(n, ast.Name) and isinstance(n.ctx, ast.Store) and id(n) not in inside:
            out.add(n.id)
    return out


def _target_names(t):
    return [n.id for n in ast.walk(t) if isinstance(n, ast.Name)]


def static_classes(prog):
    """Finding classes whose static part holds for this program."""
    fn = _fn_node(prog)
    cls = {}
    # (1) the value of a for-loop target that is ALSO bound by another binding site (before the loop, or inside its
    #     body by a nested loop / assignment / with-as) is read outside the loop: the loop header kills its target on
    #     the exit edge as well (liveness), so the other binding is not wired as state
    loops = []
    for n in ast.walk(fn):
        if isinstance(n, ast.For):
            tn = set(_target_names(n.target))
            header = set(id(x) for x in ast.walk(n.target))
            other_bound = set(a.arg for a in fn.args.args + fn.args.kwonlyargs + fn.args.posonlyargs)
            for x in ast.walk(fn):
                if isinstance(x, ast.Name) and isinstance(x.ctx, ast.Store) and id(x) not in header:
                    other_bound.add(x.id)
            inside = set(id(x) for x in ast.walk(n))
            read_outside = set(x.id for x in ast.walk(fn) if isinstance(x, ast.Name) and isinstance(x.ctx, ast.Load) and id(x) not in inside)
            if tn & other_bound & read_outside:
                loops.append(n.lineno)
    if loops:
        cls['for_target_rebound_elsewhere_and_read_after_loop'] = loops
    # (2) a nested function declares a name nonlocal and assigns it, and the enclosing function has no unconditional
    #     top-level assignment of that name before the nested def (so the closure call may be its first binding):
    #     DEFINED_VARS_IN of later statements misses it (the liveness side of nonlocal closures was fixed in ccf3d44)
    top_assigned = set()
    for st in fn.body:
        if isinstance(st, ast.FunctionDef):
            nl = set()
            for x in ast.walk(st):
                if isinstance(x, ast.Nonlocal):
                    nl.update(x.names)
            stored = set(x.id for x in ast.walk(st) if isinstance(x, ast.Name) and isinstance(x.ctx, ast.Store))
            risky = (nl & stored) - top_assigned
            if risky:
                cls['local_first_bound_by_closure_call'] = sorted(risky)
        elif isinstance(st, (ast.Assign, ast.AugAssign, ast.AnnAssign)):
            for x in ast.walk(st):
                if isinstance(x, ast.Name) and isinstance(x.ctx, ast.Store):
                    top_assigned.add(x.id)
    # (3) parameter of a nested def/lambda equal to a name read in the enclosing function outside it
    for n in ast.walk(fn):
        if isinstance(n, (ast.FunctionDef, ast.Lambda)) and n is not fn:
            ps = set(a.arg for a in n.args.args + n.args.kwonlyargs + n.args.posonlyargs)
            if n.args.vararg:
                ps.add(n.args.vararg.arg)
            if n.args.kwarg:
                ps.add(n.args.kwarg.arg)
            inside = set(id(x) for x in ast.walk(n))
            read_outside = set(x.id for x in ast.walk(fn) if isinstance(x, ast.Name) and isinstance(x.ctx, ast.Load) and id(x) not in inside)
            if ps & read_outside:
                cls['nested_fn_param_leaks_into_enclosing_bound'] = sorted(ps & read_outside)
    # (4) `except E as name` (py3 ast gives a str name; cfg/activity treat it as a node)
    if any(isinstance(n, ast.ExceptHandler) and n.name for n in ast.walk(fn)):
        cls['except_handler_binds_name'] = True
    # (5) try/else whose else block starts with an `if` (cfg keys a cond section by orelse[0])
    if any(isinstance(n, ast.Try) and n.orelse and isinstance(n.orelse[0], ast.If) for n in ast.walk(fn)):
        cls['try_else_block_starts_with_if'] = True
    # (6) chained comparison whose middle operand has an effect: logical_expressions.visit_Compare duplicates it
    for n in ast.walk(fn):
        if isinstance(n, ast.Compare) and len(n.ops) >= 2:
            if any(isinstance(x, (ast.Call, ast.NamedExpr, ast.Await, ast.Yield)) for m in n.comparators[:-1] for x in ast.walk(m)):
                cls['chained_comparison_effectful_middle_operand'] = True
    # (8) a `finally` block containing a raise, on a try whose body/handlers contain return/break/continue: when the
    #     raise replaces the pending jump and is caught in the same function, the lowered jump flag stays set
    def _own(nodes, kinds):
        out = []
        stack = list(nodes)
        while stack:
            x = stack.pop()
            if isinstance(x, (ast.FunctionDef, ast.Lambda, ast.ClassDef)):
                continue
            if isinstance(x, kinds):
                out.append(x)
            stack.extend(ast.iter_child_nodes(x))
        return out
    for n in ast.walk(fn):
        if isinstance(n, ast.Try) and n.finalbody:
            if _own(n.finalbody, (ast.Raise,)) and _own(n.body + n.handlers + n.orelse, (ast.Return, ast.Break, ast.Continue)):
                cls['raise_in_finally_over_jump'] = True
    # (17) a declared global assigned inside a converted body: lexically inside an if/while/for, or — after return
    #      lowering moved "the rest of the block" into an `if not do_return:` guard — after a statement that contains an
    #      early return in one of the enclosing blocks (control_flow consults scope.nonlocals only, never scope.globals,
    #      when selecting block variables, and the generated body functions get no `global` declaration)
    gl = set()
    for n in ast.walk(fn):
        if isinstance(n, ast.Global):
            gl.update(n.names)
    if gl:
        def _has_return(st):
            stack = [st]
            while stack:
                x = stack.pop()
                if isinstance(x, (ast.FunctionDef, ast.Lambda, ast.ClassDef)) and x is not st:
                    continue
                if isinstance(x, ast.Return):
                    return True
                stack.extend(ast.iter_child_nodes(x))
            return False

        def _scan(block, in_cf, after_ret):
            for st in block:
                if isinstance(st, (ast.FunctionDef, ast.ClassDef)):
                    continue
                stores = [x for x in ast.walk(st) if isinstance(x, ast.Name) and isinstance(x.ctx, ast.Store) and x.id in gl] \
                    if not isinstance(st, (ast.If, ast.While, ast.For, ast.With, ast.Try)) else []
                if stores and (in_cf or after_ret):
                    cls['global_assigned_in_converted_block'] = True
                for fld in ('body', 'orelse', 'finalbody'):
                    sub = getattr(st, fld, None)
                    if isinstance(sub, list) and sub and isinstance(sub[0], ast.stmt):
                        _scan(sub, in_cf or isinstance(st, (ast.If, ast.While, ast.For)), after_ret)
                for h in getattr(st, 'handlers', []) or []:
                    _scan(h.body, in_cf, after_ret)
                if _has_return(st) and not isinstance(st, ast.Return):
                    after_ret = True
        _scan(fn.body, False, False)
    # (18) a lowered jump inside the protected block of a try that has an else clause: the jump becomes a flag
    #      assignment, the protected block then runs to its end and the else clause — which Python skips — is executed
    #      (break/continue/return passes have no guard for Try.orelse; a guard `if not flag:` there would start the else
    #      block with an `if`, which cfg.build cannot handle — finding try_else_block_starts_with_if)
    def _own_jump(nodes, inloop):
        for st in nodes:
            if isinstance(st, ast.Return):
                return True
            if isinstance(st, (ast.Break, ast.Continue)) and not inloop:
                return True
            if isinstance(st, (ast.FunctionDef, ast.ClassDef)):
                continue
            if isinstance(st, (ast.For, ast.While)):
                if _own_jump(st.body, True) or _own_jump(st.orelse, inloop):
                    return True
                continue
            blocks = [getattr(st, f, None) for f in ('body', 'orelse', 'finalbody')] + [h.body for h in getattr(st, 'handlers', [])]
            for b in blocks:
                if isinstance(b, list) and b and isinstance(b[0], ast.stmt) and _own_jump(b, inloop):
                    return True
        return False
    for n in ast.walk(fn):
        if isinstance(n, ast.Try) and n.orelse and _own_jump(n.body, False):
            cls['jump_in_try_body_with_else_clause'] = True
    # (19) `!=` on an object with its own __ne__: under EQUALITY_OPERATORS the comparison is lowered to
    #      ag__.not_eq = not_(eq(a, b)), so __eq__ is called instead of __ne__ and the result is a negated bool
    for n in ast.walk(fn):
        if isinstance(n, ast.Compare) and any(isinstance(o, ast.NotEq) for o in n.ops) and \
                any(isinstance(x, ast.Name) and x.id == 'EQ1' for x in [n.left] + n.comparators):
            cls['not_equal_on_object_with_custom_ne'] = True
    # (16) nonlocal/global declared inside a nested block of a (nested) function rather than at its top level: the
    #      parallel-block scope handling of activity analysis loses/misplaces the declaration
    for n in ast.walk(fn):
        if isinstance(n, (ast.FunctionDef, ast.Lambda)):
            top = set(id(st) for st in getattr(n, 'body', []) if isinstance(st, (ast.Nonlocal, ast.Global))) if isinstance(n, ast.FunctionDef) else set()
            stack = list(getattr(n, 'body', [])) if isinstance(n, ast.FunctionDef) else []
            while stack:
                x = stack.pop()
                if isinstance(x, (ast.FunctionDef, ast.Lambda, ast.ClassDef)):
                    continue
                if isinstance(x, (ast.Nonlocal, ast.Global)) and id(x) not in top:
                    cls['nonlocal_or_global_declared_in_nested_block'] = True
                stack.extend(ast.iter_child_nodes(x))
    # (15) `del x` of a plain name is rewritten to `x = ag__.Undefined('x')` (variables.visit_Delete): deleting an
    #      UNBOUND name no longer raises at the del statement
    if any(isinstance(n, ast.Delete) and any(isinstance(t, ast.Name) for t in n.targets) for n in ast.walk(fn)):
        cls['del_of_unbound_name_does_not_raise'] = True
    # (14) a class body inside the function reads a local of the function: its reads are in no node's Scope (liveness)
    assigned = set(x.id for x in ast.walk(fn) if isinstance(x, ast.Name) and isinstance(x.ctx, ast.Store)) | set(a.arg for a in fn.args.args)
    for n in ast.walk(fn):
        if isinstance(n, ast.ClassDef):
            reads = set(x.id for st in n.body for x in ast.walk(st) if isinstance(x, ast.Name) and isinstance(x.ctx, ast.Load))
            if reads & assigned:
                cls['read_in_class_body'] = sorted(reads & assigned)
    # (9)-(13) construct-specific conversion failures found by the C04 builder's context enumeration
    for n in ast.walk(fn):
        if isinstance(n, ast.Call) and any(isinstance(x, ast.NamedExpr) for a in n.args for x in ast.walk(a)):
            cls['namedexpr_in_call_argument'] = True
        if isinstance(n, ast.FunctionDef) and n is not fn:
            if n.returns is not None and any(isinstance(x, ast.Call) for x in ast.walk(n.returns)):
                cls['call_in_return_annotation_of_nested_def'] = True
            if any(isinstance(x, ast.Lambda) for d in n.decorator_list for x in ast.walk(d)):
                cls['lambda_in_decorator_of_nested_def'] = True
    body = [s for s in fn.body]
    if len(body) == 1 and isinstance(body[0], ast.Expr) and isinstance(body[0].value, ast.Constant) and isinstance(body[0].value.value, str):
        cls['docstring_only_function_body'] = True
    return cls


class _LoopProbe(ast.NodeTransformer):
    """Instrument `for` loops of the original to learn which ran zero iterations."""

    def __init__(self):
        self.k = 0

    def visit_For(self, node):
        self.generic_visit(node)
        self.k += 1
        k = node.lineno
        enter = ast.parse('__LP.append(("enter", %d))' % k).body[0]
        it = ast.parse('__LP.append(("iter", %d))' % k).body[0]
        node.body = [it] + node.body
        return [enter, node]


def zero_trip_lines(prog, mod, args, dec):
    """Line numbers of `for` loops that were entered with zero iterations in the ORIGINAL run."""
    tree = ast.parse(prog.source)
    tree = _LoopProbe().visit(tree)
    ast.fix_missing_locations(tree)
    ns = {'__LP': [], '__name__': 'probe'}
    try:
        exec(compile(tree, '<probe>', 'exec'), ns)
        ns['LOG'][:] = []
        ns['DEC'][:] = list(dec)
        try:
            ns[prog.fname](*copy.deepcopy(list(args)))
        except Exception:
            pass
    except Exception:
        return set()
    lp = ns['__LP']
    zero = set()
    for i, (kind, k) in enumerate(lp):
        if kind == 'enter':
            if not (i + 1 < len(lp) and lp[i + 1] == ('iter', k)):
                zero.add(k)
    return zero


_OPEN_CLASSES = None


def open_classes():
    """Classes of the OPEN listed C01 findings (a `status: fixed` entry suppresses nothing, so its class must not
    shadow an open class that also matches the case)."""
    global _OPEN_CLASSES
    if _OPEN_CLASSES is None:
        import common
        _OPEN_CLASSES = set(f.get('class') for f in common.load_known_findings()
                            if f.get('property') == 'C01' and f.get('status', 'open') != 'fixed')
    return _OPEN_CLASSES


def classify(prog, mod, args, dec, static, orig_outcome=None, raised_at_del=False):
    """Finding class of a failing case, or None (= new violation).  Of all matching classes the first OPEN one is
    returned; when only classes of repaired findings match, the first of those (it is reported as a violation)."""
    matches = []
    for k in ('for_target_rebound_elsewhere_and_read_after_loop', 'local_first_bound_by_closure_call',
              'nested_fn_param_leaks_into_enclosing_bound'):
        if k in static:
            matches.append(k)
    if 'del_of_unbound_name_does_not_raise' in static and orig_outcome[:2] == ('exc', 'NameError') and raised_at_del:
        matches.append('del_of_unbound_name_does_not_raise')
    for k in ('global_assigned_in_converted_block', 'nonlocal_or_global_declared_in_nested_block', 'read_in_class_body', 'namedexpr_in_call_argument', 'call_in_return_annotation_of_nested_def', 'lambda_in_decorator_of_nested_def',
              'docstring_only_function_body',
              'raise_in_finally_over_jump', 'except_handler_binds_name', 'try_else_block_starts_with_if', 'chained_comparison_effectful_middle_operand',
              'jump_in_try_body_with_else_clause', 'not_equal_on_object_with_custom_ne'):
        if k in static:
            matches.append(k)
    opn = open_classes()
    for k in matches:
        if k in opn:
            return k
    return matches[0] if matches else None


# ------------------------------------------------------------------------------------------------
def run_once(mod, fn, args, dec):
    a = copy.deepcopy(list(args))
    out, log, g = progen.run_program(mod, fn, a, dec)
    # progen.run_program copies list args again; observe mutation through our own copy
    return out, log, g


def run_observe(mod, fn, args, dec):
    """(outcome, log, G, final state of list arguments)"""
    run_observe.last_exc = None
    mod.LOG[:] = []
    mod.DEC[:] = list(dec)
    mod.G = 0
    a = copy.deepcopy(list(args))
    try:
        r = fn(*a)
        out = ('ret', mod._freeze(r))
    except RecursionError:
        raise
    except BaseException as e:  # noqa
        run_observe.last_exc = e
        out = ('exc', 'NameError' if isinstance(e, NameError) else type(e).__name__)
        # where (in the program's own file) was it raised?  used only by class predicates on the ORIGINAL run
        tb, line = e.__traceback__, None
        while tb is not None:
            if tb.tb_frame.f_code.co_filename == getattr(mod, '__file__', None):
                line = tb.tb_lineno
            tb = tb.tb_next
        run_observe.last_raise_line = line
    lists = [mod._freeze(x) for x in a if isinstance(x, list)]
    log = list(mod.LOG)
    if out[0] == 'exc':
        # the property compares, when an exception escapes, only its type and the effects UP TO the raise (effects of
        # finally blocks / context-manager exits that run while it propagates are exempt).  Explicit raises in generated
        # programs are `raise E(tr(slot))`: the raise point is right after the last ('tr', slot) event.
        cut = None
        exc = run_observe.last_exc
        if out[1] in ('E1', 'E2') and exc is not None and exc.args:
            slot = exc.args[0]
            for i in range(len(log) - 1, -1, -1):
                if log[i][:2] == ('tr', slot):
                    cut = i + 1
                    break
        if cut is not None:
            return ('exc', out[1], 'explicit'), log[:cut], None, None
        return ('exc', out[1], 'implicit'), log, None, None
    return out, log, mod.G, lists


CONFIGS = None


def configs():
    global CONFIGS
    if CONFIGS is None:
        from malt.core import converter
        F = converter.Feature
        fs = [None, (F.BUILTIN_FUNCTIONS,), (F.EQUALITY_OPERATORS,), (F.BUILTIN_FUNCTIONS, F.EQUALITY_OPERATORS)]
        CONFIGS = [(r, f) for r in (True, False) for f in fs]
        # LISTS is inside the guarantee only for list operations on local variables and parameters: used with
        # recursive=False (the callees, e.g. the prelude's d()/n() working on module-level lists, stay unconverted)
        # and only on programs that pass lists_eligible()
        CONFIGS += [(False, (F.LISTS,)), (False, (F.LISTS, F.BUILTIN_FUNCTIONS, F.EQUALITY_OPERATORS))]
        if os.environ.get('C01_LISTS_CONFIGS'):
            CONFIGS = CONFIGS[-2:]
    return CONFIGS


def lists_eligible(prog):
    """The LISTS feature is inside the guarantee only for list operations on local variables and parameters: no
    append/pop call or subscript store on a name that is free in the (nested) function performing it, none on a
    declared global/nonlocal, none on an attribute."""
    fn = _fn_node(prog)

    def bound_in(f):
        b = set(a.arg for a in f.args.args + f.args.kwonlyargs + f.args.posonlyargs)
        if f.args.vararg:
            b.add(f.args.vararg.arg)
        if f.args.kwarg:
            b.add(f.args.kwarg.arg)
        outer = set()
        comp_targets = set()
        stack = list(f.body) if isinstance(f, ast.FunctionDef) else [f.body]
        while stack:
            x = stack.pop()
            if isinstance(x, (ast.FunctionDef, ast.Lambda, ast.ClassDef)):
                if isinstance(x, ast.FunctionDef):
                    b.add(x.name)
                continue
            if isinstance(x, (ast.Global, ast.Nonlocal)):
                outer.update(x.names)
            if isinstance(x, ast.Name) and isinstance(x.ctx, ast.Store):
                b.add(x.id)
            if isinstance(x, (ast.ListComp, ast.SetComp, ast.DictComp, ast.GeneratorExp)):
                # comprehension targets are bound in the comprehension's own scope, not in the function
                for gen in x.generators:
                    stack.append(gen.iter)
                    stack.extend(gen.ifs)
                stack.extend([x.key, x.value] if isinstance(x, ast.DictComp) else [x.elt])
                tg = set(n.id for gen in x.generators for n in ast.walk(gen.target) if isinstance(n, ast.Name))
                comp_targets.update(tg)
                continue
            stack.extend(ast.iter_child_nodes(x))
        return b - outer

    def ok(f):
        b = bound_in(f)
        stack = list(f.body) if isinstance(f, ast.FunctionDef) else [f.body]
        while stack:
            x = stack.pop()
            if isinstance(x, (ast.FunctionDef, ast.Lambda)):
                if not ok(x):
                    return False
                continue
            if isinstance(x, ast.ClassDef):
                return False
            base = None
            if isinstance(x, ast.Call) and isinstance(x.func, ast.Attribute) and x.func.attr in ('append', 'pop', 'extend', 'insert'):
                base = x.func.value
            if isinstance(x, ast.Subscript) and isinstance(x.ctx, (ast.Store, ast.Del)):
                base = x.value
            if base is not None and not (isinstance(base, ast.Name) and base.id in b):
                return False
            stack.extend(ast.iter_child_nodes(x))
        return True
    return ok(fn)


def cfg_name(c):
    return 'recursive=%s,features=%s' % (c[0], [f.name for f in c[1]] if c[1] else None)


def worker(spec):
    import malt
    rng = random.Random(spec['seed'] * 1000003 + spec['shard'])
    progs = []
    info = {}
    if spec.get('replay'):
        progs = [progen.Program.from_json(j) for j in spec['replay']]
    else:
        if spec['skel_cap'] > 0:
            # every shard walks the same canonical space; shard k takes indices k mod nshards
            allp = progen.skeleton_programs(spec['skel_stmts'], spec['skel_depth'], cap=spec['skel_cap'] * spec['nshards'],
                                            rng=random.Random(spec['seed']), rich=spec.get('rich', False), info=info)
            for i, p in enumerate(allp):
                if i % spec['nshards'] == spec['shard']:
                    progs.append(p)
        if spec.get('jump_cap', 0) > 0:
            allj = progen.jump_context_programs(spec['jump_depth'], cap=spec['jump_cap'] * spec['nshards'],
                                                rng=random.Random(spec['seed'] + 17), info=info)
            for i, p in enumerate(allj):
                if i % spec['nshards'] == spec['shard']:
                    progs.append(p)
        progs += list(progen.random_programs(rng, spec['random_n'], size=spec.get('size', 12)))
        # the binding-construct scenarios are few: all of them in every run; the raise/handler family is stepped in quick
        bfam = list(progen.binding_scenario_programs()) + list(progen.escape_scenario_programs()) + list(progen.conditionally_bound_programs()) + list(progen.list_iteration_programs())
        progs += [p for i, p in enumerate(bfam) if i % spec['nshards'] == spec['shard']]
        fam = list(progen.raise_handler_programs(info=info))
        step = spec.get('family_step', 1)
        progs += [p for i, p in enumerate(fam) if i % spec['nshards'] == spec['shard'] and (i // spec['nshards']) % step == spec['seed'] % step]
        rfam = list(progen.return_try_programs(info=info))
        progs += [p for i, p in enumerate(rfam) if i % spec['nshards'] == spec['shard'] and (i // spec['nshards']) % step == spec['seed'] % step]
        # interleave the families so that a time budget cuts all of them evenly
        rng.shuffle(progs)
    res = {'programs': 0, 'cases': 0, 'nontrivial': 0, 'failures': [], 'features': {}, 'outcomes': {}, 'configs': {},
           'space': info, 'convert_errors': 0, 'samples': [], 'hashseed': os.environ.get('PYTHONHASHSEED')}
    t0 = time.time()
    with progen.Workspace() as ws:
        for pi, p in enumerate(progs):
            if time.time() - t0 > spec['budget_s']:
                res['truncated'] = True
                break
            try:
                mod = ws.load(p)
            except Exception as e:
                continue
            res['programs'] += 1
            for f in p.features:
                res['features'][f] = res['features'].get(f, 0) + 1
            static = static_classes(p)
            cfgs = configs()
            ncfg = spec['configs_per_program']
            chosen = cfgs if ncfg >= len(cfgs) else [cfgs[(pi + k * 3) % len(cfgs)] for k in range(ncfg)]
            if any(c[1] and any(f.name == 'LISTS' for f in c[1]) for c in chosen) and not lists_eligible(p):
                plain = [c for c in cfgs if not (c[1] and any(f.name == 'LISTS' for f in c[1]))]
                chosen = [c if not (c[1] and any(f.name == 'LISTS' for f in c[1])) else plain[(pi + 1) % len(plain)]
                          for c in chosen] if plain else []
            runs = [(a, d) for a in p.inputs for d in p.decisions][:spec['runs_per_program']]
            refs, ref_raise_lines = [], []
            for (a, d) in runs:
                run_observe.last_raise_line = None
                run_observe.last_exc = None
                refs.append(run_observe(mod, mod.f, a, d))
                ref_raise_lines.append(run_observe.last_raise_line)
            src_lines = p.source.split('\n')
            for c in chosen:
                cname = cfg_name(c)
                res['configs'][cname] = res['configs'].get(cname, 0) + 1
                variants = []
                try:
                    variants.append(('to_graph', malt.to_graph(mod.f, recursive=c[0], experimental_optional_features=c[1])))
                except BaseException as e:  # noqa
                    res['convert_errors'] += 1
                    res['failures'].append({'what': 'conversion fails: %s: %s' % (type(e).__name__, str(e)[:200]),
                                            'cls': classify(p, mod, p.inputs[0], p.decisions[0], static) if static else None,
                                            'case': dict(p.to_json(), config=cname)})
                    continue
                if (pi + len(cname)) % 4 == 0:
                    try:
                        variants.append(('convert', malt.convert(recursive=c[0], optional_features=c[1])(mod.f)))
                    except BaseException as e:  # noqa
                        pass
                for vname, conv in variants:
                    for (a, d), r0, rl in zip(runs, refs, ref_raise_lines):
                        raised_at_del = bool(rl and 0 < rl <= len(src_lines) and src_lines[rl - 1].strip().startswith('del '))
                        r1 = run_observe(mod, conv, a, d)
                        res['cases'] += 1
                        k = r0[0][0] if r0[0][0] == 'ret' else r0[0][1]
                        res['outcomes'][k] = res['outcomes'].get(k, 0) + 1
                        if len(r0[1]) > 1:
                            res['nontrivial'] += 1
                        same = (r0 == r1)
                        if not same and r0[0][0] == 'exc' and r1[0][0] == 'exc' and r0[0][1] == r1[0][1] \
                                and 'implicit' in (r0[0][2], r1[0][2]):
                            # implicit exception (NameError/TypeError/...): raise point unknown -> effects up to the raise
                            # agree iff one log is a prefix of the other
                            la, lb = r0[1], r1[1]
                            k = min(len(la), len(lb))
                            same = la[:k] == lb[:k]
                        if not same and vname == 'convert' and r0[0][0] == 'exc' and r1[0][0] == 'exc' \
                                and r0[0][1] not in ('E1', 'E2', 'NameError'):
                            same = True      # malt.convert may re-create builtin exception types (C12's rule), not C01's subject
                        if not same:
                            what = 'original and converted differ'
                            if r0[0] != r1[0]:
                                what += ': outcome %r vs %r' % (r0[0], r1[0])
                            elif r0[1] != r1[1]:
                                what += ': effect log differs'
                            elif r0[2] != r1[2]:
                                what += ': module global differs'
                            else:
                                what += ': mutable argument state differs'
                            res['failures'].append({'what': what, 'cls': classify(p, mod, a, d, static, r0[0], raised_at_del),
                                                    'case': dict(p.to_json(), config=cname, variant=vname, args=list(a), decisions=list(d),
                                                                 original=repr(r0)[:600], converted=repr(r1)[:600])})
                if len(res['samples']) < 2 and pi % 7 == 3:
                    res['samples'].append({'program': p.function_source(), 'config': cname, 'args': list(runs[0][0]),
                                           'decisions': list(runs[0][1]), 'observed': repr(refs[0])[:300]})
            ws.unload(mod)
    res['wall'] = time.time() - t0
    # keep the output bounded
    res['nfailures'] = len(res['failures'])
    res['failures'] = res['failures'][:40]
    print(json.dumps(res))


if __name__ == '__main__':
    try:
        worker(json.loads(sys.stdin.read()))
    except Exception:
        traceback.print_exc()
        sys.exit(3)
