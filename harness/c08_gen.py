"""C08 — generators of function trees exercising Python's binding constructs.

Two families (DESIGN.md §2.5):
  * chains(...)  bounded-exhaustive: a top-level `def f` whose body holds one *event* on the contested name
    `x` and one nested block (def / class / lambda / list comprehension / generator expression) holding
    its own event on `x` and, at depth 3, a further nested block with an event.  Events are all the binding
    and using constructs of the property's quantifier.  Walked in a fixed canonical order; when larger than
    the cap it is stride-sampled with a seed-derived offset.
  * random_tree(rng, ...)  seeded-random function trees mixing everything (all parameter kinds,
    annotations, decorators, defaults, imports, with/except targets, attribute/subscript targets, del,
    walrus, global/nonlocal, classes with methods, comprehensions of all four kinds, control flow).
Every case is a source text of one top-level `def f`; texts rejected by CPython's compiler (SyntaxError from
`symtable.symtable`) are counted and dropped by the caller.  Executable cases are run with PRELUDE.
"""
import itertools

# ------------------------------------------------------------------------------------------------
# prelude for executed cases: a permissive value, so that almost every expression evaluates
# ------------------------------------------------------------------------------------------------
PRELUDE = '''\
import os, os.path, sys
_N = [0]
class V(object):
    def __init__(s, *a, **k):
        pass
    def __getattr__(s, n):
        if n.startswith('__'):
            raise AttributeError(n)
        return V()
    def __call__(s, *a, **k):
        return V()
    def __iter__(s):
        return iter((V(), V()))
    def __enter__(s):
        return V()
    def __exit__(s, *a):
        return False
    def __getitem__(s, k):
        return V()
    def __setitem__(s, k, v):
        pass
    def __delitem__(s, k):
        pass
    def __delattr__(s, n):
        pass
    def __bool__(s):
        _N[0] += 1
        return _N[0] % 3 != 0
    def __index__(s):
        return 0
    def _op(s, *o):
        return V()
    __add__ = __radd__ = __iadd__ = __sub__ = __rsub__ = __mul__ = __rmul__ = __neg__ = _op
    __lt__ = __gt__ = __le__ = __ge__ = _op
def tr(*a, **k):
    return V()
def d():
    return bool(V())
def n():
    return range(2)
cm = V
class E1(Exception):
    pass
class E2(Exception):
    pass
x = V(); y = V(); z = V(); w = V(); a = V(); b = V(); m = V(); G = V()
'''

X = 'x'

# ------------------------------------------------------------------------------------------------
# events on the contested name `x`
# ------------------------------------------------------------------------------------------------
# statement-level events (def and class bodies): name -> (lines, runnable)
STMT_EVENTS = [
    ('none', [], True),
    ('assign', ['x = tr()'], True),
    ('read', ['tr(x)'], True),
    ('global', ['global x'], True),
    ('nonlocal', ['nonlocal x'], True),
    ('global+assign', ['global x', 'x = tr()'], True),
    ('nonlocal+assign', ['nonlocal x', 'x = tr()'], True),
    ('global+read', ['global x', 'tr(x)'], True),
    ('nonlocal+read', ['nonlocal x', 'tr(x)'], True),
    ('global+del', ['global x', 'del x'], False),
    ('del', ['del x'], False),
    ('assign+del', ['x = tr()', 'del x'], True),
    ('aug', ['x += tr()'], True),
    ('for', ['for x in y:', '    pass'], True),
    ('for-tuple', ['for (x, w) in y:', '    tr(w)'], False),
    ('with', ['with y as x:', '    pass'], True),
    ('with-tuple', ['with y as (x, w):', '    pass'], True),
    ('import', ['import x'], False),
    ('import-dotted', ['import x.y'], False),
    ('import-as', ['import os.path as x'], True),
    ('from-import', ['from os import path as x'], True),
    ('from-import-plain', ['from m import x'], False),
    ('walrus', ['tr((x := tr()))'], True),
    ('walrus-test', ['if (x := y):', '    pass'], True),
    ('def-name', ['def x():', '    pass'], True),
    ('class-name', ['class x:', '    pass'], True),
    ('ann', ['x: tr = tr()'], True),
    ('ann-novalue', ['x: tr'], True),
    ('attr-store', ['x.a = tr()'], True),
    ('sub-store', ['x[0] = tr()'], True),
    ('sub-name-store', ['y[x] = tr()'], True),
    ('attr-del', ['del x.a'], True),
    ('attr-aug', ['x.a += tr()'], True),
    ('tuple-assign', ['x, w = y'], True),
    ('star-assign', ['*x, w = y'], True),
    ('chain-assign', ['w = x = tr()'], True),
    ('try-type', ['try:', '    pass', 'except x:', '    pass'], True),
    ('branch', ['if y:', '    x = tr()', 'else:', '    tr(x)'], True),
    ('while', ['while y:', '    x = tr(x)', '    break'], True),
    ('return', ['if y:', '    return x'], True),
    ('comp-target', ['tr([x for x in y])'], True),
    ('genexp-target', ['tr(list(x for x in y))'], True),
    ('dictcomp-target', ['tr({x: x for x in y})'], True),
    ('comp-walrus', ['tr([(x := t) for t in y])'], True),
    ('comp-read', ['tr([x for t in y])'], True),
    ('comp-iter', ['tr([t for t in x])'], True),
    ('comp-target+read', ['tr([x for x in y])', 'tr(x)'], True),
    ('lambda-param', ['tr((lambda x: x)(y))'], True),
    ('lambda-read', ['tr((lambda: x)())'], True),
    ('lambda-default', ['tr((lambda w=x: w)())'], True),
    ('lambda-param-test', ['if (lambda x: x)(y):', '    pass'], True),
    ('nested-param', ['def h(x):', '    return x', 'tr(h(y))'], True),
    ('nested-kwonly-param', ['def h(*, x=y):', '    return x', 'tr(h())'], True),
    ('nested-vararg', ['def h(*x, **w):', '    return x', 'tr(h())'], True),
    ('nested-annot', ['def h(w: x) -> x:', '    pass', 'tr(h(y))'], True),
    ('decorator', ['@x', 'def h():', '    pass'], True),
    ('default', ['def h(w=x):', '    pass', 'tr(h())'], True),
    ('kwdefault', ['def h(*, w=x):', '    pass', 'tr(h())'], True),
    ('class-base', ['class h(x):', '    pass'], True),
    ('class-kw', ['class h(k=x):', '    pass'], False),
    ('class-deco', ['@x', 'class h:', '    pass'], True),
    ('class-bind', ['class h:', '    x = tr()'], True),
    ('class-read', ['class h:', '    tr(x)'], True),
    ('method-read', ['class h:', '    def q(self):', '        return x', 'tr(h().q())'], True),
    ('class-shadow', ['class h:', '    x = tr()', '    def q(self):', '        return x', 'tr(h().q())'], True),
    ('ctor', ['class h:', '    def __init__(self):', '        self.x = x', 'tr(h())'], True),
    # the contested name occurs ONLY inside a slice bound / step or a tuple (multi-dimensional) index
    ('slice-lower-load', ['tr(y[x:])'], True),
    ('slice-upper-load', ['w = y[:x]'], True),
    ('slice-step-load', ['tr(y[::x])'], True),
    ('slice-both-load', ['w = y[x:x]'], True),
    ('tuple-index-load', ['tr(y[x, 0])'], True),
    ('tuple-slice-index-load', ['tr(y[0, x:])'], True),
    ('slice-store', ['y[x:z] = tr()'], True),
    ('tuple-index-store', ['y[x, 0] = tr()'], True),
    ('slice-aug', ['y[x:] += tr()'], True),
    ('tuple-index-aug', ['y[0, x] += tr()'], True),
    ('slice-del', ['del y[x:z]'], True),
    ('tuple-index-del', ['del y[x, 0]'], True),
    ('for-iter-slice', ['for w in y[x:z:2]:', '    pass'], True),
    ('for-iter-tuple-index', ['for w in y[0, x]:', '    pass'], True),
    ('with-slice', ['with y[x:] as w:', '    pass'], True),
    ('return-slice', ['if y:', '    return y[:x]'], True),
    ('attr-in-slice', ['tr(y[x.a:z])'], True),
    ('except-as', ['try:', '    pass', 'except y as x:', '    pass'], False),
]
CORE = ['none', 'assign', 'read', 'global', 'nonlocal', 'global+assign', 'nonlocal+assign', 'del', 'aug', 'walrus',
        'nested-param', 'comp-target', 'slice-lower-load', 'tuple-index-store']

# expression-level events: (name, params, expr)
LAMBDA_EVENTS = [
    ('none', '', 'tr()'),
    ('param', 'x', 'x'),
    ('read', '', 'x'),
    ('default', 'w=x', 'w'),
    ('walrus', '', '(x := tr())'),
    ('param+walrus', 'x', '(x := tr())'),
    ('kwonly', '*, x=y', 'x'),
    ('vararg', '*x', 'x'),
    ('kwarg', '**x', 'x'),
    ('posonly', 'x, /', 'x'),
    ('attr', '', 'x.a'),
    ('slice', '', 'y[x:]'),
    ('tuple-index', '', 'y[0, x]'),
]
# (name, elt, target, iter, cond)
COMP_EVENTS = [
    ('none', 't', 't', 'y', None),
    ('target', 'x', 'x', 'y', None),
    ('read-elt', 'x', 't', 'y', None),
    ('read-iter', 't', 't', 'x', None),
    ('read-cond', 't', 't', 'y', 'x'),
    ('walrus', '(x := t)', 't', 'y', None),
    ('walrus-cond', 't', 't', 'y', '(x := t)'),
    ('attr-of-target', 'x.a', 'x', 'y', None),
    ('tuple-target', 'x', '(x, w)', 'y', None),
    ('attr-target', 't', 'x.a', 'y', None),
    ('slice-elt', 'y[x:t]', 't', 'y', None),
    ('slice-iter', 't', 't', 'y[::x]', None),
    ('tuple-index-cond', 't', 't', 'y', 'y[t, x]'),
]
KINDS = ['def', 'class', 'lambda', 'listcomp', 'genexp', 'setcomp', 'dictcomp']


def _ind(lines, n=1):
    return ['    ' * n + l for l in lines]


def stmt_event(name):
    for n, lines, ok in STMT_EVENTS:
        if n == name:
            return lines, ok
    raise KeyError(name)


def render_block_as_stmts(kind, event, child, name='g'):
    """A nested block of `kind` written as statements of a def/class body. child: (stmts|None, expr|None)."""
    cstm, cexp = child if child else (None, None)
    if kind in ('def', 'class'):
        lines, ok = ([], True) if event == 'param' else stmt_event(event)
        body = list(lines)
        if cstm is not None:
            body += cstm
        elif cexp is not None:
            body += ['tr(%s)' % cexp]
        if kind == 'def':
            params = 'x' if event == 'param' else ''
            body = body + ['return tr()']
            return ['def %s(%s):' % (name, params)] + _ind(body) + ['tr(%s(%s))' % (name, 'y' if params else '')]
        return ['class %s:' % name] + _ind(body or ['pass'])
    return ['tr(%s)' % render_block_as_expr(kind, event, child)]


def render_block_as_expr(kind, event, child):
    cstm, cexp = child if child else (None, None)
    inner = cexp  # only expression children fit
    if kind == 'lambda':
        for n, params, expr in LAMBDA_EVENTS:
            if n == event:
                body = expr if inner is None else '(%s, %s)' % (expr, inner)
                args = 'y' if params in ('x', 'x, /') else ''
                return '(lambda %s: %s)(%s)' % (params, body, args)
        raise KeyError(event)
    for n, elt, target, it, cond in COMP_EVENTS:
        if n == event:
            e = elt if inner is None else '(%s, %s)' % (elt, inner)
            tail = ' for %s in %s' % (target, it) + (' if %s' % cond if cond else '')
            if kind == 'listcomp':
                return '[%s%s]' % (e, tail)
            if kind == 'setcomp':
                return '{%s%s}' % (e, tail)
            if kind == 'dictcomp':
                return '{%s: %s%s}' % (e, elt, tail)
            return 'list(%s%s)' % (e, tail)
    raise KeyError(event)


def events_for(kind, core=False):
    if kind in ('def', 'class'):
        names = [n for n, _, _ in STMT_EVENTS if n != 'except-as']
        if kind == 'def':
            names = names + ['param']
        if core:
            names = [n for n in names if n in CORE or n == 'param']
        return names
    if kind == 'lambda':
        return [n for n, _, _ in LAMBDA_EVENTS][: (6 if core else None)]
    return [n for n, _, _, _, _ in COMP_EVENTS][: (6 if core else None)]


def child_kinds(kind):
    """Which block kinds can be nested directly in a block of `kind`."""
    if kind in ('def', 'class'):
        return ['def', 'class', 'lambda', 'listcomp', 'genexp', 'setcomp', 'dictcomp']
    return ['lambda', 'listcomp', 'genexp']


def chain_source(f_event, f_param, levels):
    """levels: list of (kind, event) from the outermost nested block inwards."""
    child = None
    for depth in range(len(levels) - 1, -1, -1):
        kind, event = levels[depth]
        parent_kind = levels[depth - 1][0] if depth > 0 else 'def'
        if parent_kind in ('def', 'class'):
            child = (render_block_as_stmts(kind, event, child, name='g%d' % depth), None)
        else:
            if kind in ('def', 'class'):
                return None
            child = (None, render_block_as_expr(kind, event, child))
    lines, ok = stmt_event(f_event)
    body = list(lines) + (child[0] if child else [])
    src = ['def f(%s):' % ('x' if f_param else 'c')] + _ind(body + ['return tr()'])
    return '\n'.join(src) + '\n'


def chain_space(depth3=True):
    """Canonical enumeration of chain descriptors (f_event, f_param, levels)."""
    out = []
    f_events = [n for n, _, _ in STMT_EVENTS if n != 'except-as']
    # depth 1: f alone (plus the parameter variant)
    for fe in f_events:
        for fp in (False, True):
            out.append((fe, fp, []))
    # depth 2: every f event x every nested kind x every event of that kind
    for fe in f_events:
        for k in KINDS:
            for e in events_for(k):
                out.append((fe, False, [(k, e)]))
    for k in KINDS:
        for e in events_for(k):
            out.append(('none', True, [(k, e)]))
    # depth 3: core events only
    if depth3:
        for fe in CORE:
            for k1 in ['def', 'class', 'lambda', 'listcomp', 'genexp']:
                for e1 in events_for(k1, core=True):
                    for k2 in child_kinds(k1):
                        if k2 in ('setcomp', 'dictcomp'):
                            continue
                        for e2 in events_for(k2, core=True):
                            out.append((fe, False, [(k1, e1), (k2, e2)]))
    return out


def chain_runnable(desc):
    fe, fp, levels = desc
    if not stmt_event(fe)[1]:
        return False
    for k, e in levels:
        if k in ('def', 'class') and e != 'param' and not stmt_event(e)[1]:
            return False
    return True


# ------------------------------------------------------------------------------------------------
# seeded-random function trees
# ------------------------------------------------------------------------------------------------
POOL = ['x', 'y', 'z', 'w', 'a', 'b']


class Rand(object):
    def __init__(self, rng, runnable=True, max_depth=3, handler_names=False):
        self.r = rng
        self.runnable = runnable
        self.max_depth = max_depth
        self.handler_names = handler_names
        self.nfn = 0

    def name(self):
        return self.r.choice(POOL)

    def fresh(self, p='h'):
        self.nfn += 1
        return '%s%d' % (p, self.nfn)

    # --- expressions --------------------------------------------------------------------------
    def target(self, d=0):
        k = self.r.randrange(10)
        n = self.name()
        if k < 5 or d > 1:
            return n
        if k == 5:
            return '%s.%s' % (n, self.r.choice(['a', 'b']))
        if k == 6:
            return '%s[%s]' % (n, self.r.choice(['0', "'k'", self.name(), '%s.a' % self.name(), '1:2', 'tr()',
                                               '%s:%s' % (self.name(), self.name()), '%s:' % self.name(), '::%s' % self.name(),
                                               '%s, %s' % (self.name(), self.name()), '0, %s:' % self.name()]))
        if k == 7:
            return '%s.a.b' % n
        if k == 8:
            return '(%s, %s)' % (self.target(d + 1), self.target(d + 1))
        return '[%s, *%s]' % (self.target(d + 1), self.name())

    def expr(self, d=0, scope_depth=0, in_class=False):
        k = self.r.randrange(24)
        n = self.name()
        if d > 2 or k < 6:
            return n
        if k == 6:
            return '%s.%s' % (n, self.r.choice(['a', 'b']))
        if k == 7:
            return '%s[%s]' % (n, self.r.choice(['0', "'k'", self.name(), '-1', 'tr()', '...', '%s:%s' % (self.name(), self.name()),
                                               ':%s' % self.name(), '%s::%s' % (self.name(), self.name()),
                                               '%s, %s' % (self.name(), self.name()), '%s, 1:%s' % (self.name(), self.name())]))
        if k == 8:
            return 'tr(%s, k=%s)' % (self.expr(d + 1, scope_depth), self.expr(d + 1, scope_depth))
        if k == 9:
            return '%s.m(%s)' % (n, self.expr(d + 1, scope_depth))
        if k == 10:
            return '(%s + %s)' % (self.expr(d + 1, scope_depth), self.expr(d + 1, scope_depth))
        if k == 11:
            return '(%s if %s else %s)' % (self.expr(d + 1, scope_depth), self.name(), self.expr(d + 1, scope_depth))
        if k == 12:
            return '(%s and %s)' % (self.name(), self.expr(d + 1, scope_depth))
        if k == 13:
            return '(%s, %s)' % (self.expr(d + 1, scope_depth), self.name())
        if k == 14 and not in_class:
            return '(%s := %s)' % (self.name(), self.expr(d + 1, scope_depth))
        if k == 15:
            return self.lam(d + 1, scope_depth)
        if k in (16, 17):
            return self.comp(d + 1, scope_depth, in_class)
        if k == 18:
            return '{%s: %s}' % (self.name(), self.expr(d + 1, scope_depth))
        if k == 19:
            return "f'{%s}{%s.a!r}'" % (self.name(), self.name())
        if k == 20:
            return '(%s < %s < %s)' % (self.name(), self.name(), self.name())
        if k == 21:
            return '(not %s)' % self.name()
        if k == 22:
            return '[%s, *%s]' % (self.name(), self.name())
        return 'tr()'

    def params(self, annotations=True):
        """(parameter list text, call arguments text, names)"""
        r = self.r
        names = r.sample(POOL, r.randrange(0, 5))
        order = {'pos': 0, 'reg': 1, 'regd': 2, 'star': 3, 'kw': 4, 'kwd': 4, 'kwargs': 5}
        roles = []
        for n in names:
            role = r.choice(['pos', 'reg', 'reg', 'regd', 'regd', 'star', 'kw', 'kwd', 'kwargs'])
            if role in ('star', 'kwargs') and any(x == role for x, _ in roles):
                role = 'reg'
            roles.append((role, n))
        roles.sort(key=lambda t: order[t[0]])
        ann = lambda: (': %s' % self.name()) if annotations and r.random() < 0.25 else ''   # noqa: E731
        ps, call = [], []
        seen_star = False
        last_pos = max([i for i, (ro, _) in enumerate(roles) if ro == 'pos'], default=-1)
        for i, (role, n) in enumerate(roles):
            if role in ('kw', 'kwd') and not seen_star:
                ps.append('*'); seen_star = True
            if role in ('pos', 'reg'):
                ps.append(n + ann()); call.append('tr()')
            elif role == 'regd':
                ps.append('%s%s=%s' % (n, ann(), self.expr(1)))
            elif role == 'star':
                ps.append('*' + n + ann()); seen_star = True
            elif role == 'kw':
                ps.append(n + ann()); call.append('%s=tr()' % n)
            elif role == 'kwd':
                ps.append('%s%s=%s' % (n, ann(), self.expr(1)))
            else:
                ps.append('**' + n + ann())
            if i == last_pos:
                ps.append('/')
        return ', '.join(ps), ', '.join(call), names

    def lam(self, d, scope_depth):
        ps, call, _ = self.params(annotations=False)
        body = self.expr(d + 1, scope_depth + 1)
        if self.r.random() < 0.6:
            return '(lambda %s: %s)(%s)' % (ps, body, call)
        return '(lambda %s: %s)' % (ps, body)

    def comp(self, d, scope_depth, in_class=False):
        r = self.r
        t = r.choice(['t', 'u', 'x', 'y', '(t, u)', 't.a', 'x[0]'])
        elt = r.choice(['t', 'u', self.expr(d + 1, scope_depth + 1, in_class), 't.a', 'x[t]', '(t, %s)' % self.name()])
        if r.random() < 0.15 and not in_class:
            elt = '(%s := %s)' % (r.choice(['z', 'w', 'v']), elt)
        tail = ' for %s in %s' % (t, self.expr(d + 1, scope_depth))
        if r.random() < 0.3:
            tail += ' if %s' % self.expr(d + 1, scope_depth + 1, in_class)
        if r.random() < 0.25:
            tail += ' for %s in %s' % (r.choice(['u', 'v', 'y']), r.choice(['t', 'u', self.name()]))
        k = r.randrange(4)
        if k == 0:
            return '[%s%s]' % (elt, tail)
        if k == 1:
            return '{%s%s}' % (elt, tail)
        if k == 2:
            return '{%s: %s%s}' % (elt, self.name(), tail)
        return 'list(%s%s)' % (elt, tail)

    # --- statements ---------------------------------------------------------------------------
    def block(self, n, depth, kind, declared):
        out = []
        for _ in range(n):
            out += self.stmt(depth, kind, declared)
        return out or ['pass']

    def stmt(self, depth, kind, declared, ctl=0):
        """kind: 'def' | 'class' (the enclosing block kind); declared: names already used in this block
        (global/nonlocal must precede uses)."""
        r = self.r
        in_class = kind == 'class'
        k = r.randrange(40)
        e = lambda: self.expr(0, depth, in_class)   # noqa: E731
        if k < 6:
            return ['%s = %s' % (self.target(), e())]
        if k < 8:
            return ['tr(%s)' % e()]
        if k == 8:
            return ['%s += %s' % (r.choice([self.name(), '%s.a' % self.name(), '%s[0]' % self.name(), '%s[%s:]' % (self.name(), self.name()),
                                        '%s[%s, 0]' % (self.name(), self.name())]), e())]
        if k == 9:
            n = self.name()
            return ['%s: %s%s' % (n, self.name(), r.choice(['', ' = ' + e()]))]
        if k == 10:
            return ['del %s' % r.choice([self.name(), '%s.a' % self.name(), '%s[0]' % self.name(), '%s[%s]' % (self.name(), self.name()),
                                      '%s[%s:%s]' % (self.name(), self.name(), self.name()), '%s[%s, 0]' % (self.name(), self.name())])]
        if k == 11:
            return [r.choice(['import os.path as %s' % self.name(), 'from os import path as %s, sep' % self.name(),
                              'import os', 'import os.path'] if self.runnable else
                             ['import %s' % self.name(), 'import %s.q' % self.name(), 'from m import %s' % self.name(),
                              'from . import %s as %s' % (self.name(), self.name()), 'import m as %s' % self.name()])]
        if k in (12, 13) and depth > 0 and kind == 'def':
            n = self.name()
            if n in declared:
                return ['tr(%s)' % n]
            declared.add(n)
            return ['%s %s' % (r.choice(['global', 'nonlocal']), n)]
        if k == 14 and kind == 'def':
            n = self.name()
            if n in declared:
                return ['tr(%s)' % n]
            declared.add(n)
            return ['global %s' % n]
        if k == 15:
            return ['return %s' % e()] if kind == 'def' else ['tr(%s)' % e()]
        if k == 16:
            return ['assert %s, %s' % (e(), self.name())]
        if ctl < 2:
            if k in (17, 18):
                out = ['if %s:' % e()] + _ind(self.ctl_block(depth, kind, declared, ctl))
                if r.random() < 0.5:
                    out += ['else:'] + _ind(self.ctl_block(depth, kind, declared, ctl))
                return out
            if k == 19:
                return ['while %s:' % e()] + _ind(self.ctl_block(depth, kind, declared, ctl) + ['break'])
            if k in (20, 21):
                out = ['for %s in %s:' % (self.target(), e())] + _ind(self.ctl_block(depth, kind, declared, ctl))
                if r.random() < 0.2:
                    out += ['else:'] + _ind(self.ctl_block(depth, kind, declared, ctl))
                return out
            if k in (22, 23):
                items = ['%s as %s' % (e(), self.target()) if r.random() < 0.7 else e() for _ in range(r.randrange(1, 3))]
                return ['with %s:' % ', '.join(items)] + _ind(self.ctl_block(depth, kind, declared, ctl))
            if k == 24:
                out = ['try:'] + _ind(self.ctl_block(depth, kind, declared, ctl))
                if self.handler_names and r.random() < 0.5:
                    out += ['except %s as %s:' % (self.name(), self.name())] + _ind(self.ctl_block(depth, kind, declared, ctl))
                else:
                    out += ['except %s:' % r.choice([self.name(), '(%s, %s)' % (self.name(), self.name())])] + _ind(self.ctl_block(depth, kind, declared, ctl))
                if r.random() < 0.3:
                    out += ['finally:'] + _ind(self.ctl_block(depth, kind, declared, ctl))
                return out
        if depth < self.max_depth:
            if k in (25, 26, 27, 28):
                return self.fundef(depth, kind)
            if k in (29, 30):
                return self.classdef(depth)
        if k == 31:
            return ['%s = %s' % (self.name(), self.lam(0, depth))]
        if k == 32:
            return ['%s = %s' % (self.name(), self.comp(0, depth, in_class))]
        if k == 33 and not in_class:
            return ['if (%s := %s):' % (self.name(), e()), '    pass']
        if k == 34:
            return ['%s = %s = %s' % (self.name(), self.target(), e())]
        if k == 35:
            return ['%s, *%s = %s' % (self.name(), self.name(), e())]
        if k == 36:
            return ['raise %s' % self.name()] if r.random() < 0.1 else ['tr(%s)' % self.name()]
        return ['%s = %s' % (self.name(), e())]

    def ctl_block(self, depth, kind, declared, ctl):
        out = []
        for _ in range(self.r.randrange(1, 3)):
            out += self.stmt(depth, kind, declared, ctl + 1)
        return out

    def fundef(self, depth, kind):
        r = self.r
        name = self.fresh('h') if r.random() < 0.8 else self.name()
        ps, call, _ = self.params()
        out = []
        for _ in range(r.randrange(0, 2)):
            out.append('@' + r.choice([self.name(), 'tr(%s)' % self.name(), '%s.a' % self.name()]))
        ret = (' -> %s' % self.name()) if r.random() < 0.2 else ''
        out.append('def %s(%s)%s:' % (name, ps, ret))
        out += _ind(self.block(r.randrange(1, 5), depth + 1, 'def', set()))
        out.append('tr(%s(%s))' % (name, call))
        return out

    def classdef(self, depth):
        r = self.r
        name = self.fresh('K') if r.random() < 0.8 else self.name()
        bases = r.choice(['', '', '(%s)' % self.name(), '(%s, k=%s)' % (self.name(), self.name()) if not self.runnable else '(%s)' % self.name()])
        out = []
        if r.random() < 0.2:
            out.append('@' + self.name())
        out.append('class %s%s:' % (name, bases))
        body = []
        for _ in range(r.randrange(1, 4)):
            c = r.randrange(6)
            if c < 2:
                m = r.choice(['__init__', 'q', 'p'])
                mb = []
                for _ in range(r.randrange(1, 4)):
                    if r.random() < 0.4:
                        mb.append('self.%s = %s' % (r.choice(['x', 'y', 'a']), self.expr(0, depth + 2)))
                    else:
                        mb += self.stmt(depth + 2, 'def', set())
                body += ['def %s(self):' % m] + _ind(mb)
            else:
                body += self.stmt(depth + 1, 'class', set())
        out += _ind(body)
        out.append('tr(%s())' % name)
        return out

    def function(self):
        ps, call, _ = self.params()
        body = self.block(self.r.randrange(2, 7), 0, 'def', set())
        return '\n'.join(['def f(%s):' % ps] + _ind(body + ['return tr()'])) + '\n', call


def random_tree(rng, runnable=True, max_depth=3, handler_names=False):
    g = Rand(rng, runnable=runnable, max_depth=max_depth, handler_names=handler_names)
    return g.function()


# ------------------------------------------------------------------------------------------------
# nested comprehensions whose INNER iteration variable is also an ordinary variable read by the OUTER one
# ------------------------------------------------------------------------------------------------
COMP_KINDS = ['listcomp', 'setcomp', 'dictcomp', 'genexp']
NESTED_ROLES = ['local', 'param', 'global', 'free']
NESTED_SHAPES = ['elt-after', 'elt-before', 'cond-after', 'cond-before', 'iter-after', 'cond-then-elt',
                 'iter-then-elt', 'tuple-target-elt-after']


def _comp(kind, elt, tail):
    if kind == 'listcomp':
        return '[%s %s]' % (elt, tail)
    if kind == 'setcomp':
        return '{%s %s}' % (elt, tail)
    if kind == 'dictcomp':
        return '{%s: 0 %s}' % (elt, tail)
    return 'list(%s %s)' % (elt, tail)


def _nested_function(role, stmt):
    if role == 'free':
        body = ['x = tr()', 'def g0():', '    ' + stmt, '    return tr()', 'tr(g0())', 'return tr()']
        head = 'def f(c):'
    else:
        body = (['x = tr()'] if role == 'local' else []) + [stmt, 'return tr()']
        head = 'def f(x):' if role == 'param' else 'def f(c):'
    return '\n'.join([head] + _ind(body)) + '\n'


def nested_comp_space():
    """(descriptor, source): the contested name `x` is the iteration variable of an inner comprehension and is read
    by the enclosing comprehension — in its element, a condition or a later iterable, before or after the inner one
    textually — `x` being a local, a parameter, a global or a free variable of the function.  2 and 3 levels, the
    four kinds of comprehension mixed."""
    out = []
    for role in NESTED_ROLES:
        for ko in COMP_KINDS:
            for ki in COMP_KINDS:
                inner = _comp(ki, 'x', 'for x in t')
                inner2 = _comp(ki, 'x', 'for (x, w) in t')
                shapes = {
                    'elt-after': _comp(ko, 'tr(%s, x)' % inner, 'for t in y'),
                    'elt-before': _comp(ko, 'tr(x, %s)' % inner, 'for t in y'),
                    'cond-after': _comp(ko, 't', 'for t in y if tr(%s) if x' % inner),
                    'cond-before': _comp(ko, 't', 'for t in y if x if tr(%s)' % inner),
                    'iter-after': _comp(ko, 't', 'for t in y for u in tr(%s) for v in x' % inner),
                    'cond-then-elt': _comp(ko, 'x', 'for t in y if tr(%s)' % inner),
                    'iter-then-elt': _comp(ko, 'x', 'for t in y for u in tr(%s)' % inner),
                    'tuple-target-elt-after': _comp(ko, 'tr(%s, x)' % inner2, 'for t in y'),
                }
                for sh in NESTED_SHAPES:
                    out.append(([role, ko, ki, sh], _nested_function(role, 'tr(%s)' % shapes[sh])))
        # three levels
        for i, ko in enumerate(COMP_KINDS):
            for j, km in enumerate(COMP_KINDS):
                ki = COMP_KINDS[(i + 2 * j + 1) % 4]
                inner = _comp(ki, 'x', 'for x in u')
                mid_a = _comp(km, 'tr(%s, u)' % inner, 'for u in t')
                mid_b = _comp(km, 'tr(%s, x)' % inner, 'for u in t')
                out.append(([role, ko, km, ki, 'three:outer-elt-after'],
                            _nested_function(role, 'tr(%s)' % _comp(ko, 'tr(%s, x)' % mid_a, 'for t in y'))))
                out.append(([role, ko, km, ki, 'three:middle-elt-after'],
                            _nested_function(role, 'tr(%s)' % _comp(ko, 'tr(%s)' % mid_b, 'for t in y'))))
                out.append(([role, ko, km, ki, 'three:outer-cond-after'],
                            _nested_function(role, 'tr(%s)' % _comp(ko, 't', 'for t in y if tr(%s) if x' % mid_a))))
    return out


# hand-written seeds: shapes worth keeping in every run (also in corpus/)
SEEDS = [
    'def f(a, *b, c=1, **d):\n    global G\n    import os.path as op, sys\n    def g():\n        nonlocal a\n        a = 1\n        return b, zz\n    class K:\n        y = a\n        def m(self): return c\n    lam = lambda q: q + a + w\n    [t for t in b if t]\n    with a as (u, v): pass\n    del d\n    G = 2\n    return lam\n',
    'def f(c):\n    if c:\n        k = (lambda N: N + 1)(1)\n    else:\n        k = 0\n    return k + N\n',
    'def f(c):\n    if c:\n        def h(N): return N + 1\n        k = h(1)\n    else:\n        k = 0\n    return k + N\n',
    'def f(b):\n    r = [(yy := t) for t in b]\n    return yy\n',
    'def f():\n    x = 1\n    def g():\n        global x\n        def h():\n            return x\n        return h\n    return g\n',
    'def f():\n    x = 1\n    class K:\n        global x\n        def m(self):\n            return x\n    return K\n',
    'def outer():\n    x = 1\n    def f():\n        class K:\n            x = 2\n            def m(self):\n                return x\n        return K\n    return f\n',
    'def f(T):\n    def g(a: T, *b: T, c: T = 1, **d: T) -> T:\n        return a\n    return g\n',
    'def f(d):\n    return d[\'.\']\n',
    'def f(xs):\n    return [x for x in xs if x], {y: y for y in xs}, {z for z in xs}, list(w for w in xs)\n',
    'def f(a):\n    a.b = 1\n    a[0] = 2\n    a[i] = 3\n    del a.c, a[1]\n    a.b.c += 1\n    return a\n',
    'def f():\n    class K:\n        def __init__(self, v):\n            self.v = v\n            self.w.z = v\n    return K\n',
    'def f(y):\n    for x in y:\n        pass\n    else:\n        x = 0\n    while x:\n        x -= 1\n    return x\n',
    'def f():\n    try:\n        pass\n    except E as e:\n        return e\n',
    'async def f(a):\n    async for x in a:\n        pass\n    async with a as y:\n        pass\n    return x, y\n',
]
