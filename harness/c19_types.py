"""C19 helper: canonical type descriptors, the truthful type rules and the harness resolver.

Canonical type descriptor (hashable):
  'int' 'float' 'bool' 'str' 'list' 'tuple' 'none' 'function' 'any'     base types
  ('other', name)                                                       any other class
  ('prod', d1, ..., dk)     a tuple *of types* (what `visit_Tuple` reports: an element of itertools.product)
  ('fn', d)                 typing.Callable[[Any], d]
A "type set" is a frozenset of descriptors; `None` = unknown.

The resolver's answers are a PURE function of a canonical query (`answer`), so that the Lean side can replay
them from a table and ask for entries it misses.  Queries (tuples):
  ('value', kind, repr)                       res_value of a constant
  ('name', name)                              res_name of an external name / return annotation
  ('arg', fname, name, anno_or_'', is_local)  res_arg
  ('call', id, ftype, (args...), (kws...))    res_call           (id = serial id of the Call node)
  ('sliceidx', i, T, I)                       res_slice as used by _apply_unpacking
  ('slice', id, T, I)                         res_slice of a Subscript node
  ('compare', id, T, (Ts...))  ('unop', id, T)  ('binop', id, L, R)  ('listlit', (optTs...))
  ('attr', id, T)                             visit_Attribute with known parent types (getattr on the types + res_value)
"""
import ast, builtins, types, typing

BASE = {int: 'int', float: 'float', bool: 'bool', str: 'str', list: 'list', tuple: 'tuple', type(None): 'none',
        types.FunctionType: 'function'}
BASE_INV = {v: k for k, v in BASE.items()}
TYPE_NAMES = {'int': int, 'float': float, 'bool': bool, 'str': str, 'list': list, 'tuple': tuple}
_OTHER = {'type': type, 'range': range}     # name -> class, for ('other', name)


def register_class(cls):
    _OTHER[cls.__name__] = cls


def canon_type(t):
    """Python object found in a TYPES set -> descriptor."""
    if t is typing.Any:
        return 'any'
    if isinstance(t, tuple):
        return ('prod',) + tuple(canon_type(x) for x in t)
    if isinstance(t, type):
        if t in BASE:
            return BASE[t]
        _OTHER[t.__name__] = t
        return ('other', t.__name__)
    args = getattr(t, '__args__', None)
    if typing.get_origin(t) is not None and args is not None:      # Callable[[Any], rt]
        return ('fn', canon_type(args[-1]) if args else 'any')
    return ('other', repr(t))


def to_py(d):
    """descriptor -> the Python object the real inference manipulates."""
    if d == 'any':
        return typing.Any
    if isinstance(d, str):
        return BASE_INV[d]
    if d[0] == 'prod':
        return tuple(to_py(x) for x in d[1:])
    if d[0] == 'fn':
        return typing.Callable[[typing.Any], to_py(d[1])]
    if d[0] == 'other':
        c = _OTHER.get(d[1], getattr(builtins, d[1], None))
        if not isinstance(c, type):
            raise ValueError('unknown class %r' % (d,))
        return c
    raise ValueError(d)


def canon_set(ts):
    return None if ts is None else frozenset(canon_type(t) for t in ts)


def py_set(T):
    return None if T is None else {to_py(d) for d in T}


def type_of_value(v):
    """Run-time value -> descriptor of its exact type (tuples structurally)."""
    t = type(v)
    if t is tuple:
        return ('prod',) + tuple(type_of_value(x) for x in v)
    if t in BASE:
        return BASE[t]
    return ('other', t.__name__)


def covers1(d, vd):
    """Does the static type `d` admit a value whose run-time descriptor is `vd`?"""
    if d == 'any':
        return True
    if d == vd:
        return True
    if d == 'tuple':
        return isinstance(vd, tuple) and vd[0] == 'prod'
    if isinstance(d, tuple) and d[0] == 'prod':
        return isinstance(vd, tuple) and vd[0] == 'prod' and len(vd) == len(d) and all(covers1(a, b) for a, b in zip(d[1:], vd[1:]))
    if isinstance(d, tuple) and d[0] == 'fn':
        return vd == 'function'
    return False


def covers(T, vd):
    return any(covers1(d, vd) for d in T)


# ------------------------------------------------------------------------------------------------ sexp
def ty_sexp(d):
    if isinstance(d, str):
        return d
    if d[0] == 'other':
        return ['other', d[1]]
    return [d[0]] + [ty_sexp(x) for x in d[1:]]


def ty_of_sexp(x):
    if isinstance(x, str):
        return x
    if x[0] == 'other':
        return ('other', x[1])
    return (x[0],) + tuple(ty_of_sexp(e) for e in x[1:])


def _key(d):
    return repr(d)


def set_sexp(T):
    """Option TySet -> sexp: `none` or (t1 t2 ...) sorted."""
    if T is None:
        return 'none'
    return ['set'] + [ty_sexp(d) for d in sorted(T, key=_key)]


def set_of_sexp(x):
    if x == 'none':
        return None
    assert x[0] == 'set', x
    return frozenset(ty_of_sexp(e) for e in x[1:])


def map_sexp(m):
    """{name: typeset} -> sexp sorted by name."""
    return [[k, set_sexp(m[k])] for k in sorted(m)]


def map_of_sexp(x):
    return {k: set_of_sexp(v) for k, v in x}


def query_sexp(q):
    k = q[0]
    if k == 'value':
        return ['value', q[1], q[2]]
    if k == 'name':
        return ['name', q[1]]
    if k == 'arg':
        return ['arg', q[1], q[2], q[3], bool(q[4])]
    if k == 'call':
        return ['call', q[1], set_sexp(q[2]), [set_sexp(a) for a in q[3]], [set_sexp(a) for a in q[4]]]
    if k in ('sliceidx', 'slice', 'binop'):
        return [k, q[1], set_sexp(q[2]), set_sexp(q[3])]
    if k == 'compare':
        return ['compare', q[1], set_sexp(q[2]), [set_sexp(a) for a in q[3]]]
    if k in ('unop', 'attr'):
        return [k, q[1], set_sexp(q[2])]
    if k == 'listlit':
        return ['listlit', [set_sexp(a) for a in q[1]]]
    raise ValueError(q)


def query_of_sexp(x):
    k = x[0]
    if k == 'value':
        return ('value', x[1], x[2])
    if k == 'name':
        return ('name', x[1])
    if k == 'arg':
        return ('arg', x[1], x[2], x[3], x[4] in ('True', 'true', '1'))
    if k == 'call':
        return ('call', int(x[1]), set_of_sexp(x[2]), tuple(set_of_sexp(a) for a in x[3]), tuple(set_of_sexp(a) for a in x[4]))
    if k in ('sliceidx', 'slice', 'binop'):
        return (k, int(x[1]), set_of_sexp(x[2]), set_of_sexp(x[3]))
    if k == 'compare':
        return ('compare', int(x[1]), set_of_sexp(x[2]), tuple(set_of_sexp(a) for a in x[3]))
    if k in ('unop', 'attr'):
        return (k, int(x[1]), set_of_sexp(x[2]))
    if k == 'listlit':
        return ('listlit', tuple(set_of_sexp(a) for a in x[1]))
    raise ValueError(x)


# ------------------------------------------------------------------------------------------------ type rules
NUM = ('bool', 'int', 'float')
RAISES = 'raises'        # the operation raises TypeError for every pair of values of these types


def _is_prod(d):
    return isinstance(d, tuple) and d[0] == 'prod'


def _tuple_like(d):
    return d == 'tuple' or _is_prod(d)


def binop_rule(op, a, b):
    """Result types (set) of `x op y` for x : a, y : b over all non-raising evaluations; RAISES; or None = not known."""
    if a in NUM and b in NUM:
        if op in ('Add', 'Sub', 'Mult'):
            return {'float'} if 'float' in (a, b) else {'int'}
        if op == 'Div':
            return {'float'}
        if op in ('FloorDiv', 'Mod'):
            return {'float'} if 'float' in (a, b) else {'int'}
        if op in ('BitAnd', 'BitOr', 'BitXor'):
            if 'float' in (a, b):
                return RAISES
            return {'bool'} if (a, b) == ('bool', 'bool') else {'int'}
        if op in ('LShift', 'RShift'):
            return RAISES if 'float' in (a, b) else {'int'}
        return None          # Pow: int/float/complex depending on the values
    if a == 'str' and b == 'str':
        return {'str'} if op == 'Add' else (None if op == 'Mod' else RAISES)
    if op == 'Mult' and ((a == 'str' and b in ('int', 'bool')) or (b == 'str' and a in ('int', 'bool'))):
        return {'str'}
    if a == 'list' and b == 'list':
        return {'list'} if op == 'Add' else RAISES
    if op == 'Mult' and ((a == 'list' and b in ('int', 'bool')) or (b == 'list' and a in ('int', 'bool'))):
        return {'list'}
    if _tuple_like(a) and _tuple_like(b):
        if op != 'Add':
            return RAISES
        if _is_prod(a) and _is_prod(b):
            return {('prod',) + a[1:] + b[1:]}
        return {'tuple'}
    if op == 'Mult' and ((_tuple_like(a) and b in ('int', 'bool')) or (_tuple_like(b) and a in ('int', 'bool'))):
        return {'tuple'}
    if a == 'str' and op == 'Mod':
        return None
    simple = NUM + ('str', 'list', 'none')
    if (a in simple or _tuple_like(a)) and (b in simple or _tuple_like(b)):
        return RAISES
    return None


def unop_rule(op, a):
    if op == 'Not':
        return {'bool'}          # `not x` is a bool for every value of the modelled types
    if a in NUM:
        if op in ('USub', 'UAdd'):
            return {'float'} if a == 'float' else {'int'}
        if op == 'Invert':
            return RAISES if a == 'float' else {'int'}
    if a in ('str', 'list', 'none') or _tuple_like(a):
        return RAISES
    return None


class Rules:
    """The pure resolver.  `externals`: name -> (param annos, return anno or None, poly kind or None);
    `globals_`: name -> descriptor of the value's type; `arg_types`: (fname, argname) -> typeset from the actual calls;
    `nodes`: serial id -> ast node (for op / callee / constant index)."""

    def __init__(self, globals_, externals, arg_types, nodes):
        self.globals_, self.externals, self.arg_types, self.nodes = globals_, externals, arg_types, nodes

    def answer(self, q):
        k = q[0]
        return getattr(self, 'q_' + k)(*q[1:])

    def q_value(self, kind, rep):
        if kind == 'NoneType':
            return frozenset({'none'})
        if kind in ('int', 'float', 'bool', 'str'):
            return frozenset({kind})
        return frozenset({('other', kind)})

    def q_name(self, name):
        if name in TYPE_NAMES:
            return frozenset({name})          # a return annotation: the function returns values of that type
        if name in self.globals_:
            return frozenset({self.globals_[name]})
        if name in self.externals:
            return frozenset({'function'})
        if hasattr(builtins, name):
            v = getattr(builtins, name)
            return frozenset({canon_type(type(v))})
        return None

    def q_arg(self, fname, name, anno, is_local):
        if anno:
            return frozenset({anno}) if anno in TYPE_NAMES else None
        return self.arg_types.get((fname, name))

    def q_call(self, nid, ftype, args, kws):
        node = self.nodes.get(nid)
        fname = node.func.id if node is not None and isinstance(node.func, ast.Name) else None
        if ftype is not None and ftype and all(isinstance(d, tuple) and d[0] == 'fn' for d in ftype):
            return frozenset(d[1] for d in ftype)      # a local function of an enclosing scope, typed by its definition
        ext = self.externals.get(fname)
        if ext is not None:
            params, ret, poly = ext
            if ret is not None:
                return frozenset({ret})
            if poly == 'id':
                return args[0] if len(args) == 1 else None
            if poly == 'pair':
                if len(args) == 2 and args[0] is not None and args[1] is not None:
                    return frozenset(('prod', a, b) for a in args[0] for b in args[1])
                return None        # (not {'tuple'}: an answer that narrows once the arguments become known is needlessly non-monotone)
            if poly == 'none':
                return frozenset({'none'})
            return None
        if fname == 'range':
            return frozenset({('other', 'range')})
        return None

    def q_sliceidx(self, i, T, I):
        out = set()
        for d in T:
            if _is_prod(d):
                if i < len(d) - 1:
                    out.add(d[i + 1])
                # else: unpacking raises
            elif d == 'str':
                out.add('str')
            elif d in NUM or d == 'none':
                pass                                   # unpacking raises TypeError
            else:
                return None                            # list / opaque tuple / anything else: element types unknown
        return frozenset(out)

    def q_slice(self, nid, T, I):
        node = self.nodes.get(nid)
        idx = None
        if node is not None and isinstance(node.slice, ast.Constant) and type(node.slice.value) is int:
            idx = node.slice.value
        if idx is None or idx < 0:
            return None
        return self.q_sliceidx(idx, T, I)

    def q_compare(self, nid, T, Ts):
        node = self.nodes.get(nid)
        if node is None or not all(isinstance(o, (ast.Eq, ast.NotEq, ast.Lt, ast.LtE, ast.Gt, ast.GtE)) for o in node.ops):
            return None
        return frozenset({'bool'})      # comparisons of the modelled types give a bool or raise

    def q_unop(self, nid, T):
        node = self.nodes.get(nid)
        if node is None:
            return None
        out = set()
        for a in T:
            r = unop_rule(type(node.op).__name__, a)
            if r is None:
                return None
            if r is not RAISES:
                out |= r
        return frozenset(out)

    def q_binop(self, nid, L, R):
        node = self.nodes.get(nid)
        if node is None:
            return None
        out = set()
        for a in L:
            for b in R:
                r = binop_rule(type(node.op).__name__, a, b)
                if r is None:
                    return None
                if r is not RAISES:
                    out |= r
        return frozenset(out)

    def q_attr(self, nid, T):
        """What `visit_Attribute` computes when the parent's types are known and no static VALUE is involved: `getattr` of
        the attribute on every parent type object, one stable non-None static value, then res_value of it."""
        node = self.nodes.get(nid)
        if node is None or T is None:
            return None
        try:
            vals = [getattr(to_py(t), node.attr, None) for t in sorted(T, key=_key)]
        except ValueError:
            return None
        if not vals or vals[0] is None or any(v is not vals[0] for v in vals[1:]):
            return None
        return self.q_value(type(vals[0]).__name__, repr(vals[0]))

    def q_listlit(self, elts):
        return frozenset({'list'})


def selftest_rules(rng, n=400):
    """Sample values: every non-raising evaluation's type is in the rule's answer; RAISES rules always raise."""
    import operator
    vals = {'bool': [True, False], 'int': [0, 1, -3, 7], 'float': [0.5, -2.0, 3.25], 'str': ['', 'ab'], 'list': [[], [1, 'a']],
            'none': [None], ('prod', 'int', 'str'): [(1, 'a')], ('prod',): [()], ('prod', 'float'): [(2.5,)]}
    ops = {'Add': operator.add, 'Sub': operator.sub, 'Mult': operator.mul, 'Div': operator.truediv, 'FloorDiv': operator.floordiv,
           'Mod': operator.mod, 'BitAnd': operator.and_, 'BitOr': operator.or_, 'BitXor': operator.xor,
           'LShift': operator.lshift, 'RShift': operator.rshift}
    bad = []
    for op, f in ops.items():
        for a in vals:
            for b in vals:
                r = binop_rule(op, a, b)
                if r is None:
                    continue
                for x in vals[a]:
                    for y in vals[b]:
                        if op in ('LShift', 'RShift') and isinstance(y, int) and (y < 0 or y > 64):
                            continue
                        try:
                            v = f(x, y)
                        except ZeroDivisionError:
                            continue
                        except (TypeError, ValueError):
                            continue
                        if r is RAISES or not covers(r, type_of_value(v)):
                            bad.append((op, a, b, x, y, type_of_value(v), r))
    uops = {'Not': operator.not_, 'USub': operator.neg, 'UAdd': operator.pos, 'Invert': operator.invert}
    for op, f in uops.items():
        for a in vals:
            r = unop_rule(op, a)
            if r is None:
                continue
            for x in vals[a]:
                try:
                    v = f(x)
                except TypeError:
                    continue
                if r is RAISES or not covers(r, type_of_value(v)):
                    bad.append((op, a, x, type_of_value(v), r))
    return bad
