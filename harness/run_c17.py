"""C17 — generated code is a well-formed tree that loads as what `to_code` shows.

Layers (DESIGN.md §4 C17):
  theorems        Props/C17.lean: verified context checker; templates.replace keeps contexts (`_partial`: usesOk) and
                  copies (`_partial`: argsOk); both instantiated at every extracted converter template.
  translator      tools/extract_templates.py -> Generated/Templates.lean (every templates.replace call site).
  correspondence  model `instantiate` vs real `templates.replace` on (a) every call the converters really make while
                  converting the programs below (captured by wrapping templates.replace / replace_as_expression),
                  (b) the full product  placeholder-position kinds x binding kinds  + random multi-placeholder templates;
                  compared: structure, every ctx, which nodes are shared with the input / occur twice.
  run, not proved on the REAL objects (a pure model cannot express them): node-object distinctness by id(), CPython's own
                  compile() of the tree, unparse->parse structural round trip, to_code text = text of the loaded module,
                  no failure after transform_ast returned ("Inconsistent ASTs detected" included), source-map ranges.
  verified checker `ctxOk` (sound + complete for CtxWellFormed) on the serialised tree returned by transform_ast.
"""
import collections, concurrent.futures, glob, json, multiprocessing, os, subprocess, sys, time

import common
from common import sexp, parse_sexp

MODEL_FILES = ['MaltModel/Conv/CtxWf.lean', 'MaltModel/Conv/Template.lean', 'MaltModel/Conv/TemplateHyp.lean',
               'MaltModel/Conv/SrcClass.lean', 'MaltModel/Conv/Arity.lean', 'MaltModel/Proofs/C17Arity.lean', 'MaltModel/Conv/ParserImage.lean',
               'MaltModel/Proofs/C17PImage.lean', 'MaltModel/Proofs/C17Mix.lean', 'MaltModel/Conv/SexpTotal.lean', 'MaltModel/Proofs/C17Roundtrip.lean',
               'MaltModel/Proofs/C17Ctx.lean', 'MaltModel/Proofs/C17Fresh.lean', 'MaltModel/Proofs/C17Inst.lean',
               'MaltModel/Generated/Templates.lean', 'MaltModel/Drv/C17.lean']

# call sites whose template text is assembled at run time (string .replace / f-string): cannot be resolved statically.
# They are emitted as `unresolved` (Lean: C17_gen_unresolved_sites pins exactly this list) and their actual template
# texts go through the captured-call correspondence like every other site.
EXPECTED_UNRESOLVED = {'slices_process_single_assignment_0', 'slices_process_single_update_0'}

FACTORY_SITE = 'transpiler_wrap_into_factory_1'
ALLOWED_WHY = {'walrus-target-reached-by-adjuster', 'non-assignable-at-Store', 'non-assignable-at-Del',
               'parameter-placeholder-bound-to-nodes-inserted-uncopied'}
CLS_WALRUS = 'ctx_adjuster_reaches_walrus_target'
CLS_NONASSIGNABLE = 'store_placeholder_bound_to_unadjustable_expression'
CLS_STORE_LIST = 'lists_list_display_in_store_position'
CLS_APPEND_EXPR = 'lists_append_call_in_expression_position'
# failure kinds that an ill-formed expression context can explain (anything else in the same case is NOT attributed)
CTX_EXPLAINED = ('conversion-fails-after-transform_ast', 'compile-of-tree-fails', 'unparsed-text-does-not-parse', 'parserImage-rejects-real-tree',
                 'ctxOk-rejects-real-tree', 'reparse-differs')


def translate_templates(run):
    rc, out = common.sh([sys.executable, os.path.join(common.VERIF, 'tools', 'extract.py'), 'Templates'],
                        env={'MALT_REPO': common.REPO})
    try:
        rep = json.loads(out.strip().split('\n')[-1])
    except Exception:
        run.oblige('translator:Templates', 'translator', False, out[-1500:])
        return
    probs = rep.get('problems', {}).get('Templates', [])
    unexpected = []
    for p in probs:
        if p.startswith('unresolved: ') and p[len('unresolved: '):].split(' ')[0] in EXPECTED_UNRESOLVED:
            continue
        unexpected.append(p)
    run.oblige('translator:Templates', 'translator', not unexpected, '\n'.join(unexpected))
    run.cov['translator_unresolved_sites'] = sorted(p[len('unresolved: '):].split(' ')[0] for p in probs if p.startswith('unresolved: '))


def _strip_walrus(x):
    """S-expression with every NamedExpr replaced by its value (classification only)"""
    if isinstance(x, list):
        if len(x) == 4 and x[0] == 'NamedExpr':
            return _strip_walrus(x[3])
        return [_strip_walrus(e) for e in x]
    return x


def source_classes(run, source):
    """finding classes that are predicates of the source function `f` (evaluated by the Lean driver)"""
    import ast, pyast
    try:
        fn = [n for n in ast.parse(source).body if isinstance(n, ast.FunctionDef) and n.name == 'f'][-1]
        a = parse_sexp(run.drive(['c17.srcclass ' + pyast.Ser(fn).text()])[0])
    except Exception:
        return []
    out = []
    if a[0] == 'True':
        out.append(CLS_STORE_LIST)
    if a[1] == 'True':
        out.append(CLS_APPEND_EXPR)
    return out


def build_programs(run):
    """-> list of (Program, [cfg], want_api, want_lines), deterministic in run.seed"""
    import progen, c17_gen, c17_real
    quick = run.tier == 'quick'
    rng = run.rng
    cfgs = c17_real.all_configs()
    items = []
    info = {}
    # 1. every unusual form once (fixed contexts), default options and everything-on
    both = [cfgs[0], (False, ('BUILTIN_FUNCTIONS', 'EQUALITY_OPERATORS', 'LISTS'))]
    ex = list(c17_gen.exhaustive_snippets())
    stride = 2 if quick else 1
    off = rng.randrange(stride)
    for i, (cat, e, p) in enumerate(ex):
        if i % stride != off:
            continue
        items.append((p, both if not quick else [both[(i // stride) % 2]], i % 5 == 0, i % 3 == 0))
    info['unusual_forms'] = {'space': len(ex), 'stride': stride, 'offset': off, 'exhaustive': stride == 1}
    # 2. random unusual programs under ALL 16 configurations
    n_un = 64 if quick else 320
    for i, p in enumerate(c17_gen.unusual_programs(rng, n_un)):
        items.append((p, cfgs, True, i % 2 == 0))
    # 3. control-flow skeletons + typed random programs (the shared C01 class), rotating configurations
    skinfo = {}
    sk = list(progen.skeleton_programs(4 if quick else 5, 3, cap=120 if quick else 600, rng=rng, info=skinfo))
    info['skeletons'] = skinfo
    for i, p in enumerate(sk):
        k = 2 if quick else 4
        cs = [cfgs[(i * 5 + j * 7) % 16] for j in range(k)]
        items.append((p, cs, i % 4 == 0, i % 4 == 0))
    rp = list(progen.random_programs(rng, 40 if quick else 200, size=14))
    for i, p in enumerate(rp):
        cs = [cfgs[(i * 3 + j * 5) % 16] for j in range(4 if quick else 8)]
        items.append((p, cs, i % 3 == 0, i % 3 == 0))
    # 3b. composite state: stores through literal subscripts inside control-flow bodies (core always, rest stride-sampled)
    cs = list(c17_gen.composite_state_programs())
    cs_cfgs = [cfgs[0], (False, ('BUILTIN_FUNCTIONS', 'EQUALITY_OPERATORS')), (True, ('LISTS',))]
    cs_stride = 6 if quick else 1
    cs_off = rng.randrange(cs_stride)
    ncs = 0
    for i, (core, cat, desc, p) in enumerate(cs):
        if core:
            items.append((p, cs_cfgs[:2], i % 7 == 0, i % 5 == 0))
            ncs += 1
        elif i % cs_stride == cs_off:
            items.append((p, [cs_cfgs[i % 3]] if quick else cs_cfgs, i % 9 == 0, i % 6 == 0))
            ncs += 1
    info['composite_state'] = {'space': len(cs), 'core_always_run': len([1 for c in cs if c[0]]), 'stride': cs_stride, 'offset': cs_off,
                               'run': ncs, 'exhaustive': cs_stride == 1}
    # 3c. signatures (always run): every parameter kind, keyword-only parameters with and without default in every order
    sigs = c17_gen.SIGNATURES
    for i, sig in enumerate(sigs):
        src = progen.PRELUDE + 'def f(%s):\n    x = a\n    if x:\n        x = x + 1\n    return x\n' % sig
        p = progen.Program(src, [], ['signature_stream'], 'signature')
        items.append((p, [cfgs[0], cfgs[(3 + i * 5) % 16]], i % 2 == 0, i % 4 == 0))
    # 3d. entity kinds (always run, to_code oracle on): functions carrying attributes, functools.wraps / update_wrapper
    #     wrappers, a hand-set __wrapped__, decorated functions, methods' underlying functions
    for i, src in enumerate(c17_gen.ENTITY_KINDS):
        p = progen.Program(progen.PRELUDE + src, [], ['entity_kind'], 'entitykind')
        items.append((p, [cfgs[0], cfgs[(1 + i * 3) % 16]], True, i % 2 == 0))
    info['always_run'] = {'signatures': len(sigs), 'entity_kinds': len(c17_gen.ENTITY_KINDS)}
    # 4. site coverage outside the 16 option sets: the assert converter only runs under Feature.ASSERT_STATEMENTS
    acfg = [(True, ('ASSERT_STATEMENTS',)), (False, ('ASSERT_STATEMENTS', 'LISTS'))]
    asserts = ['assert a', 'assert a, "msg"', 'assert (a, b)', 'assert a < b < c, f"{a}"', 'assert tr(a), (b, c)',
               'assert not -a, [*l]', 'assert a if b else c', 'assert l[0] == 1, l[-1:]']
    for i, st in enumerate(asserts):
        src = progen.PRELUDE + 'def f(a, b, c, l):\n    x = a\n    %s\n    return x\n' % st
        p = progen.Program(src, [], ['assert_feature'], 'assertfeat')
        items.append((p, acfg, False, True))
    # 5. lambda entities (the transpiler wraps them as `ag__lam = lambda ...`)
    lams = ['lambda a, b, c, l: (a, -1 ** 2, [i for i in l])', 'lambda a, b=-1, *c, l=(1,), **k: a if b else (c, l, k)',
            'lambda a, b, c, l: f"{a!r:>{b}}" + str(l[::2])', 'lambda a, b, c, l: (lambda q=a: q < b < c)()',
            'lambda a, b, c, l: {**{1: a}, 2: [*l]}', 'lambda a, b, c, l: tr(a) and not b or c']
    for i, lam in enumerate(lams):
        p = progen.Program(progen.PRELUDE + 'f = ' + lam + '\n', [], ['lambda_entity'], 'lambdaent')
        items.append((p, [cfgs[(i * 3) % 16], cfgs[(i * 3 + 7) % 16]], True, True))
    # 6. closure entities (free variables: the factory wrapper emits its dummy closure definitions)
    clos = ['def make():\n    k = 3\n    j = [1]\n    def f(a, b, c, l):\n        x = a + k\n        for i in j:\n            x += i\n        return x\n    return f\nf = make()\n',
            'def make(k, *rest):\n    def f(a, b, c, l):\n        """doc"""\n        if a > k:\n            return rest\n        return (lambda: k)()\n    return f\nf = make(1, 2)\n']
    for i, src in enumerate(clos):
        p = progen.Program(progen.PRELUDE + src, [], ['closure_entity'], 'closureent')
        items.append((p, [cfgs[(i * 5) % 16], cfgs[(i * 5 + 9) % 16]], True, True))
    info['counts'] = {'closure_entities': len(clos), 'lambda_entities': len(lams), 'assert_feature': len(asserts), 'unusual_forms': len([1 for it in items if it[0].kind == 'unusual']) - n_un, 'composite_state': ncs, 'unusual_random': n_un,
                      'skeletons': len(sk), 'random': len(rp)}
    return items, info


def run_jobs(items, nworkers):
    import c17_real
    jobs = []
    flat = [(p.key, p.source, [list(c) for c in cs], api, lines) for (p, cs, api, lines) in items]
    # balance by number of conversions
    flat_sorted = sorted(range(len(flat)), key=lambda i: -len(flat[i][2]))
    njobs = max(1, nworkers * 6)
    buckets = [[] for _ in range(njobs)]
    loads = [0] * njobs
    for i in flat_sorted:
        b = loads.index(min(loads))
        buckets[b].append(flat[i])
        loads[b] += len(flat[i][2])
    jobs = [{'items': b} for b in buckets if b]
    out = []
    ctx = multiprocessing.get_context('fork')
    with concurrent.futures.ProcessPoolExecutor(max_workers=nworkers, mp_context=ctx) as ex:
        for res in ex.map(c17_real.worker, jobs):
            out.extend(res)
    out.sort(key=lambda r: r['key'])
    return out


class CallRec(object):
    """light stand-in for c17_templates.Captured rebuilt from a worker record"""

    def __init__(self, t):
        (self.line, self.kind, self.error, res, self.start, self.repeats, self.shared, self.site, self.fn, self.unset_ctx,
         self.template) = t
        self.result = parse_sexp(res) if res is not None else None


def site_name(sites, call):
    """extracted site (Gen name) of a captured call, by file and line range"""
    return site_name_at(sites, call.site[0], call.site[1])


def site_name_at(sites, f, line):
    best = None
    for nm, sf, l1, l2, _ in sites:
        if sf == f and int(l1) <= line <= int(l2):
            if best is None or (int(l2) - int(l1)) < best[1]:
                best = (nm, int(l2) - int(l1))
    return best[0] if best else None


def evaluate(run, recs, sources, label):
    """Drive Lean on the records of the real conversions; classify failing cases; record obligations + coverage."""
    import c17_templates as ct
    stats = collections.Counter()
    stage = collections.Counter()
    errkinds = collections.Counter()
    kinds = collections.Counter()
    # ---------------- verified checker on every real tree
    tree_recs = [r for r in recs if r.get('tree')]
    answers = run.drive(['c17.treeok ' + r['tree'] for r in tree_recs]) if (run.driver_ok and tree_recs) else []
    # serialisation self-test on every real tree: Lean's verified reader/printer pair gives back exactly what Python sent
    if run.driver_ok and tree_recs:
        echoes = run.drive(['c17.echo ' + r['tree'] for r in tree_recs])
        bad_echo = [(r['key'], e[:200]) for r, e in zip(tree_recs, echoes) if e != r['tree']]
        run.oblige('correspondence:serialisation echo (pyast.Ser -> SexpTotal.readS -> printS) on every real tree' + label,
                   'correspondence', not bad_echo, str(bad_echo[:2]))
    nrej = 0
    narity = 0
    npim = 0
    pim_reasons = collections.Counter()
    pim_vs_reparse = collections.Counter()
    for r, a in zip(tree_recs, answers):
        v = parse_sexp(a) if a.startswith('(') else ['False', 'False', 'False', ['unreadable']]
        if v[0] != 'True':
            nrej += 1
            r['fails'].append(('ctxOk-rejects-real-tree', a[:200]))
        if v[1] != 'True':
            narity += 1
            r['fails'].append(('arityOk-rejects-real-tree', a[:200]))
        dyn = any(w.split(':')[0] in ('reparse-differs', 'unparsed-text-does-not-parse') and w.endswith('transform_ast') for w, _ in r['fails'])
        if v[2] != 'True':
            npim += 1
            for why in v[3]:
                pim_reasons[why.split(':')[0]] += 1
            r['fails'].append(('parserImage-rejects-real-tree', ' '.join(v[3])[:300]))
        pim_vs_reparse[('static-reject' if v[2] != 'True' else 'static-accept') + '/' + ('reparse-differs' if dyn else 'reparse-equal')] += 1
    # ---------------- captured template calls
    uniq = {}
    for r in recs:
        for t in r.get('calls') or []:
            if t is not None and t[0] not in uniq:
                uniq[t[0]] = CallRec(t)
    lines = sorted(uniq)
    model = dict(zip(lines, run.drive(lines))) if (run.driver_ok and lines) else {}
    sites = parse_sexp(run.drive(['c17.sites'])[0]) if run.driver_ok else []
    why = {}
    if run.driver_ok and lines:
        for l, a in zip(lines, run.drive(['c17.why ' + l.split(' ', 1)[1] for l in lines])):
            try:
                why[l] = parse_sexp(a)
            except Exception:
                why[l] = None
    dis, flags_by_line, site_of = [], {}, {}
    site_hits = collections.Counter()
    tmpl_mismatch = []
    gen_cache = {}
    for l in lines:
        c = uniq[l]
        ok, detail, flags = ct.compare(c, model[l])
        flags_by_line[l] = flags
        nm = site_name(sites, c)
        site_of[l] = nm
        if not ok:
            dis.append({'site': nm, 'template': c.template, 'request': l[:3000], 'detail': detail[:3000]})
        # the template text seen at run time is the extracted one
        if nm is not None and run.driver_ok:
            if nm not in gen_cache:
                gen_cache[nm] = run.drive(['c17.tmpl ' + nm])[0]
            g = parse_sexp(gen_cache[nm])
            if isinstance(g, list) and g and not (len(g[0]) == 1 and g[0][0][0] == 'OtherStmt'):
                try:
                    real_t = sexp(ct.map_ids(ct._strs(ct.template_sexp(c.template)), lambda _: 0))
                    gen_t = sexp(ct.map_ids(g[0], lambda _: 0))
                    if real_t != gen_t:
                        tmpl_mismatch.append({'site': nm, 'runtime': c.template, 'generated': gen_t[:600]})
                except SyntaxError:
                    tmpl_mismatch.append({'site': nm, 'runtime': c.template, 'generated': 'runtime template does not parse'})
    if run.driver_ok:
        run.oblige('correspondence:templates.replace(captured converter calls)' + label, 'correspondence', not dis, json.dumps(dis[:3]))
        run.oblige('correspondence:Generated.Templates = templates seen at run time' + label, 'correspondence', not tmpl_mismatch,
                   json.dumps(tmpl_mismatch[:3]))
    for d in dis[:3]:
        run.fail('model instantiate and templates.replace disagree on a converter call at ' + str(d['site']), d, None)
    # ---------------- per case
    unattributed = collections.Counter()
    erase_cache = {}
    args_sites = collections.Counter()
    hyp_unexplained = []
    src_class = {}
    site_cache = {}
    why_dist, shape_dist, why_unlisted = collections.Counter(), collections.Counter(), collections.Counter()
    why_inconsistent, shared_bad = [], []
    for r in recs:
        stage[r['stage']] += 1
        if r.get('error'):
            errkinds[(r['stage'], r['error'][:70])] += 1
            if r['stage'] == 'harness':
                raise common.InfraError('harness error in worker: ' + r['error'])
        for k in ('to_code_ws_only', 'to_code_not_fully_dedented', 'recursion_limit', 'api_error', 'api_tree_compared', 'case_timeout', 'api_lambda_entity', 'wrapped_origin_shift'):
            if r['stats'].get(k):
                stats[k] += 1
        stats['template_calls'] += r['stats'].get('ncalls', 0)
        stats['nodes_walked'] += r['stats'].get('nodes', 0)
        stats['source_map_entries'] += r['stats'].get('source_map', 0) or 0
        for k, v in (r['stats'].get('kinds') or {}).items():
            kinds[k] += v
        nontrivial = r['stage'] in ('done', 'load')
        run.case(r['key'], nontrivial)
        # hypotheses of the theorems at the real call sites of this conversion
        case_hyp = []
        for t in r.get('calls') or []:
            if t is None:
                stats['calls_not_serialisable'] += 1
                continue
            fl = flags_by_line.get(t[0], {})
            sk = (t[7][0], t[7][1])
            if sk not in site_cache:
                site_cache[sk] = site_name_at(sites, sk[0], sk[1]) or 'unknown:%s:%s' % sk
            nm = site_cache[sk]
            site_hits[nm] += 1
            if fl.get('tmplOk') is False or fl.get('bindingsWf') is False or fl.get('usesOk') is False:
                case_hyp.append((nm, 'tmplOk=%s bindingsWf=%s usesOk=%s' % (fl.get('tmplOk'), fl.get('bindingsWf'), fl.get('usesOk'))))
            if fl.get('argsOk') is False or fl.get('dups') or fl.get('shared'):
                args_sites[(nm, bool(fl.get('dups')))] += 1
                if nm != FACTORY_SITE or fl.get('dups'):
                    case_hyp.append((nm, 'argsOk=%s dups=%s shared=%s' % (fl.get('argsOk'), fl.get('dups'), fl.get('shared'))))
        case_unlisted = collections.Counter()
        for t in r.get('calls') or []:
            w = why.get(t[0]) if t is not None else None
            if not w or not isinstance(w, list) or len(w) != 3:
                continue
            hyp = dict(zip(('tmplOk', 'bindingsWf', 'usesOk', 'argsOk', 'sharedOk'), [x == 'True' for x in w[0]]))
            key = 'inside all hypotheses' if all(hyp.values()) else 'outside: ' + ','.join(k for k, v in hyp.items() if not v) + ' :: ' + ' + '.join(sorted(w[2]) or ['(ill-formed input)'])
            why_dist[key] += 1
            for sh in set(w[1]):
                shape_dist[sh] += 1
            if bool(w[2]) != (not (hyp['usesOk'] and hyp['argsOk'])) and hyp['bindingsWf'] and hyp['tmplOk']:
                why_inconsistent.append(t[0][:300])
            for reason in w[2]:
                if reason not in ALLOWED_WHY:
                    case_unlisted[reason] += 1
            if not hyp['sharedOk']:
                shared_bad.append((site_of.get(t[0]), r['key']))
        if case_hyp and not r['fails'] and r['stage'] == 'done':
            # a violated hypothesis without any observable defect: still reported (the theorem does not cover this call)
            hyp_unexplained.append({'case': r['key'], 'calls': case_hyp[:3]})
        if not r['fails']:
            if r['stage'] == 'done':      # (a conversion that aborted inside a later pass is not judged here)
                why_unlisted.update(case_unlisted)
            continue
        # class of the failing case: computed from its captured template calls by the Lean predicates
        reasons = set()
        for t in r.get('calls') or []:
            if t is None:
                continue
            fl = flags_by_line.get(t[0])
            if fl is None or fl.get('usesOk') is not False:
                continue
            if t[0] not in erase_cache:
                op, tsx, bsx = parse_sexp('(' + t[0] + ')')
                l2 = '%s %s %s' % (op, sexp(tsx), sexp(_strip_walrus(bsx)))
                a2 = parse_sexp(run.drive([l2])[0])
                erase_cache[t[0]] = (a2[4] == 'True') if a2[0] == 'ok' else (a2[4] == 'True')
            reasons.add(CLS_WALRUS if erase_cache[t[0]] else CLS_NONASSIGNABLE)
        fkinds = set(w.split(':')[0] for w, _ in r['fails'])
        explained = fkinds <= set(CTX_EXPLAINED)
        # a statement (list) stored in an expression field additionally makes the tree unserialisable or, when ast.unparse
        # happens to print it as valid text, trips create_source_map's lock-step walk ("Inconsistent ASTs detected")
        explained_append = fkinds <= set(CTX_EXPLAINED) | {'final-tree-not-serialisable', 'inconsistent-asts-detected'}
        cls = None
        sc = []
        if explained_append and 'L' in r['cfg'][1:] and sources.get(r['prog']):
            # Feature.LISTS: root-cause classes decided by the Lean predicates on the SOURCE function (they come first: a
            # target turned into a call also trips usesOk at the next template that binds it)
            if r['prog'] not in src_class:
                src_class[r['prog']] = source_classes(run, sources[r['prog']])
            sc = [c for c in src_class[r['prog']] if explained or c == CLS_APPEND_EXPR]
        if sc:
            cls = CLS_APPEND_EXPR if (not explained and CLS_APPEND_EXPR in sc) else sc[0]
            reasons.update(sc)
        elif reasons and explained:
            cls = CLS_WALRUS if reasons == {CLS_WALRUS} else (CLS_NONASSIGNABLE if CLS_NONASSIGNABLE in reasons else None)
        for w, d in r['fails'][:1]:
            stats['failing:' + w.split(':')[0]] += 1
        case = {'program': sources.get(r['prog']), 'cfg': r['cfg'], 'key': r['key'], 'fails': [[w, str(d)[:400]] for w, d in r['fails'][:6]],
                'error': r.get('error'), 'reasons': sorted(reasons)}
        run.fail('%s: %s' % (r['fails'][0][0], str(r['fails'][0][1])[:200]), case, cls)
        if cls is None:
            # (inside a case of a listed class, follow-up calls see the already ill-formed tree: e.g. a Store list display that
            # lists.py moved into a Load position keeps its Store `Starred`)
            why_unlisted.update(case_unlisted)
            for w in fkinds:
                unattributed[w] += 1
    if run.driver_ok:
        run.oblige('hypotheses:every converter call satisfies tmplOk, bindingsWf, usesOk and (except the factory wrapper, whose '
                   'parameter nodes are inserted once and uncopied) argsOk — outside failing cases' + label, 'checker',
                   not hyp_unexplained, json.dumps(hyp_unexplained[:3]))
        run.oblige('hypotheses:the shapes excluded by the template theorems are exactly the listed finding classes (walrus target reached, '
                   'non-assignable node at a Store/Del placeholder) plus the uncopied parameter nodes of the factory wrapper' + label,
                   'checker', not why_unlisted, str(dict(why_unlisted)))
        run.oblige('hypotheses:c17.why is consistent with usesOk/argsOk' + label, 'checker', not why_inconsistent, str(why_inconsistent[:2]))
        run.oblige('hypotheses:sharedOk (every node inserted without a copy is inserted once) at every converter call' + label, 'checker',
                   not shared_bad, str(shared_bad[:3]))
        run.oblige('checker:ctxOk on the tree returned by transform_ast (all outside listed finding classes)' + label, 'checker',
                   not unattributed.get('ctxOk-rejects-real-tree'), 'rejected %d of %d trees' % (nrej, len(tree_recs)))
    if run.driver_ok:
        run.oblige('checker:arityOk (kw_defaults/kwonlyargs, defaults/args, ops/comparators) on the tree returned by transform_ast' + label,
                   'checker', not unattributed.get('arityOk-rejects-real-tree'), 'rejected %d of %d trees' % (narity, len(tree_recs)))
    if run.driver_ok:
        run.oblige('checker:parserImage (no tree outside the image of the parser) on the tree returned by transform_ast' + label,
                   'checker', not unattributed.get('parserImage-rejects-real-tree'), 'rejected %d of %d trees: %s' % (npim, len(tree_recs), dict(pim_reasons)))
    for nm in ('node-object-occurs-twice', 'compile-of-tree-fails', 'unparse-raises', 'unparsed-text-does-not-parse', 'reparse-differs',
               'to_code-is-not-the-loaded-text', 'loaded-text-differs-from-transformed-tree', 'running-code-is-not-the-compiled-file-text',
               'module-file-differs-from-unparsed-source', 'conversion-fails-after-transform_ast', 'inconsistent-asts-detected',
               'source-map-out-of-range'):
        run.oblige('runtime:%s never%s' % (nm, label), 'oracle', not unattributed.get(nm), 'cases: %d' % unattributed.get(nm, 0))
    return {'stage': dict(stage), 'stats': dict(stats), 'errors': {'%s|%s' % k: v for k, v in errkinds.most_common(12)},
            'node_kinds_in_output': dict(kinds.most_common(40)), 'ctxok_trees': len(tree_recs), 'ctxok_rejected': nrej,
            'parser_image': {'rejected': npim, 'reasons': dict(pim_reasons), 'static_vs_reparse': dict(pim_vs_reparse)},
            'hypothesis_coverage_of_captured_calls': dict(why_dist.most_common(30)),
            'placeholder_shapes_of_captured_calls': dict(shape_dist.most_common(60)),
            'template_calls_distinct': len(lines), 'template_sites_hit': len([s for s in site_hits if not str(s).startswith('unknown')]),
            'template_sites_hit_list': sorted(str(s) for s in site_hits),
            'template_sites_not_reached_by_conversions': sorted(set(x[0] for x in sites) - set(str(s) for s in site_hits)), 'args_sharing_sites': {str(k): v for k, v in args_sites.items()}}


def generated_correspondence(run):
    """(b): every placeholder position kind x binding kind, plus random multi-placeholder templates."""
    import c17_templates as ct
    from malt.pyct import templates
    log, cases = [], []
    nrand = 300 if run.tier == 'quick' else 2500
    with ct.capture(log):
        for key, text, make in ct.generated_cases(run.rng, nrand):
            n0 = len(log)
            try:
                b = make()
            except Exception as e:
                raise common.InfraError('binding constructor failed for %s: %r' % (key, e))
            fns = (templates.replace, templates.replace_as_expression)
            if run.tier == 'quick' and len(cases) % 3:
                fns = fns[:1]
            for fn in fns:
                n0 = len(log)
                try:
                    fn(text, **b)
                except Exception:
                    pass
                if len(log) == n0 + 1:
                    cases.append((key + ('|expr' if fn is templates.replace_as_expression else ''), text, log[-1]))
                b = make()
    # template call sites that no conversion reaches: the ANF transformer (not in the pipeline) and Base.create_assignment
    ndirect = len(log)
    with ct.capture(log):
        import ast as _ast
        from malt.pyct import transformer as _tr
        from malt.pyct.common_transformers import anf as _anf
        ctx = _tr.Context(_tr.EntityInfo(name='f', source_code=None, source_file=None, future_features=(), namespace={}), None, None)
        for src in ('x = f(a + 1, b[i].c)\nreturn g(h(x), *y, k=-z)', 'if a < b < f(c):\n    y = [i for i in l]', 'x = (p, q.r[0])\ndel s[f(t)]',
                    'for i in f(g(a)):\n    x += h(i) + 1', 'with cm(f(a)) as w:\n    assert g(w), "m"'):
            try:
                _anf.transform(_ast.parse('def f(a, b, c, l):\n' + '\n'.join('    ' + ln for ln in src.split('\n'))).body[0], ctx)
            except Exception:
                pass
        base = _tr.Base(ctx)
        for tgt, val in (('x', 'a + 1'), ('o.a', 'f(b)'), ('d[k]', '(a, b)'), ('(p, q)', 'l')):
            try:
                base.create_assignment(_ast.parse(tgt + ' = 0').body[0].targets[0], _ast.parse(val, mode='eval').body)
            except Exception:
                pass
    for c in log[ndirect:]:
        cases.append(('direct:%s:%d' % (c.site[0], c.site[1]), c.template, c))
    run.cov['direct_api_template_calls'] = len(log) - ndirect
    lines, keep = [], []
    for key, text, c in cases:
        l = ct.request_line(c)
        if l is None:
            continue
        lines.append(l)
        keep.append((key, text, c))
    answers = run.drive(lines)
    dis = []
    outcome = collections.Counter()
    for (key, text, c), l, a in zip(keep, lines, answers):
        ok, detail, flags = ct.compare(c, a)
        run.case(('gen', key), True)
        outcome[(a.split(' ')[0].strip('('), c.kind or c.error)] += 1
        if not ok:
            dis.append({'case': key, 'template': text, 'request': l[:2500], 'detail': detail[:2500]})
    run.oblige('correspondence:templates.replace(position kinds x binding kinds)', 'correspondence', not dis, json.dumps(dis[:3]))
    for d in dis[:5]:
        run.fail('model instantiate and templates.replace disagree: ' + d['case'], d, None)
    run.cov['generated_templates'] = {'cases': len(keep), 'positions': len(ct.POSITIONS), 'bindings': len(ct.BINDINGS),
                                      'random_multi_placeholder': nrand, 'product_exhaustive': True,
                                      'outcomes': {'%s/%s' % k: v for k, v in sorted(outcome.items(), key=str)}}
    if keep:
        k, t, c = keep[len(keep) // 3]
        run.sample({'generated case': k, 'template': t, 'model': answers[len(keep) // 3][:300]})


def load_corpus():
    import progen
    out = []
    for path in sorted(glob.glob(os.path.join(common.VERIF, 'corpus', 'C17', '*.json'))):
        with open(path) as f:
            j = json.load(f)
        out.append((os.path.basename(path), j))
    return out


def check(run):
    import progen, c17_real
    run.rule = ('a case is (program, option set): the program is converted with a fresh transpiler under that option set and all '
                'runtime checks + the verified ctx checker are applied to the objects of THAT conversion; programs: every unusual '
                'syntactic form of harness/c17_gen.py once in fixed statement contexts, random unusual programs under all 16 option '
                'sets ({BUILTIN_FUNCTIONS,EQUALITY_OPERATORS,LISTS} subsets x recursive), progen control-flow skeletons (bounded-'
                'exhaustive, stride-sampled) and typed random programs under rotating option sets; non-trivial = transform_ast '
                'returned a tree (the conversion reached the unparse/load stage); template cases: one per distinct (template, '
                'serialised bindings) request captured from those conversions, plus the positions x bindings product')
    run.assumptions += [
        'RUN, not proved (real objects): node-object distinctness via id(), CPython compile() of the tree, ast.unparse/ast.parse round '
        'trip, to_code/inspect.getsource/importlib behaviour, source-map ranges',
        'ctx singletons (ast.Load/Store/Del, operator classes) are exempt from the node-identity check: CPython\'s parser shares them',
        'string/QN bindings have an unset ctx in the real code; they are sent to the model as Load (every position they reach is '
        'overwritten by the adjuster; the serialiser rejects any unset ctx left in a result)',
        'a tuple bound to a parameter-name placeholder and lists bound to vararg/kwarg are outside the model\'s domain (malformed '
        'trees in the real code; never done by the converters)',
    ]
    translate_templates(run)
    run.build_and_audit('MaltModel.Props.C17', model_files=MODEL_FILES)
    if not run.driver_ok:
        run.oblige('correspondence:c17', 'correspondence', False, 'driver unavailable')

    nworkers = max(2, min(16, (os.cpu_count() or 4)))
    t0 = time.time()
    # ---------------- corpus first
    corpus = load_corpus()
    known = [k for k in common.load_known_findings() if k.get('property') == 'C17' and k.get('status', 'open') == 'open']
    citems, csrc = [], {}
    for name, j in corpus:
        p = progen.Program(j['program'], [], [], 'corpus')
        p.key = 'corpus:' + name
        csrc[p.key] = j['program']
        citems.append((p, [tuple([j['cfg'][0], tuple(j['cfg'][1])])], True, True))
    for k in known:
        w = k.get('witness', {})
        if 'program' in w:
            p = progen.Program(w['program'], [], [], 'witness')
            p.key = 'witness:' + k['id']
            csrc[p.key] = w['program']
            citems.append((p, [tuple([w['cfg'][0], tuple(w['cfg'][1])])], False, True))
    if citems:
        crecs = run_jobs(citems, min(nworkers, len(citems)))
        nf0 = len(run.failing)
        if run.driver_ok:
            cov = evaluate(run, crecs, csrc, ' [corpus]')
            run.cov['corpus'] = {'cases': len(crecs), 'stage': cov['stage']}
        # a listed finding is only usable if its witness still fails in its class
        failing_by_key = {f['case']['key'].split('/')[0]: f for f in run.failing[nf0:] if isinstance(f.get('case'), dict) and 'key' in f['case']}
        for k in known:
            f = failing_by_key.get('witness:' + k['id'])
            still = f is not None and f.get('cls') == k.get('class')
            run.notes.append('known finding %s: witness %s' % (k['id'], 'still fails in its class' if still else 'NO LONGER fails in its class'))
            if not still:
                # nothing may be attributed to it any more
                for g in run.failing:
                    if g.get('cls') == k.get('class'):
                        g['cls'] = None
                run.cov.setdefault('stale_findings', []).append(k['id'])
        # expectations recorded in the corpus ("expect": "pass" | class name)
        for name, j in corpus:
            f = failing_by_key.get('corpus:' + name)
            exp = j.get('expect', 'pass')
            got = 'pass' if f is None else (f.get('cls') or 'unclassified-failure')
            if exp != got and run.driver_ok:
                run.oblige('corpus:%s' % name, 'oracle', exp != 'pass' and got == 'pass', 'expected %s, got %s' % (exp, got))
    # ---------------- main streams
    items, info = build_programs(run)
    sources = {p.key: p.source for (p, _, _, _) in items}
    feats = collections.Counter()
    for p, cs, _, _ in items:
        for f in p.features:
            feats[f] += len(cs)
    t1 = time.time()
    recs = run_jobs(items, nworkers)
    # a slice again under other PYTHONHASHSEEDs (fresh interpreters): set iteration order reaches the generated code
    hs_items = [it for it in items if it[0].kind in ('skeleton', 'random', 'unusual')][::max(1, len(items) // (24 if run.tier == 'quick' else 90))]
    hseeds = [run.seed * 11 + k + 1 for k in range(1 if run.tier == 'quick' else 3)]
    for hs in hseeds:
        job = {'items': [(p.key, p.source, [list(c) for c in cs[:2]], False, False) for (p, cs, _, _) in hs_items]}
        pr = subprocess.run([sys.executable, os.path.join(common.HERE, 'c17_real.py'), '--hashseed-worker'], input=json.dumps(job), text=True,
                            stdout=subprocess.PIPE, stderr=subprocess.PIPE,
                            env=dict(os.environ, PYTHONHASHSEED=str(hs % 4294967295), MALT_REPO=common.REPO))
        if pr.returncode != 0:
            raise common.InfraError('hashseed worker failed: ' + pr.stderr[-800:])
        for r in json.loads(pr.stdout):
            r['key'] += '#hs%d' % hs
            r['calls'] = [tuple(t) if t is not None else None for t in (r.get('calls') or [])]
            r['fails'] = [tuple(f) for f in r['fails']]
            recs.append(r)
    run.cov['hashseeds'] = hseeds
    run.cov['hashseed_cases'] = len(hs_items) * 2 * len(hseeds)
    run.cov['wall_parallel_conversions_s'] = round(time.time() - t1, 1)
    run.cov['workers'] = nworkers
    run.cov['programs'] = info
    run.cov['conversions'] = len(recs)
    run.cov['construct_distribution'] = dict(feats.most_common(60))
    run.cov['option_sets'] = dict(collections.Counter(r['cfg'] for r in recs))
    if run.driver_ok:
        t1 = time.time()
        cov = evaluate(run, recs, sources, '')
        run.cov['wall_evaluate_s'] = round(time.time() - t1, 1)
        run.cov['real_conversions'] = cov
        t1 = time.time()
        generated_correspondence(run)
        run.cov['wall_generated_correspondence_s'] = round(time.time() - t1, 1)
    else:
        for r in recs:
            run.case(r['key'], r['stage'] in ('done', 'load'))
            for w, d in r['fails'][:1]:
                run.fail('%s: %s' % (w, str(d)[:200]), {'program': sources.get(r['prog']), 'cfg': r['cfg'], 'key': r['key']}, None)
    run.cov['wall_conversions_s'] = round(time.time() - t0, 1)
    # samples
    shown = 0
    for r in recs:
        if r['stage'] == 'done' and r['prog'].startswith('u') and shown < 3 and r['stats'].get('api_tree_compared'):
            run.sample({'case': r['key'], 'program': sources[r['prog']][len(progen.PRELUDE):][:700], 'stats': {k: v for k, v in r['stats'].items() if k != 'kinds'}})
            shown += 1
    run.cov['search'] = ('direct oracle on %d real conversions (id() walk, compile, unparse/parse, to_code vs module file, load errors) '
                         '+ verified ctxOk on every returned tree + %d distinct captured template calls and the positions x bindings '
                         'product against the model' % (len(recs), run.cov.get('real_conversions', {}).get('template_calls_distinct', 0)))
    run.cov['exhaustive'] = False
    run.cov['runtime_checks'] = {
        'status': 'RUN on the real objects of every conversion, not proved (node identity, CPython compile/unparse/parse, import system)',
        'node_identity': 'every ast.AST object reachable through the fields of the tree returned by transform_ast (and of the wrapped '
                         'module tree given to loader.load_ast) is visited once; exempt: instances of expr_context/operator/unaryop/boolop/'
                         'cmpop (CPython\'s parser shares one instance per kind across all trees)',
        'compile': 'compile(ast.Module(body=[tree])) after ast.fix_missing_locations — runs CPython\'s AST validator (contexts included)',
        'reparse': 'struct_dump(ast.parse(parser.unparse(tree)).body) == struct_dump([tree]); struct_dump ignores: fields whose name '
                   'starts with "_" (malt keeps annotations in a field ___pyct_anno), type_comment, line/column attributes, and any field '
                   'that is None/missing/empty on that side; compares node classes, all other fields in order, constants by (type, repr), '
                   'Constant.kind when set, contexts and operators by class',
        'to_code': 'api.to_graph(f) then api.to_code(f) (same cache entry): to_code text == textwrap.dedent(lines of the FunctionDef named '
                   'like the converted function, at co_firstlineno, in the file co_filename of its code object) exactly (modulo trailing '
                   'newline); whitespace-normalised comparison only as a fallback that is counted (to_code_ws_only) — textwrap.dedent is '
                   'limited by docstring continuation lines (to_code_not_fully_dedented counts those); the function in that file == the '
                   'tree transform_ast returned (struct_dump); the running code object == the one compiled from the file text; the file '
                   'written by loader.load_source == parser.unparse(nodes)',
        'load': 'any exception after transform_ast returned (unparse, import of the generated module, create_source_map incl. '
                '"Inconsistent ASTs detected") is a failing case; exceptions inside the passes are counted, not judged (other properties)',
        'source_map': 'keys naming the loaded file must lie inside it and map into the original function; keys naming other files '
                      '(ctx-singleton ORIGIN pollution, see C12) are counted only',
    }


def replay(run, path):
    """Re-run the case of a replay file (program text + option set) through the same checks."""
    import progen
    with open(path) as f:
        rep = json.load(f)
    case = rep.get('case', rep)
    print(json.dumps({k: case.get(k) for k in ('key', 'cfg', 'fails', 'reasons')}, indent=1))
    if 'program' not in case or case['program'] is None:
        check(run)
        return run.finish()
    run.build_and_audit('MaltModel.Props.C17', model_files=MODEL_FILES)
    cfgmap = {}
    import c17_real
    for c in c17_real.all_configs():
        cfgmap[c17_real.cfg_key(c)] = c
    p = progen.Program(case['program'], [], [], 'replay')
    p.key = 'replay'
    recs = run_jobs([(p, [cfgmap[case['cfg']]], True, True)], 1)
    if run.driver_ok:
        evaluate(run, recs, {'replay': case['program']}, ' [replay]')
    for r in recs:
        print('stage=%s error=%s fails=%s' % (r['stage'], r.get('error'), [w for w, _ in r['fails']]))
    return run.finish()
