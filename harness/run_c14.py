"""C14 — builtin overloads behave like the builtins on ordinary Python values.

Tie: translator (overload/helper signatures, forwarding calls and UNSPECIFIED tests, SUPPORTED_BUILTINS,
BUILTIN_FUNCTIONS_MAP, frame-search parameters, eval argument tuple) + correspondence (model `bind` vs
CPython's binding; model `forward` vs recorded forwarded calls; generated signatures vs inspect.signature;
builtin specification table vs inspect.signature / probing; `findOriginatingFrame` vs the real search on
real stacks; `evalForward`/`evalSpec` vs the namespaces the real `eval` ends up with) + direct oracle
(overload vs builtin, converted functions vs originals).
"""
import builtins, importlib.util, inspect, io, itertools, json, os, re, shutil, sys, tempfile
import common
from common import sexp, parse_sexp
import c14_values as V
import c14_programs as P

MODEL_FILES = ['MaltModel/Rt/Builtins.lean', 'MaltModel/Generated/Builtins.lean', 'MaltModel/Proofs/C14Bind.lean',
               'MaltModel/Proofs/C14Forward.lean', 'MaltModel/Proofs/C14Table.lean', 'MaltModel/Proofs/C14Frames.lean', 'MaltModel/Drv/C14.lean']

CLS_BODY = 'frame_builtin_inside_functionalised_body'
CLS_EVAL_G = 'eval_globals_without_locals'
CLS_EVAL_N = 'eval_explicit_none_globals'
CLS_STALE = 'dynamic_read_of_name_written_in_body_without_nonlocal'
WATCH = ('a', 'b', 'u', 'v', 'x', 'out')


def _malt():
    import malt
    from malt.core import converter
    from malt.impl import api
    from malt.operators import py_builtins
    return malt, converter, api, py_builtins


# ------------------------------------------------------------------------------------------------
# direct oracle: one case = builtin x way x value specs x route
# ------------------------------------------------------------------------------------------------

def _materialise(way, vs):
    ctx = V.Ctx()
    pos_roles, kws = way
    built = {}
    for r in list(pos_roles) + [r for _, r in kws]:
        if r not in built:
            built[r] = V.build(vs[r], ctx)
    return ctx, [built[r] for r in pos_roles], {k: built[r] for k, r in kws}, built


def compare_traces(t1, t2):
    """First difference between what the builtin did and what the substitute did (None = same)."""
    for key in ('outcome', 'steps', 'log_at_creation', 'stdout', 'files', 'log'):
        if t1.get(key) != t2.get(key):
            return key
    return None


class Routes:
    """The ways a call of builtin `b` reaches the substitute."""

    def __init__(self):
        self.malt, self.converter, self.api, self.pb = _malt()
        self.opts = self.converter.ConversionOptions(recursive=True, optional_features=None)
        self.conv_cache = {}
        self.modn = 0
        # every scratch file of this run - including the files malt writes for the code it generates -
        # lives under one directory removed at exit (malt's own atexit removal does not run in forked workers)
        self.tmp = tempfile.mkdtemp(prefix='c14_')
        self._old_tempdir = tempfile.tempdir
        tempfile.tempdir = self.tmp

    def substitute(self, b, via, way=None):
        f = getattr(builtins, b)
        if via == 'overload_of':
            pb = self.pb
            return lambda *a, **k: pb.overload_of(f)(*a, **k)     # the table lookup is part of what is observed
        if via == 'map_entry':
            pb = self.pb
            return lambda *a, **k: pb.BUILTIN_FUNCTIONS_MAP[b](*a, **k)
        if via == 'converted_call':
            api, opts = self.api, self.opts
            return lambda *a, **k: api.converted_call(f, tuple(a), dict(k) if k else None, options=opts)
        if via == 'converted_call_partial':
            # the same call spelled as a functools.partial of the builtin with its first argument pre-bound
            import functools
            api, opts = self.api, self.opts

            def sub(*a, **k):
                if a:
                    part, rest, kk = functools.partial(f, a[0]), a[1:], k
                elif k:
                    first = next(iter(k))
                    part, rest, kk = functools.partial(f, **{first: k[first]}), a, {x: v for x, v in k.items() if x != first}
                else:
                    part, rest, kk = functools.partial(f), a, k
                return api.converted_call(part, tuple(rest), dict(kk) if kk else None, options=opts)
            return sub
        raise ValueError(via)

    def tmpdir(self):
        return self.tmp

    def load_module(self, src):
        self.modn += 1
        name = 'c14gen_%d_%d' % (os.getpid(), self.modn)
        path = os.path.join(self.tmpdir(), name + '.py')
        with open(path, 'w') as f:
            f.write(src)
        spec = importlib.util.spec_from_file_location(name, path)
        mod = importlib.util.module_from_spec(spec)
        sys.modules[name] = mod
        spec.loader.exec_module(mod)
        return mod

    def cleanup(self):
        tempfile.tempdir = self._old_tempdir
        shutil.rmtree(self.tmp, ignore_errors=True)
        for n in [n for n in sys.modules if n.startswith('c14gen_%d_' % os.getpid())]:
            del sys.modules[n]


def direct_case(routes, case):
    """Returns (difference-or-None, trace_builtin, trace_substitute)."""
    b, way, vs, via = case['builtin'], (case['way'][0], [tuple(x) for x in case['way'][1]]), case['values'], case['via']
    ctx1, p1, k1, _ = _materialise(way, vs)
    t1 = V.observe(getattr(builtins, b), p1, k1, ctx1)
    ctx2, p2, k2, built2 = _materialise(way, vs)
    if via == 'converted_function':
        prog = P.builtin_call_program(0, b, way)
        key = prog['src']
        if key not in routes.conv_cache:
            mod = routes.load_module(prog['src'])
            feats = routes.converter.Feature.BUILTIN_FUNCTIONS
            routes.conv_cache[key] = routes.malt.to_graph(getattr(mod, prog['entry']), recursive=True,
                                                          experimental_optional_features=feats)
        g = routes.conv_cache[key]
        t2 = V.observe(g, [built2], {}, ctx2)
    else:
        t2 = V.observe(routes.substitute(b, via), p2, k2, ctx2)
    return compare_traces(t1, t2), t1, t2


def class_of_direct(case):
    """No open finding concerns the substituted builtins themselves (the `enumerate(iterable=...)` defect was fixed
    in /repo by 295ca80): a difference between a substitute and its builtin is always a new violation."""
    return None


# ------------------------------------------------------------------------------------------------
# frame-sensitive builtins in converted functions
# ------------------------------------------------------------------------------------------------

def _plain(v):
    return json.loads(json.dumps(V.canon(v), default=str))


def run_callable(fn, args):
    try:
        return ('ok', _plain(fn(*args)))
    except Exception as e:  # noqa
        return ('exc', type(e).__name__)


class FrameSpy:
    """Records every `_find_originating_frame` search on the real stack (shadowing the module global)."""

    def __init__(self, pb, scratch):
        self.pb, self.orig, self.records, self.scratch = pb, pb._find_originating_frame, [], scratch

    def __enter__(self):
        spy = self

        def _find_originating_frame(c14_scope, innermost=True):
            result = spy.orig(c14_scope, innermost)
            if len(spy.records) >= 40 or sys._getframe().f_back is None:
                return result         # a runaway recursion in a broken tree must not turn into thousands of deep stack walks
            depth, fr = 0, sys._getframe()
            while fr is not None and depth <= 400:
                depth += 1; fr = fr.f_back
            if depth > 400:
                return result
            frames, chosen = [('_find_originating_frame', [], 0, [])], None
            fr = sys._getframe()
            gids, oids = {}, {}
            while fr is not None:
                loc = fr.f_locals
                ent = []
                if loc.get(c14_scope.name, None) is c14_scope:
                    ent.append((c14_scope.name, 1))
                elif c14_scope.name in loc:
                    ent.append((c14_scope.name, 2))
                if os.path.basename(fr.f_code.co_filename).startswith('__autograph_generated_file'):   # generated code: the user variables it shows
                    for w in WATCH:
                        if w in loc:
                            ent.append((w, oids.setdefault(id(loc[w]), len(oids) + 10)))
                if fr is result:
                    chosen = len(frames)
                frames.append((fr.f_code.co_name, ent, gids.setdefault(id(fr.f_globals), len(gids) + 1), list(fr.f_code.co_varnames[:1])))
                fr = fr.f_back
            spy.records.append({'name': c14_scope.name, 'innermost': bool(innermost), 'frames': frames, 'chosen': chosen,
                                'result_globals': gids.get(id(result.f_globals)), 'result_code': result.f_code.co_name})
            return result
        self.pb._find_originating_frame = _find_originating_frame
        return self

    def __exit__(self, *a):
        self.pb._find_originating_frame = self.orig


def eval_class_py(extra):
    """Python mirror of Lean evalArgsFaithful / evalGlobalsOnly / evalNoneGlobals."""
    if extra is None:
        return 'faithful'
    e = ['none' if x == 'none' else 'obj' for x in extra]
    if e == [] or (len(e) == 2 and e[0] == 'obj'):
        return 'faithful'
    if e == ['obj']:
        return CLS_EVAL_G
    if e and e[0] == 'none' and len(e) <= 2:
        return CLS_EVAL_N
    return 'other'


def class_of_program(prog):
    """Python mirror of the Lean class predicates (the driver's answers on the recorded stacks are
    compared with it in `correspondence:c14.class.body` / `c14.class.eval`)."""
    if prog['kind'] == 'eval':
        c = eval_class_py(prog.get('extra'))
        if c in (CLS_EVAL_G, CLS_EVAL_N):
            return c
    if prog['kind'] in ('eval', 'locals') and body_hides_py(prog):
        return CLS_BODY
    if stale_read_py(prog):
        return CLS_STALE
    return None


def stale_read_py(prog):
    """staleDynamicRead: the call needs x, x is assigned inside a functionalised block, and nothing reads x
    statically after that block (so the converter keeps the block's x local to the generated body)."""
    return 'x' in prog.get('needs', []) and bool(prog['nest']) and not prog.get('static_read')


def extract_writes(code, watched):
    """From the generated code: every assignment to a watched name as (name, in a nested generated function?,
    does that function declare the name nonlocal?)."""
    import ast
    tree = ast.parse(code)
    top = next(n for n in tree.body if isinstance(n, ast.FunctionDef))
    writes = []

    def own_nodes(fn):
        stack = list(fn.body)
        while stack:
            n = stack.pop()
            yield n
            for c in ast.iter_child_nodes(n):
                if not isinstance(c, (ast.FunctionDef, ast.Lambda, ast.AsyncFunctionDef, ast.ClassDef)):
                    stack.append(c)

    def nested(fn):
        stack = list(fn.body)
        while stack:
            n = stack.pop()
            if isinstance(n, ast.FunctionDef):
                yield n
                continue
            stack.extend(ast.iter_child_nodes(n))

    def visit(fn, in_body):
        nonlocals = set()
        targets = []
        for n in own_nodes(fn):
            if isinstance(n, ast.Nonlocal):
                nonlocals.update(n.names)
            elif isinstance(n, ast.Name) and isinstance(n.ctx, ast.Store) and n.id in watched:
                targets.append(n.id)
        for t in targets:
            writes.append((t, in_body, t in nonlocals))
        for g in nested(fn):
            visit(g, True)
    visit(top, False)
    return sorted(set(writes))


def generated_depth(code):
    """Number of generated functions/lambdas enclosing the first converted_call of a frame-sensitive builtin,
    below the converted function itself (read from the generated code)."""
    import ast
    tree = ast.parse(code)
    best = []

    def walk(node, depth):
        if best:
            return
        if isinstance(node, ast.Call) and isinstance(node.func, ast.Attribute) and node.func.attr == 'converted_call' and node.args:
            tgt = node.args[0]
            if isinstance(tgt, ast.Call) and tgt.args and isinstance(tgt.args[0], ast.Name) and tgt.args[0].id in ('eval', 'locals', 'globals', 'super'):
                best.append(depth)
                return
        for c in ast.iter_child_nodes(node):
            walk(c, depth + 1 if isinstance(c, (ast.FunctionDef, ast.Lambda)) else depth)
    walk(tree, 0)
    return best[0] - 1 if best else None


def body_hides_py(prog):
    """bodyHidesName: the call sits in a generated body and needs a user variable that body does not reference."""
    if prog.get('wrap'):     # the call is an operand turned into a lambda, which references none of the user's variables
        return bool(prog.get('needs'))
    return bool(prog['nest']) and any(n not in P.VISIBLE_IN_INNERMOST_BODY for n in prog.get('needs', []))


def program_case(routes, prog, feature):
    """Run one generated program, original vs converted. Returns (failure-or-None, details, frame records)."""
    src = P.MODULE_HEADER + prog['src']
    mod = routes.load_module(src)
    if prog['cls']:
        cls = getattr(mod, prog['cls'])
        orig = getattr(cls, prog['entry'])
        inst_cls = getattr(mod, prog.get('inst') or prog['cls'])     # the method may be called on a subclass instance
        mk_args = lambda a: [inst_cls()] + list(a)
    else:
        orig = getattr(mod, prog['entry'])
        mk_args = lambda a: list(a)
    feats = None if feature == 'none' else getattr(routes.converter.Feature, feature)
    try:
        conv = routes.malt.to_graph(orig, recursive=True, experimental_optional_features=feats)
    except Exception as e:  # noqa
        return 'conversion failed: %s' % type(e).__name__, {'error': str(e)[:300]}, []
    results = []
    with FrameSpy(routes.pb, tempfile.gettempdir()) as spy:
        for a in prog['args']:
            ro = run_callable(orig, mk_args(a))
            rc = run_callable(conv, mk_args(a))
            results.append({'args': a, 'original': ro, 'converted': rc})
    bad = [r for r in results if r['original'] != r['converted']]
    gen_depth = None
    try:
        code = routes.malt.to_code(orig, recursive=True, experimental_optional_features=feats)
        writes = extract_writes(code, WATCH)
        gen_depth = generated_depth(code)
    except Exception as e:  # noqa
        writes = [('unavailable: %s' % type(e).__name__, False, False)]
    return ('converted function differs from the original' if bad else None), \
        {'results': results, 'writes': writes, 'gen_depth': gen_depth}, spy.records


def _program_chunk(chunk):
    """Worker (forked): run a slice of the generated programs with its own scratch directory."""
    routes = Routes()
    try:
        return [program_case(routes, prog, feature) for prog, feature in chunk]
    finally:
        routes.cleanup()


def run_program_jobs(routes, jobs):
    """Conversions dominate the cost (~0.05 s each); spread them over forked workers, serial fallback."""
    n = min(12, os.cpu_count() or 1)
    if len(jobs) < 64 or n < 2:
        return [program_case(routes, prog, feature) for prog, feature in jobs]
    try:
        import concurrent.futures, multiprocessing
        size = max(8, len(jobs) // (n * 4))
        chunks = [jobs[i:i + size] for i in range(0, len(jobs), size)]
        with concurrent.futures.ProcessPoolExecutor(max_workers=n, mp_context=multiprocessing.get_context('fork')) as ex:
            out = []
            for res in ex.map(_program_chunk, chunks):
                out += res
        return out
    except (OSError, ImportError, RuntimeError):
        return [program_case(routes, prog, feature) for prog, feature in jobs]


# ------------------------------------------------------------------------------------------------
# registries: guarded registration, isolation oracle
# ------------------------------------------------------------------------------------------------

class IsoVec:
    """A user type every substituted builtin can be called on."""

    def __init__(self):
        self.items, self.n = [3, -1, 2], 0

    def __abs__(self):
        return 6.5

    def __len__(self):
        return 3

    def __iter__(self):
        return iter(self.items)

    def __next__(self):
        self.n += 1
        return self.n

    def __float__(self):
        return 1.5

    def __int__(self):
        return 4

    def __index__(self):
        return 4

    def __repr__(self):
        return 'IsoVec'


# how each builtin is called on an IsoVec `v` (aux = a StringIO for print)
ISO_EXPR = {'abs': 'abs(v)', 'all': 'all(v)', 'any': 'any(v)', 'enumerate': 'enumerate(v, 1)', 'filter': 'filter(None, v)',
            'float': 'float(v)', 'int': 'int(v)', 'len': 'len(v)', 'map': 'map(str, v)', 'print': "print(v, 'x', sep='-', file=aux)",
            'range': 'range(v)', 'sorted': 'sorted(v, reverse=True)', 'zip': 'zip(v, v)', 'next': 'next(v)'}


def all_registries(pb):
    """Every TypeRegistry instance reachable as a module attribute of py_builtins / control_flow."""
    from malt.utils import type_registry
    out = []
    mods = [pb]
    try:
        from malt.operators import control_flow
        mods.append(control_flow)
    except Exception:  # noqa
        pass
    for m in mods:
        for n, v in sorted(vars(m).items()):
            if isinstance(v, type_registry.TypeRegistry):
                out.append((m.__name__.split('.')[-1] + '.' + n, v))
    return out


class Registered:
    """Register (type -> override) in the given registries; whatever the implementation raises is kept in
    `self.errors` (never propagated); state is restored on exit whatever happened."""

    def __init__(self, regs, entries):
        self.regs, self.entries, self.errors = regs, entries, []

    def __enter__(self):
        for rname, reg in self.regs:
            for typ, override in self.entries:
                try:
                    reg.register(typ, override)
                except Exception as e:  # noqa
                    self.errors.append({'registry': rname, 'type': typ.__name__, 'raised': '%s: %s' % (type(e).__name__, str(e)[:120])})
        return self

    def __exit__(self, *a):
        for _, reg in all_registries_cache:
            d = getattr(reg, '_registry', None)
            if isinstance(d, dict):
                for typ, _ in self.entries:
                    d.pop(typ, None)


all_registries_cache = []


def iso_substitute(routes, b, via):
    """The substitute of `b` called as ISO_EXPR[b] on (v, aux)."""
    pb = routes.pb
    f = getattr(builtins, b)
    if via == 'converted_function':
        key = ('iso', b)
        if key not in routes.conv_cache:
            mod = routes.load_module('def iso_%s(v, aux):\n    return %s\n' % (b, ISO_EXPR[b]))
            routes.conv_cache[key] = routes.malt.to_graph(getattr(mod, 'iso_' + b), recursive=True,
                                                          experimental_optional_features=routes.converter.Feature.BUILTIN_FUNCTIONS)
        return routes.conv_cache[key]
    sub = (lambda *a, **k: pb.overload_of(f)(*a, **k)) if via == 'overload_of' else (lambda *a, **k: pb.BUILTIN_FUNCTIONS_MAP[b](*a, **k))
    return eval('lambda v, aux: ' + ISO_EXPR[b], {b: sub, 'str': str})


def isolation_case(routes, case):
    """Register an override for IsoVec in ONE registry, call the substitute of `case['builtin']` on an IsoVec.
    Expected: the override's result iff that registry is the builtin's own, otherwise exactly what the builtin does."""
    pb = routes.pb
    global all_registries_cache
    all_registries_cache = all_registries(pb)
    regs = dict(all_registries_cache)
    rname, b, via = case['registry'], case['builtin'], case['via']
    MARK = ('override-of', rname)

    def override(*a, **k):
        return MARK
    own = rname == 'py_builtins.%s_registry' % b

    def run_it(fn):
        ctx = V.Ctx()
        aux = io.StringIO()
        ctx.files.append(aux)
        return V.observe(fn, [IsoVec(), aux], {}, ctx)
    want = run_it(eval('lambda v, aux: ' + ISO_EXPR[b]))
    with Registered([(rname, regs[rname])], [(IsoVec, override)]) as r:
        got = run_it(iso_substitute(routes, b, via))
        errs = list(r.errors)
    if errs:
        return True, 'registering a type in %s raised' % rname, {'registration': errs}
    if own:
        ok = got['outcome'] == ('value', V.canon(MARK))
        return (not ok), 'an override registered in %s is not used by %s' % (rname, b), {'substitute_did': V.tr_json(got)}
    diff = compare_traces(want, got)
    return diff is not None, 'an override registered in %s leaks into the substitute of %s (differs in %s)' % (rname, b, diff), \
        {'builtin_did': V.tr_json(want), 'substitute_did': V.tr_json(got)}


# ------------------------------------------------------------------------------------------------
# correspondence helpers
# ------------------------------------------------------------------------------------------------

class Tok:
    """Opaque argument value for binding/forwarding correspondence."""

    def __init__(self, name, truthy=True):
        self.name, self.truthy = name, truthy

    def __bool__(self):
        return self.truthy

    def __repr__(self):
        return self.name


def val_sexp(v, unspecified=None):
    if isinstance(v, Tok):
        return v.name
    if unspecified is not None and v is unspecified:
        return ['const', 'UNSPECIFIED']
    return ['const', repr(v)]


KIND = {inspect.Parameter.POSITIONAL_ONLY: 'posOnly', inspect.Parameter.POSITIONAL_OR_KEYWORD: 'posOrKw',
        inspect.Parameter.VAR_POSITIONAL: 'varPos', inspect.Parameter.KEYWORD_ONLY: 'kwOnly',
        inspect.Parameter.VAR_KEYWORD: 'varKw'}


def sig_sexp(sig, unspecified=None):
    out = []
    for p in sig.parameters.values():
        if p.default is inspect.Parameter.empty:
            d = 'none'
        elif unspecified is not None and p.default is unspecified:
            d = ['some', 'UNSPECIFIED']
        else:
            d = ['some', repr(p.default)]
        out.append([p.name, KIND[p.kind], d])
    return out


def classify_type_error(msg):
    """CPython's call-binding TypeError message -> the model's error kind."""
    m = re.search(r"got an unexpected keyword argument '([^']+)'", msg)
    if m:
        return ['unexpectedKeyword', m.group(1)]
    if 'positional-only arguments passed as keyword' in msg:
        return ['posOnlyAsKeyword']
    m = re.search(r"got multiple values for argument '([^']+)'", msg)
    if m:
        return ['multipleValues', m.group(1)]
    if re.search(r'takes (from )?\d+ (to \d+ )?positional arguments? but \d+ .*(was|were) given', msg):
        return ['tooManyPositional']
    m = re.search(r"missing \d+ required (?:positional|keyword-only) arguments?: '([^']+)'", msg)
    if m:
        return ['missing', m.group(1)]
    return ['unclassified', msg]


def synth_signatures(rng, n):
    """Random parameter lists covering every kind; defaults only where Python allows them."""
    out = []
    for _ in range(n):
        npo, npk, nko = rng.randrange(0, 3), rng.randrange(0, 3), rng.randrange(0, 3)
        ndef = rng.randrange(0, npo + npk + 1)
        params = []
        for i in range(npo + npk):
            params.append(['p%d' % i, 'posOnly' if i < npo else 'posOrKw', i >= npo + npk - ndef])
        if rng.random() < 0.4:
            params.append(['args', 'varPos', False])
        for i in range(nko):
            params.append(['k%d' % i, 'kwOnly', rng.random() < 0.5])
        if rng.random() < 0.35:
            params.append(['kw', 'varKw', False])
        out.append(params)
    return out


def synth_function(params):
    parts, seen_star = [], False
    npo = len([p for p in params if p[1] == 'posOnly'])
    k = 0
    for name, kind, has_d in params:
        if kind in ('posOnly', 'posOrKw'):
            parts.append(name + ('=D' if has_d else ''))
            k += 1
            if kind == 'posOnly' and k == npo:
                parts.append('/')
        elif kind == 'varPos':
            parts.append('*' + name); seen_star = True
        elif kind == 'kwOnly':
            if not seen_star:
                parts.append('*'); seen_star = True
            parts.append(name + ('=D' if has_d else ''))
        else:
            parts.append('**' + name)
    names = [p[0] for p in params]
    src = 'def f(%s):\n    return {%s}\n' % (', '.join(parts), ', '.join("'%s': %s" % (n, n) for n in names))
    ns = {'D': DEFAULT}
    exec(src, ns)
    return ns['f'], src


class _Default:
    def __repr__(self):
        return 'D'


DEFAULT = _Default()


def shapes_for(names, max_pos, rng, cap):
    """Call shapes: 0..max_pos positionals x keyword subsets (size <= 3, every order for size 2)."""
    out = []
    for npos in range(max_pos + 1):
        for r in range(0, min(3, len(names)) + 1):
            for sub in itertools.combinations(names, r):
                perms = itertools.permutations(sub) if r == 2 else [sub]
                for perm in perms:
                    out.append((npos, list(perm)))
    if len(out) > cap:
        rng.shuffle(out)
        out = out[:cap]
    return out


def env_expect(result, params):
    """Real binding result (dict returned by the synthetic function) -> the model's env S-expression."""
    rows = []
    for name, kind, _ in params:
        v = result[name]
        if kind == 'varPos':
            rows.append([name, ['star'] + [val_sexp(x) for x in v]])
        elif kind == 'varKw':
            rows.append([name, ['dstar'] + [[k, val_sexp(x)] for k, x in v.items()]])
        else:
            rows.append([name, ['val', ['const', 'D'] if v is DEFAULT else val_sexp(v)]])
    return sexp(['ok', rows])


# ------------------------------------------------------------------------------------------------
# the check
# ------------------------------------------------------------------------------------------------

PROOF_MODULES = {'MaltModel.Proofs.C14Bind': 'MaltModel/Proofs/C14Bind.lean',
                 'MaltModel.Proofs.C14Forward': 'MaltModel/Proofs/C14Forward.lean',
                 'MaltModel.Proofs.C14Table': 'MaltModel/Proofs/C14Table.lean',
                 'MaltModel.Proofs.C14Frames': 'MaltModel/Proofs/C14Frames.lean'}


def lemma_obligations(run):
    """The helper developments are built first, one obligation per lemma, so that a change of the
    generated tables names the builtin whose forwarding lemma (`preserved_<builtin>`) stopped checking."""
    ok, log = run.lean_build(list(PROOF_MODULES))
    per_file, any_failed = {}, False
    for mod, rel in PROOF_MODULES.items():
        with open(os.path.join(common.LEAN, rel)) as f:
            text = common.strip_comments(f.read())
        names = re.findall(r'^(?:private\s+)?theorem\s+(\S+)', text, flags=re.M)
        failed = run._failed_theorems(rel, log) if not ok else set()
        any_failed = any_failed or bool(failed)
        per_file[rel] = (names, failed)
    errs = ' | '.join([l for l in log.split('\n') if 'error' in l][:6])
    for rel, (names, failed) in per_file.items():
        for n in names:
            bad = (not ok) and (n in failed or not any_failed)
            run.oblige('lemma:%s' % n, 'theorem', not bad, errs if bad else '')


VIAS = ['overload_of', 'converted_call', 'converted_function', 'converted_call_partial']


def replay_case(routes, case):
    """Re-run one recorded case. Returns (failed?, what, class, details)."""
    if case['kind'] == 'direct':
        diff, t1, t2 = direct_case(routes, case)
        return diff is not None, 'substitute differs from the builtin in: %s' % diff, class_of_direct(case), \
            {'builtin_did': V.tr_json(t1), 'substitute_did': V.tr_json(t2)}
    if case['kind'] == 'program':
        what, det, _ = program_case(routes, case['program'], case['feature'])
        return what is not None, what, class_of_program(case['program']), det
    if case['kind'] == 'isolation':
        failed, what, det = isolation_case(routes, case)
        return failed, what, None, det
    raise common.InfraError('unknown case kind %r' % case.get('kind'))


def check(run, only_case=None):
    run.rule = ('direct: every substituted builtin x every accepted way of calling it (each optional parameter present/absent, '
                'positionally or by its documented keyword; all keyword orders) x value families (ints, floats, bools, strings, '
                'bytes, lists, tuples, sets, dicts, iterators, generators, counting sources, user objects with the relevant dunder '
                'methods, values the builtin rejects) x route (overload_of, converted_call, converted_call of a functools.partial, converted function); programs: one '
                'eval/locals/globals/super call at every nest of if/else/elif/for/while up to the tier depth; a case is distinct by '
                '(builtin, way, value spec, route) or (call kind, nest, feature); non-trivial = the builtin accepted the call '
                'shape (all generated shapes are), so the comparison is of a value, a lazy object, output or a value rejection')
    run.assumptions += [
        'registries of py_builtins are empty (checked at run time); user-registered overrides are outside the model',
        'user code cannot obtain the UNSPECIFIED sentinel (userShape hypothesis of C14_forward_partial)',
        'truth value of an argument is a function of the argument (bool(x) deterministic); exceptions raised by __bool__ are covered by the oracle only',
        'what each real builtin computes from its bound parameters is a parameter (`sem`) of C14_same_outcome_partial, never modelled',
        'the builtin specification table is the library reference for Python 3.12, cross-checked against inspect.signature and by probing',
        'CPython frame objects: f_locals contains the free variables a code object references; f_back chain is the call stack',
    ]
    run.translate(['Builtins'])
    lemma_obligations(run)
    run.build_and_audit('MaltModel.Props.C14', model_files=MODEL_FILES)

    routes = Routes()
    try:
        _check(run, routes, only_case)
    finally:
        routes.cleanup()


def _check(run, routes, only_case):
    malt, converter, api, pb = routes.malt, routes.converter, routes.api, routes.pb
    rng = run.rng
    quick = run.tier == 'quick'
    supported = [f.__name__ for f in pb.SUPPORTED_BUILTINS]

    # ---------------- known findings: a class is honoured only while its listed witness still fails ----------------
    listed = [k for k in common.load_known_findings() if k.get('property') == 'C14' and k.get('status', 'open') == 'open']
    active = set()
    for k in listed:
        failed, what, cls, det = replay_case(routes, k['witness'])
        run.case(('known-witness', k['id']), True)
        if failed and cls == k['class']:
            active.add(k['class'])
        else:
            run.notes.append('listed finding %s: witness no longer fails (or changed class to %r) - its class is not honoured in this run' % (k['id'], cls))
    run.cov['known_finding_classes_active'] = sorted(active)
    for k in common.load_known_findings():
        if k.get('property') == 'C14' and k.get('status') == 'fixed':
            # a fixed entry suppresses nothing; its witness is in corpus/C14 and must pass
            failed, what, cls, det = replay_case(routes, k['witness'])
            run.case(('fixed-witness', k['id']), True)
            if failed:
                run.fail('recurrence of fixed defect %s (%s): %s' % (k['id'], k.get('commit'), what), k['witness'], None)
            print(k.get('fixed_line') or 'fixed: property=C14 %s %s' % (k.get('commit'), k.get('what')))

    def fail(what, case, cls):
        run.fail(what, case, cls if cls in active else None)

    # ---------------- corpus first ----------------
    cdir = os.path.join(common.VERIF, 'corpus', 'C14')
    ncorpus = 0
    if os.path.isdir(cdir):
        for fn in sorted(os.listdir(cdir)):
            if fn.endswith('.json'):
                with open(os.path.join(cdir, fn)) as f:
                    c = json.load(f)
                failed, what, cls, det = replay_case(routes, c['case'])
                run.case(('corpus', fn), True)
                ncorpus += 1
                if failed:
                    fail(what, dict(c['case'], corpus=fn), cls)
                elif c.get('expect') == 'fails':
                    run.notes.append('corpus %s no longer fails' % fn)
    run.cov['corpus_cases'] = ncorpus

    if only_case is not None:
        failed, what, cls, det = replay_case(routes, only_case)
        print(json.dumps({'failed': failed, 'what': what, 'class': cls, 'details': det}, indent=1, default=str)[:6000])
        if failed:
            fail(what, only_case, cls)
        run.case(('replay',), True)
        return

    import time
    t_sec = {'start': time.time()}
    # ---------------- 1. direct oracle ----------------
    outcomes = {}
    per_builtin = {}
    failing_direct = []
    sampled = set()
    all_direct = []       # (builtin, way) of every generated direct call, for the theorem-coverage distribution
    nrandom = 6 if quick else 40
    for b in supported:
        W = V.ways(b, run.tier)
        if not W:
            fail('no ways of calling %s are known to the harness (new entry in SUPPORTED_BUILTINS?)' % b, {'kind': 'direct', 'builtin': b}, None)
            continue
        sets = V.value_sets(b) + V.random_value_sets(b, rng, nrandom)
        nb = 0
        for wi, way in enumerate(W):
            roles = list(way[0]) + [r for _, r in way[1]]
            seen_specs = set()
            for li, (label, vs) in enumerate(sets):
                sub = {r: vs[r] for r in roles}
                key = json.dumps(sub, sort_keys=True)
                if key in seen_specs:
                    continue
                seen_specs.add(key)
                # all routes on a slice, overload_of on everything
                vias = VIAS if (li % (7 if quick else 3) == wi % (7 if quick else 3)) else ['overload_of']
                if b == 'print' and quick and (li + wi) % 3 and not label.startswith('falsy'):
                    continue
                for via in vias:
                    case = {'kind': 'direct', 'builtin': b, 'way': [list(way[0]), [list(x) for x in way[1]]], 'values': sub,
                            'label': label, 'via': via}
                    diff, t1, t2 = direct_case(routes, case)
                    run.case(('direct', b, wi, key, via), True)
                    nb += 1
                    all_direct.append((b, way))
                    oc = t1['outcome'][0] + (':' + t1['outcome'][1].split('.')[-1] if t1['outcome'][0] == 'exc' else '')
                    outcomes[oc] = outcomes.get(oc, 0) + 1
                    if diff is not None:
                        failing_direct.append(case)
                        fail('substitute of %s differs from the builtin in %s (%s)' % (b, diff, via), case, class_of_direct(case))
                    if len(run.samples) < 3 and b not in sampled and way[1] and via == 'overload_of' and diff is None \
                            and t1['outcome'][0] in ('lazy', 'value') and t1['log']:
                        sampled.add(b)
                        run.sample({'case': case, 'builtin_and_substitute_did': V.tr_json(t1)})
        per_builtin[b] = nb
    # entries of BUILTIN_FUNCTIONS_MAP that are not (yet) in SUPPORTED_BUILTINS: the overload itself vs the builtin
    for b in [k for k in pb.BUILTIN_FUNCTIONS_MAP if k not in supported]:
        W = V.ways(b, run.tier)
        if not W:
            fail('no ways of calling %s (key of BUILTIN_FUNCTIONS_MAP) are known to the harness' % b, {'kind': 'direct', 'builtin': b}, None)
            continue
        nb = 0
        for wi, way in enumerate(W):
            roles = list(way[0]) + [r for _, r in way[1]]
            for label, vs in V.value_sets(b) + V.random_value_sets(b, rng, nrandom):
                sub = {r: vs[r] for r in roles}
                case = {'kind': 'direct', 'builtin': b, 'way': [list(way[0]), [list(x) for x in way[1]]], 'values': sub,
                        'label': label, 'via': 'map_entry'}
                diff, t1, t2 = direct_case(routes, case)
                run.case(('direct', b, wi, json.dumps(sub, sort_keys=True), 'map_entry'), True)
                nb += 1
                all_direct.append((b, way))
                if diff is not None:
                    fail('map entry of %s differs from the builtin in %s' % (b, diff), case, None)
        per_builtin[b + ' (mapped, not supported)'] = nb
    run.cov['direct_cases_per_builtin'] = per_builtin
    run.cov['direct_outcomes_of_builtin'] = dict(sorted(outcomes.items(), key=lambda x: -x[1]))

    # builtins that are not substituted are called as they are
    others = [n for n, f in vars(builtins).items() if callable(f) and n not in supported]
    for n in others:
        f = getattr(builtins, n)
        run.case(('identity', n), False)
        try:
            same = pb.overload_of(f) is f
        except Exception as e:  # noqa
            same = False
        if not same:
            fail('overload_of(%s) is not %s itself although it is not in SUPPORTED_BUILTINS' % (n, n), {'kind': 'identity', 'builtin': n}, None)
    run.cov['unsubstituted_builtins_checked'] = len(others)
    # a few unsubstituted builtins through converted_call (fresh arguments for each side)
    for n, mk in [('next', lambda: ((iter([1, 2]),), {})), ('next', lambda: ((iter([]), 9), {})),
                  ('min', lambda: (([3, 1, 2],), {'key': abs})), ('max', lambda: ((1, 5, 3), {})),
                  ('sum', lambda: (([1, 2], 10), {})), ('divmod', lambda: ((7, 2), {})), ('isinstance', lambda: ((1, int), {})),
                  ('round', lambda: ((2.567,), {'ndigits': 1})), ('pow', lambda: ((2, 5), {'mod': 7})),
                  ('min', lambda: (([],), {'default': 4})), ('next', lambda: ((iter([]),), {})), ('repr', lambda: (('x',), {}))]:
        f = getattr(builtins, n)
        a, k = mk()
        run.case(('unsubstituted-call', n, len(a), tuple(k)), True)
        want = run_callable(lambda: f(*a, **k), [])
        a2, k2 = mk()
        got = run_callable(lambda: api.converted_call(f, a2, k2 or None, options=routes.opts), [])
        if want != got:
            fail('converted_call(%s, ...) differs from %s(...)' % (n, n),
                 {'kind': 'identity', 'builtin': n, 'builtin_did': want, 'converted_call_did': got}, None)

    # registries: pairwise distinct objects with independent contents, and an override registered in one registry
    # reaches exactly that registry's builtin (every ordered pair registry x substituted builtin, three routes)
    global all_registries_cache
    all_registries_cache = all_registries(pb)
    regs = all_registries_cache
    for i, (n1, r1) in enumerate(regs):
        for n2, r2 in regs[i + 1:]:
            run.case(('registry-distinct', n1, n2), True)
            d1, d2 = getattr(r1, '_registry', None), getattr(r2, '_registry', None)
            if r1 is r2 or (d1 is not None and d1 is d2):
                fail('registries %s and %s share their contents' % (n1, n2), {'kind': 'registry-distinct', 'a': n1, 'b': n2}, None)
    iso_builtins = [b for b in list(dict.fromkeys(supported + list(pb.BUILTIN_FUNCTIONS_MAP))) if b in ISO_EXPR]
    missing_iso = [b for b in dict.fromkeys(supported + list(pb.BUILTIN_FUNCTIONS_MAP)) if b not in ISO_EXPR]
    if missing_iso:
        fail('the isolation oracle has no call for %s' % missing_iso, {'kind': 'isolation', 'builtins': missing_iso}, None)
    niso = 0
    for rname, _ in regs:
        for b in iso_builtins:
            vias = ['overload_of', 'converted_function'] if b in supported else ['map_entry']
            for via in vias:
                case = {'kind': 'isolation', 'registry': rname, 'builtin': b, 'via': via}
                try:
                    failed, what, det = isolation_case(routes, case)
                except Exception as e:  # noqa   the implementation broke while being driven: that is a failing input
                    failed, what, det = True, 'driving the isolation case raised %s' % type(e).__name__, {'error': str(e)[:200]}
                run.case(('isolation', rname, b, via), True)
                niso += 1
                if failed:
                    fail(what, dict(case, observed=det), None)
    run.cov['isolation_cases (registry x builtin x route)'] = niso
    run.cov['registries_checked'] = [n for n, _ in regs]
    t_sec['direct'] = time.time()
    # ---------------- 2. frame-sensitive builtins in converted functions ----------------
    progs, pstat = P.frame_programs(run.tier, rng)
    run.cov['frame_programs'] = pstat
    frame_records = []
    by_kind_depth = {}
    features = ['none', 'BUILTIN_FUNCTIONS']
    jobs = []
    for pi, prog in enumerate(progs):
        feats = features if pi % (5 if quick else 2) == 0 else [features[pi % 2]]
        for feature in feats:
            jobs.append((prog, feature))
    stale_lines, stale_expect = [], []
    for (prog, feature), (what, det, recs) in zip(jobs, run_program_jobs(routes, jobs)):
        run.case(('program', prog['call'], tuple(prog['nest']), prog.get('wrap'), prog.get('inst'), feature), True)
        if 'writes' in det:
            stale_lines.append('c14.class.stale %s %s' % (sexp(list(prog.get('needs', []))), sexp([[n, b, d] for n, b, d in det['writes']])))
            stale_expect.append(sexp(stale_read_py(prog)))
        kd = '%s@%d%s' % (prog['kind'], len(prog['nest']), '+' + prog['wrap'] if prog.get('wrap') else '')
        st = by_kind_depth.setdefault(kd, [0, 0])
        st[0] += 1
        for r in recs:
            r['gen_depth'] = det.get('gen_depth')
            frame_records.append((prog, r))
        if what is not None:
            st[1] += 1
            case = {'kind': 'program', 'program': prog, 'feature': feature}
            fail(what, dict(case, observed=det), class_of_program(prog))
        elif len(run.samples) < 5 and len(prog['nest']) == 2 and prog['kind'] not in sampled and prog['kind'] in ('super', 'globals'):
            sampled.add(prog['kind'])
            run.sample({'program': prog['src'], 'feature': feature, 'results': det})
    run.cov['frame_programs_by_kind@depth [run, differing]'] = by_kind_depth

    t_sec['programs'] = time.time()
    run.cov['seconds'] = {'direct_oracle': round(t_sec['direct'] - t_sec['start'], 1), 'programs': round(t_sec['programs'] - t_sec['direct'], 1)}
    # ---------------- 3. correspondence model <-> implementation ----------------
    if not run.driver_ok:
        run.oblige('correspondence:c14', 'correspondence', False, 'driver unavailable')
        run.cov['search'] = 'direct oracle only (driver unavailable)'
        return
    drive = run.drive

    def corr(name, lines, expect, detail=lambda l, e, g: {'request': l, 'implementation': e, 'model': g}):
        got = drive(lines) if lines else []
        dis = [detail(l, e, g) for l, e, g in zip(lines, expect, got) if e != g]
        run.evaluations += len(lines)
        run.oblige('correspondence:' + name, 'correspondence', not dis, json.dumps(dis[:3], default=str) if dis else '')
        run.cov.setdefault('correspondence_lines', {})[name] = len(lines)
        return dis

    # 3a. generated tables vs the module at run time
    tables = parse_sexp(drive(['c14.tables'])[0])
    rt_map = [[k, f.__name__] for k, f in pb.BUILTIN_FUNCTIONS_MAP.items()]
    run.oblige('correspondence:SUPPORTED_BUILTINS', 'correspondence', tables[0] == supported, '%s vs %s' % (tables[0], supported))
    run.oblige('correspondence:BUILTIN_FUNCTIONS_MAP', 'correspondence', tables[1] == rt_map, '%s vs %s' % (tables[1], rt_map))
    regs = {n: getattr(pb, n, None) for n in tables[4]}
    nonempty = [n for n, r in regs.items() if getattr(r, '_registry', None) != {}]
    run.oblige('correspondence:registries-empty', 'correspondence', not nonempty, 'non-empty: %s' % nonempty)
    bad = []
    for b in supported:
        f = getattr(builtins, b)
        try:
            if pb.overload_of(f) is not getattr(pb, dict(tables[1]).get(b, '?'), None):
                bad.append(b)
        except Exception as e:  # noqa
            bad.append('%s (%s)' % (b, type(e).__name__))
    run.oblige('correspondence:overload_of', 'correspondence', not bad, 'overload_of disagrees with the generated map for %s' % bad)

    # 3b. inspect.signature of every overload and helper vs the generated parameter lists
    lines, expect = [], []
    for n in tables[2] + tables[3]:
        lines.append('c14.sig ' + n)
        fn = getattr(pb, n, None)
        expect.append(sexp(sig_sexp(inspect.signature(fn), pb.UNSPECIFIED)) if callable(fn) else 'NOT-DEFINED-IN-MODULE')
    corr('c14.sig', lines, expect)

    # 3c. builtin specification table vs inspect.signature(builtin), and vs probing with valid values
    VALID = {'abs': {'pos': [-1]}, 'all': {'pos': [[1]]}, 'any': {'pos': [[1]]},
             'enumerate': {'pos': [[1], 2], 'kw': {'iterable': [1], 'start': 2}},
             'filter': {'pos': [None, [1]]}, 'float': {'pos': [1]}, 'int': {'pos': ['12', 10], 'kw': {'base': 10}},
             'len': {'pos': [[1]]}, 'map': {'pos': [str, [1], [2], [3]]},
             'print': {'pos': [1, 2, 3], 'kw': {'sep': ' ', 'end': '', 'file': None, 'flush': False}},
             'range': {'pos': [1, 5, 2, 1]}, 'sorted': {'pos': [[1], None], 'kw': {'key': None, 'reverse': False}},
             'zip': {'pos': [[1], [2], [3]], 'kw': {'strict': True}}, 'next': {'pos': [iter([1, 2]), 0, 0]}}
    lines, expect, meta = [], [], []
    spec_sig_bad = []
    for b in supported + [k for k in pb.BUILTIN_FUNCTIONS_MAP if k not in supported]:
        forms = parse_sexp(drive(['c14.spec ' + b])[0])
        if not forms:
            spec_sig_bad.append('%s: no specification in the model' % b)
            continue
        try:
            rs = sig_sexp(inspect.signature(getattr(builtins, b)))
        except (ValueError, TypeError):
            rs = None
        if rs is not None:
            def norm(s):      # the name of *args is not observable
                return [[('*' if p[1] == 'varPos' else p[0]), p[1], p[2]] for p in s]
            if len(forms) != 1 or norm(forms[0]) != norm(rs):
                spec_sig_bad.append('%s: model %s vs inspect %s' % (b, forms, rs))
        val = VALID.get(b)
        if val is None:
            continue
        kwnames = sorted(set(val.get('kw', {})) | {p[0] for f in forms for p in f if p[1] in ('posOrKw', 'posOnly')} | {'zz'})
        for npos in range(len(val['pos']) + 1):
            for r in range(0, 3):
                for sub in itertools.combinations(kwnames, r):
                    pos = val['pos'][:npos]
                    kw = {}
                    for k in sub:
                        kw[k] = val.get('kw', {}).get(k, val['pos'][0])
                    try:
                        with io.StringIO() as buf, __import__('contextlib').redirect_stdout(buf):
                            getattr(builtins, b)(*pos, **kw)
                        acc = True
                    except TypeError:
                        acc = False
                    except Exception:  # noqa  a value error means the shape was accepted
                        acc = True
                    lines.append('c14.preserved %s %s (truthy)' % (b, sexp([['a%d' % i for i in range(npos)], [[k, 'k' + k] for k in sub]])))
                    expect.append(acc)
                    meta.append((b, npos, sub))
    got = drive(lines)
    dis = []
    for l, e, g, m in zip(lines, expect, got, meta):
        acc_model = any(row[0] == 'True' for row in parse_sexp(g))
        if acc_model != e:
            dis.append({'request': l, 'builtin accepts': e, 'model accepts': acc_model})
    run.evaluations += len(lines)
    run.cov.setdefault('correspondence_lines', {})['spec-probe'] = len(lines)
    run.oblige('correspondence:spec-vs-inspect.signature', 'correspondence', not spec_sig_bad, '; '.join(spec_sig_bad))
    run.oblige('correspondence:spec-vs-probing', 'correspondence', not dis, json.dumps(dis[:4]))

    # every way the harness calls a builtin is accepted by the model's specification, and the conclusion of
    # C14_forward evaluated by the driver holds on it
    lines, meta = [], []
    for b in supported:
        for way in V.ways(b, 'thorough'):
            sx = sexp([list(way[0]), [[k, r] for k, r in way[1]]])
            for tr in ('(truthy)', '(truthy strict)'):
                lines.append('c14.preserved %s %s %s' % (b, sx, tr)); meta.append((b, way))
    got = drive(lines)
    bad = []
    for l, g in zip(lines, got):
        rows = parse_sexp(g)
        accepted = [r for r in rows if r[0] == 'True']
        if not accepted:
            bad.append({'request': l, 'problem': 'way not accepted by any form of the model specification'})
        elif not all(r[1] == 'True' for r in accepted):
            bad.append({'request': l, 'problem': 'C14_forward conclusion false on a documented way', 'rows': rows})
    run.evaluations += len(lines)
    run.cov['correspondence_lines']['ways-vs-model'] = len(lines)
    run.oblige('correspondence:ways-accepted-and-preserved', 'correspondence', not bad, json.dumps(bad[:3]))

    # 3d. model `bind` vs CPython's binding on synthetic signatures of every parameter kind
    nsig = 60 if quick else 500
    lines, expect = [], []
    err_kinds = {}
    for params in synth_signatures(rng, nsig):
        f, src = synth_function(params)
        names = [p[0] for p in params if p[1] not in ('varPos', 'varKw')] + ['zz']
        sig_sx = sexp([[n, k, ['some', 'D'] if d else 'none'] for n, k, d in params])
        for npos, kws in shapes_for(names, 5, rng, 40 if quick else 60):
            pos = [Tok('a%d' % i) for i in range(npos)]
            kw = {k: Tok('v' + k) for k in kws}
            try:
                res = f(*pos, **kw)
                exp = env_expect(res, params)
                err_kinds['ok'] = err_kinds.get('ok', 0) + 1
            except TypeError as e:
                c = classify_type_error(str(e))
                err_kinds[c[0]] = err_kinds.get(c[0], 0) + 1
                exp = sexp(['err'] + c)
            lines.append('c14.bind %s %s' % (sig_sx, sexp([[p.name for p in pos], [[k, v.name] for k, v in kw.items()]])))
            expect.append(exp)
    run.cov['bind_outcomes'] = err_kinds
    corr('c14.bind', lines, expect)

    # 3e. recorded forwarded calls (builtin names shadowed inside py_builtins' globals) vs model `forward`
    lines, expect = [], []
    spies_log = []
    fwd_shapes = []
    RESULT = object()

    def mkspy(name):
        def spy(*a, **k):
            spies_log.append((name, a, k))
            return RESULT
        return spy
    saved = {}
    fwd_outcomes = {}
    try:
        for b in supported:
            saved[b] = pb.__dict__.get(b, saved)
            pb.__dict__[b] = mkspy(b)
        for b in supported:
            ov = (lambda fb: (lambda *a, **k: pb.overload_of(fb)(*a, **k)))(getattr(builtins, b))
            forms = parse_sexp(drive(['c14.spec ' + b])[0])
            try:
                ov_names = set(inspect.signature(pb.overload_of(getattr(builtins, b))).parameters)
            except Exception:  # noqa
                ov_names = set()
            names = sorted({p[0] for f in forms for p in f if p[1] != 'varPos'} | ov_names | {'zz'})
            names = [n for n in names if n not in ('objects', 'kwargs', 'iterables', 'args')]
            shapes = shapes_for(names, 4, rng, 400 if quick else 4000)
            shapes += [(len(w[0]), [k for k, _ in w[1]]) for w in V.ways(b, 'thorough')]   # every documented way
            for npos, kws in shapes:
                for strict_truth in ((True, False) if 'strict' in kws else (True,)):
                    pos = [Tok('a%d' % i) for i in range(npos)]
                    kw = {k: Tok('v' + k, strict_truth if k == 'strict' else True) for k in kws}
                    del spies_log[:]
                    try:
                        res = ov(*pos, **kw)
                        if len(spies_log) != 1:
                            exp = 'IMPLEMENTATION-MADE-%d-CALLS' % len(spies_log)
                        else:
                            n, a, k = spies_log[0]
                            exp = sexp(['ok', n, res is RESULT, [val_sexp(x, pb.UNSPECIFIED) for x in a],
                                        [[kk, val_sexp(x, pb.UNSPECIFIED)] for kk, x in k.items()]])
                        fwd_outcomes['ok'] = fwd_outcomes.get('ok', 0) + 1
                    except TypeError as e:
                        exp = 'TypeError'
                        fwd_outcomes['TypeError'] = fwd_outcomes.get('TypeError', 0) + 1
                    except ValueError:
                        exp = 'ValueError'
                        fwd_outcomes['ValueError'] = fwd_outcomes.get('ValueError', 0) + 1
                    except Exception as e:  # noqa
                        exp = type(e).__name__
                        fwd_outcomes[exp] = fwd_outcomes.get(exp, 0) + 1
                    truthy = [v.name for v in kw.values() if v.truthy] + [p.name for p in pos]
                    lines.append('c14.forward %s %s %s' % (b, sexp([[p.name for p in pos], [[k, v.name] for k, v in kw.items()]]),
                                                           sexp(['truthy'] + truthy)))
                    fwd_shapes.append((b, sexp([[p.name for p in pos], [[k, v.name] for k, v in kw.items()]])))
                    expect.append(exp)
    finally:
        for b, v in saved.items():
            if v is saved:
                pb.__dict__.pop(b, None)
            else:
                pb.__dict__[b] = v
    got = drive(lines)
    dis = []
    for l, e, g in zip(lines, expect, got):
        gm = g
        if g.startswith('(err bind'):
            gm = 'TypeError'
        elif g == '(err valueError)':
            gm = 'ValueError'
        if gm != e:
            dis.append({'request': l, 'implementation': e, 'model': g})
    run.evaluations += len(lines)
    run.cov['correspondence_lines']['c14.forward'] = len(lines)
    run.cov['forward_outcomes'] = fwd_outcomes
    run.oblige('correspondence:c14.forward', 'correspondence', not dis, json.dumps(dis[:3]))
    if lines:
        run.sample({'request': lines[len(lines) // 3], 'implementation': expect[len(lines) // 3], 'model': got[len(lines) // 3]})

    # 3e'. registry dispatch: two user types registered in every registry with recording overrides; the overload must
    #      take the override exactly when the model's `dispatchOf` says so, with the arguments `overrideCall` says
    class SA(Tok):
        pass

    class SB(Tok):
        pass
    del spies_log[:]

    def mkoverride(n):
        def override(*a, **k):
            spies_log.append(('override', n, a, k))
            return RESULT
        return override
    map_keys = list(pb.BUILTIN_FUNCTIONS_MAP)
    reg_objs = [getattr(pb, n) for n in tables[4] if getattr(pb, n, None) is not None]
    lines, expect, staged_shapes = [], [], []
    saved = {}
    reg_named = [(n, getattr(pb, n)) for n in tables[4] if getattr(pb, n, None) is not None]
    guard = Registered(reg_named, [(SA, mkoverride(1)), (SB, mkoverride(2))])
    try:
        guard.__enter__()
        for e in guard.errors:
            fail('registering a type in %s raised %s' % (e['registry'], e['raised']), dict(e, kind='registry-register'), None)
        for b in map_keys:
            saved[b] = pb.__dict__.get(b, saved)
            pb.__dict__[b] = mkspy(b)
        for b in map_keys:
            forms = parse_sexp(drive(['c14.spec ' + b])[0])
            kwn = sorted({p[0] for f in forms for p in f if p[1] in ('posOrKw', 'kwOnly')})[:1]
            for npos in range(4):
                for kinds in itertools.product('pab', repeat=npos):
                    for kws in ([], kwn) if kwn else ([],):
                        pos = [{'p': Tok, 'a': SA, 'b': SB}[kd](('p' if kd == 'p' else 's' + kd) + str(i)) for i, kd in enumerate(kinds)]
                        kw = {k: Tok('v' + k) for k in kws}
                        del spies_log[:]
                        try:
                            res = pb.BUILTIN_FUNCTIONS_MAP[b](*pos, **kw)
                            if len(spies_log) != 1:
                                exp = 'IMPLEMENTATION-MADE-%d-CALLS' % len(spies_log)
                            elif spies_log[0][0] == 'override':
                                _, n, a, k = spies_log[0]
                                exp = sexp(['override', n, [val_sexp(x, pb.UNSPECIFIED) for x in a],
                                            [[kk, val_sexp(x, pb.UNSPECIFIED)] for kk, x in k.items()]])
                            else:
                                n, a, k = spies_log[0]
                                exp = sexp(['py', n, res is RESULT, [val_sexp(x, pb.UNSPECIFIED) for x in a],
                                            [[kk, val_sexp(x, pb.UNSPECIFIED)] for kk, x in k.items()]])
                        except TypeError:
                            exp = 'TypeError'
                        except ValueError:
                            exp = 'ValueError'
                        except Exception as e:  # noqa
                            exp = type(e).__name__
                        shp = sexp([[p.name for p in pos], [[k, v.name] for k, v in kw.items()]])
                        lines.append('c14.mappedS %s %s %s' % (b, shp, sexp(['truthy'] + [p.name for p in pos] + [v.name for v in kw.values()])))
                        expect.append(exp)
                        staged_shapes.append((b, shp))
    finally:
        guard.__exit__()
        for b, v in saved.items():
            if v is saved:
                pb.__dict__.pop(b, None)
            else:
                pb.__dict__[b] = v
    run.oblige('correspondence:registration-succeeds', 'correspondence', not guard.errors, json.dumps(guard.errors[:3]))
    corr('c14.mappedS(registry-dispatch)', lines, expect)
    left = [n for n in tables[4] if getattr(getattr(pb, n, None), '_registry', None) not in ({}, None)]
    run.oblige('correspondence:registries-restored', 'correspondence', not left, 'still filled: %s' % left)

    # where the generated calls stand with respect to C14_forward_table_partial (its hypotheses, evaluated by the driver)
    def coverage_hist(pairs):
        ls = ['c14.coverage %s %s' % (b, shp) for b, shp in pairs]
        hist = {}
        for g in (drive(ls) if ls else []):
            hist[g] = hist.get(g, 0) + 1
        return dict(sorted(hist.items(), key=lambda x: -x[1]))
    run.cov['forward_theorem_coverage'] = {
        'outside_the_theorem_by_design': [
            'sentinel-argument: an argument that is the UNSPECIFIED sentinel (hypothesis userShape; user code cannot name it)',
            'staged-argument: an argument whose type is registered in the overload registry - the override runs (hypothesis unstaged)',
            'shape-rejected-by-builtin-signature: outside the property; positional arity covered by C14_arity_errors_partial',
            'not-in-BUILTIN_FUNCTIONS_MAP: the builtin itself is called (C14_unsubstituted_identity)',
            'dispatch paths before the builtin branch of converted_call (allowlist cache, disabled context, partial unwrapping): property C13',
            'eval/locals/globals/super: frame theorems, not the forwarding theorem'],
        'direct_oracle_calls': coverage_hist([(b, sexp([list(w[0]), [[k, r] for k, r in w[1]]])) for b, w in all_direct]),
        'forward_correspondence_shapes': coverage_hist(fwd_shapes),
        'registry_dispatch_shapes': coverage_hist(staged_shapes),
    }

    # 3f. frame search: the model on the recorded real stacks, and on synthetic real stacks
    def frames_sexp(frames):
        return [[c, [[n, i] for n, i in ent], g, vn] for c, ent, g, vn in frames]
    lines, expect = [], []
    cls_lines, cls_expect = [], []
    for prog, r in frame_records:
        lines.append('c14.find %s 1 %s %s' % (r['name'], sexp(r['innermost']), sexp(frames_sexp(r['frames']))))
        expect.append(str(r['chosen']))
        if r['innermost']:
            cls_lines.append('c14.class.body %s 1 %s %s' % (r['name'], sexp(list(prog.get('needs', []))), sexp(frames_sexp(r['frames']))))
            cls_expect.append(sexp(body_hides_py(prog)))

    class Scope:
        def __init__(self, name):
            self.name = name
    scope, other = Scope('fscope'), Scope('fscope')

    def chain(bits, innermost, out):
        if not bits:
            try:
                fr = pb._find_originating_frame(scope, innermost)
                k, cur = 0, sys._getframe()
                while cur is not fr:
                    cur = cur.f_back; k += 1
                out.append(k + 1)      # + the search function's own frame
            except AssertionError:
                out.append(None)
            return
        if bits[0] == 1:
            fscope = scope  # noqa: F841
        elif bits[0] == 2:
            fscope = other  # noqa: F841
        elif bits[0] == 3:
            unrelated = scope  # noqa: F841
        chain(bits[1:], innermost, out)
    for klen in range(1, 5 if quick else 6):
        for bits in itertools.product(range(4), repeat=klen):
            for innermost in (True, False):
                out = []
                chain(list(bits), innermost, out)
                # stack from the search function outwards: its own frame, the `chain` frame that called it (bits exhausted), then bits reversed
                frames = [('find', [], 0, [])] + [('chain', [], 1, ['bits'])]
                for bit in reversed(bits):
                    ent = [('fscope', 1)] if bit == 1 else [('fscope', 2)] if bit == 2 else [('unrelated', 1)] if bit == 3 else []
                    frames.append(('chain', ent, 1, ['bits']))
                lines.append('c14.find fscope 1 %s %s' % (sexp(innermost), sexp(frames_sexp(frames))))
                expect.append('none' if out[0] is None else str(out[0]))
    corr('c14.find', lines, expect)
    # every recorded real stack obeys the frame discipline GenStack at the depth read off the generated code
    gs_lines, gs_expect, depth_hist = [], [], {}
    for prog, r in frame_records:
        if r.get('gen_depth') is None:
            continue
        gs_lines.append('c14.genstack %s 1 %s' % (r['name'], sexp(frames_sexp(r['frames']))))
        gs_expect.append(sexp([r['gen_depth'], True]))
        depth_hist[r['gen_depth']] = depth_hist.get(r['gen_depth'], 0) + 1
    corr('c14.genstack', gs_lines, gs_expect)
    run.cov['recorded_stacks_by_generated_depth'] = dict(sorted(depth_hist.items()))
    corr('c14.class.body', cls_lines, cls_expect)
    corr('c14.class.stale', stale_lines, stale_expect)
    modes = {b: drive(['c14.innermost ' + b])[0] for b in ('eval', 'locals', 'globals', 'super')}
    seen_modes = {}
    for prog, r in frame_records:
        kind = prog['kind'] if prog['kind'] != 'after' else ('eval' if prog['call'].startswith('eval') else 'locals')
        seen_modes.setdefault(kind, set()).add(sexp(r['innermost']))
    badm = {k: sorted(v) for k, v in seen_modes.items() if v != {modes[k]}}
    run.oblige('correspondence:c14.innermost', 'correspondence', not badm, 'model %s, observed %s' % (modes, badm))
    run.cov['frame_searches_recorded'] = len(frame_records)

    # 3g. namespaces eval ends up with: real eval through the wrapper vs evalForward; plain eval vs evalSpec
    lines, expect = [], []
    PROBE = '(globals(), locals())'
    objs = [{'m': 0}, {'m': 1}]

    def ident(ns, user_locals, user_globals):
        if ns is user_globals:
            return ['frameGlobals', '1']
        if ns is pb.__dict__:
            return ['frameGlobals', '0']
        if ns is user_locals:
            return ['frameLocals', '1']
        for i, o in enumerate(objs):
            if ns is o:
                return ['obj', str(i)]
        if isinstance(ns, dict) and 'caller_fn_scope' in ns and 'ctx_frame' in ns:
            return ['frameLocals', '0']
        return ['unknown', repr(type(ns))]

    def user_frame(extra_real, through_wrapper):
        fscope = scope  # noqa: F841  (this frame holds the scope object)
        mine = sys._getframe().f_locals
        if through_wrapper:
            g, l = pb.eval_in_original_context(eval, (PROBE,) + tuple(extra_real), scope)
        else:
            g, l = eval(PROBE, *extra_real)
        return ident(g, mine, globals()), ident(l, mine, globals())
    for extra in ([], ['none'], [0], ['none', 'none'], ['none', 1], [0, 'none'], [0, 1], [1, 1]):
        real = [None if x == 'none' else objs[x] for x in extra]
        ex = sexp(['none' if x == 'none' else ['obj', x] for x in extra])
        lines.append('c14.evalspec 1 ' + ex)
        expect.append(sexp(list(user_frame(real, False))))
        lines.append('c14.evalfwd 0 1 ' + ex)
        expect.append(sexp(list(user_frame(real, True))))
    corr('c14.eval-namespaces', lines, expect)
    # class predicate of the eval findings: Lean vs the Python mirror used for classification
    lines, expect = [], []
    for c in P.EVAL_CALLS:
        extra = c[2]
        lines.append('c14.class.eval ' + sexp(['none' if x == 'none' else ['obj', 0] for x in extra]))
        expect.append(eval_class_py(extra))
    corr('c14.class.eval', lines, expect)

    run.cov['seconds']['correspondence'] = round(time.time() - t_sec['programs'], 1)
    run.cov['exhaustive'] = False
    run.cov['search'] = ('direct oracle on %d builtin calls (every way x value families x 3 routes), %d generated programs x features; '
                         'on a broken obligation the same oracle is the search (the disagreeing shapes are among the ways enumerated)'
                         % (sum(per_builtin.values()), len(progs)))


def replay(run, path):
    with open(path) as f:
        rep = json.load(f)
    case = rep.get('case')
    if not isinstance(case, dict) or case.get('kind') not in ('direct', 'program', 'isolation'):
        print(json.dumps(rep, indent=1)[:3000])
        check(run)
        return run.finish()
    case = {k: v for k, v in case.items() if k not in ('observed', 'corpus')}
    check(run, only_case=case)
    return run.finish()
