"""C01 — jump-lowering passes (break / continue / return): correspondence, semantics validation, direct oracle.

`check_part(run)` is the part of the C01 check that concerns the three jump-lowering passes; `run_c01j.py`
exposes it as the development alias `./check C01J`.

For every generated program (bounded-exhaustive skeletons, typed random programs, random programs of the
`Malt.Sem` fragment, a for/while-else stream, the corpus):
  1. direct oracle (needs no Lean): original vs fully converted function on every input/decision vector —
     same outcome (value / exception type), same tracer log, same global `G`;
  2. per-pass correspondence: the tree each of BreakTransformer, ContinueCanonicalizationTransformer,
     ConditionalReturnRewriter, ReturnStatementsTransformer received (+ BODY_SCOPE.referenced, fn_ctx_name,
     namer state) is fed to the Lean model (`c01j.pass`); output trees (ids stripped) and the `new_symbol`
     call sequences must be identical;
  3. tie between the syntactic model and the semantic lowering the theorems are about (`c01j.tie`):
     `toSem (model p) = lower (toSem p)` up to the spelling of generated names, + the theorem hypotheses
     evaluated on the program;
  4. semantics validation: CPython vs Lean `exec` (oracle answers replayed) on the source function and on the
     REAL output of every pass.
"""
import ast, json, multiprocessing, os, random, sys, traceback

import common
from common import sexp, parse_sexp

PASSES = {'BreakTransformer': 'break', 'ContinueCanonicalizationTransformer': 'continue',
          'ConditionalReturnRewriter': 'rewrite', 'ReturnStatementsTransformer': 'return'}
KEEP_ANNOS = ('BODY_SCOPE', 'fn_ctx_name', 'skip')
MODEL_FILES = ['MaltModel/Conv/JumpCommon.lean', 'MaltModel/Conv/Break.lean', 'MaltModel/Conv/Continue.lean',
               'MaltModel/Conv/Return.lean', 'MaltModel/Conv/JumpsSem.lean', 'MaltModel/Conv/JumpToSem.lean',
               'MaltModel/Sem/CoreLemmas.lean', 'MaltModel/Proofs/JumpsCommon.lean', 'MaltModel/Proofs/JumpsBreak.lean',
               'MaltModel/Proofs/JumpsContinue.lean', 'MaltModel/Proofs/JumpsReturn.lean',
               'MaltModel/Proofs/JumpsSyntax.lean', 'MaltModel/Proofs/JumpsFresh.lean', 'MaltModel/Proofs/JumpsRewrite.lean', 'MaltModel/Drv/C01J.lean']
FUEL = 4000
CLS_EXEMPT = 'jump_in_finally'
CLS_FINDING = 'raise_in_finally_over_jump'
CLS_TRYELSE = 'jump_in_try_body_with_else_clause'


# ------------------------------------------------------------------------------------------------------
# generators owned by this part
# ------------------------------------------------------------------------------------------------------
class _SemGen(object):
    """Random programs inside the fragment of `toSem` (every construct of Malt.Sem, deeper nesting than the
    skeletons): used to validate Sem/Core.lean against CPython and to exercise the tie on larger programs."""

    def __init__(self, rng, budget):
        self.rng, self.budget, self.k, self.lines = rng, budget, 0, []
        self.features = set()

    def slot(self):
        self.k += 1
        return self.k

    def iexpr(self, d=2):
        r = self.rng
        c = r.random()
        if d <= 0 or c < 0.35:
            return r.choice(['x', 'y', 'z', 'a', 'b', str(r.randrange(0, 4))])
        if c < 0.6:
            return '%s %s %s' % (self.iexpr(d - 1), r.choice(['+', '-', '*']), self.iexpr(d - 1))
        if c < 0.85:
            return 'tr(%d, %s)' % (self.slot(), self.iexpr(d - 1))
        return '(%s if %s else %s)' % (self.iexpr(d - 1), self.bexpr(d - 1), self.iexpr(d - 1))

    def bexpr(self, d=1):
        r = self.rng
        c = r.random()
        if c < 0.4:
            return 'd()'
        if d <= 0 or c < 0.7:
            return '%s %s %s' % (self.iexpr(0), r.choice(['<', '<=', '==', '!=']), self.iexpr(0))
        if c < 0.8:
            return '(not %s)' % self.bexpr(d - 1)
        return '(%s %s %s)' % (self.bexpr(d - 1), r.choice(['and', 'or']), self.bexpr(d - 1))

    def emit(self, ind, s):
        self.lines.append(ind + s)

    def block(self, ind, depth, inloop, infin, quiet=False):
        n = self.rng.randrange(1, 4)
        start = len(self.lines)
        for _ in range(n):
            if self.budget <= 0:
                break
            self.stmt(ind, depth, inloop, infin, quiet)
        if len(self.lines) == start:
            self.emit(ind, 'pass')

    def stmt(self, ind, depth, inloop, infin, quiet):
        r = self.rng
        self.budget -= 1
        c = r.random()
        F = self.features
        v = r.choice(['x', 'y', 'z'])
        if depth <= 0 or c < 0.25:
            f = r.randrange(3)
            if f == 0:
                self.emit(ind, '%s = %s' % (v, self.iexpr()))
            elif f == 1:
                self.emit(ind, '%s += %s' % (v, self.iexpr(1)))
            else:
                self.emit(ind, 'tr(%d, %s)' % (self.slot(), self.iexpr(1)))
            return
        if c < 0.40:
            F.add('if')
            self.emit(ind, 'if %s:' % self.bexpr())
            self.block(ind + '    ', depth - 1, inloop, infin, quiet)
            if r.random() < 0.5:
                self.emit(ind, 'else:')
                self.block(ind + '    ', depth - 1, inloop, infin, quiet)
            return
        if c < 0.50:
            F.add('while')
            self.emit(ind, 'while d():')
            self.block(ind + '    ', depth - 1, True, infin, quiet)
            return
        if c < 0.60:
            F.add('for')
            self.emit(ind, 'for %s in n():' % r.choice(['i', 'j', v]))
            self.block(ind + '    ', depth - 1, True, infin, quiet)
            return
        if c < 0.72 and not quiet and not infin:
            # a jump, usually guarded
            js = ['return %s' % self.iexpr(1), 'return']
            if inloop:
                js += ['break', 'break', 'continue', 'continue']
            j = r.choice(js)
            F.add(j.split()[0])
            if r.random() < 0.7:
                self.emit(ind, 'if %s:' % self.bexpr(0))
                self.emit(ind + '    ', j)
            else:
                self.emit(ind, j)
            return
        if c < 0.78 and not quiet:
            F.add('raise')
            self.emit(ind, 'if %s:' % self.bexpr(0))
            self.emit(ind + '    ', 'raise %s(tr(%d))' % (r.choice(['E1', 'E2']), self.slot()))
            return
        if c < 0.92:
            F.add('try')
            self.emit(ind, 'try:')
            self.block(ind + '    ', depth - 1, inloop, infin, quiet)
            m = r.random()
            if m < 0.7:
                self.emit(ind, 'except %s:' % r.choice(['E1', 'E2']))
                self.block(ind + '    ', depth - 1, inloop, infin, quiet)
                if r.random() < 0.2:
                    self.emit(ind, 'except E2:')
                    self.block(ind + '    ', depth - 1, inloop, infin, quiet)
            if m >= 0.7 or r.random() < 0.45:
                F.add('finally')
                self.emit(ind, 'finally:')
                # quiet finally blocks (no raise, no jumps): the S1 fragment; sometimes a raise (finding class)
                self.block(ind + '    ', depth - 1, False, True, quiet=(r.random() < 0.9))
            return
        F.add('with')
        k = self.slot()
        self.emit(ind, r.choice(['with cm(%d):' % k, 'with cm(%d) as %s:' % (k, v)]))
        self.block(ind + '    ', depth - 1, inloop, infin, quiet)


def sem_random_programs(rng, n, size=14):
    import progen
    for _ in range(n):
        g = _SemGen(rng, rng.randrange(max(4, size // 2), size + 1))
        g.emit('    ', 'x = a')
        if rng.random() < 0.85:
            g.emit('    ', 'y = b')
            g.emit('    ', 'z = c')
        else:
            g.features.add('maybe_unbound')
        while g.budget > 0:
            g.stmt('    ', 3, False, False, False)
        g.emit('    ', rng.choice(['return tr(0, x)', 'return x + y', 'tr(0, x, y)', 'return tr(0, x, y, z)']))
        src = 'def f(a, b, c):\n' + '\n'.join(g.lines) + '\n'
        yield progen.Program(progen.PRELUDE + src, [(1, 2, 3), (0, -1, 5)], g.features | {'semgen'}, 'semrandom',
                             decisions=progen.decision_vectors(random.Random(rng.getrandbits(30)), 5, length=10))


ELSE_PROGRAMS = [
    '''def f(a, b, c):
    x = a
    while d():
        x = tr(1, x)
    else:
        tr(2)
    return tr(0, x)
''', '''def f(a, b, c):
    x = a
    while d():
        if d():
            break
        x = tr(1, x)
    else:
        tr(2)
    return tr(0, x)
''', '''def f(a, b, c):
    x = a
    for i in n():
        if d():
            break
        if d():
            continue
        tr(1, i)
    else:
        tr(2)
        x = tr(3)
    return tr(0, x)
''', '''def f(a, b, c):
    x = a
    for i in n():
        while d():
            if d():
                break
        else:
            if d():
                break
            tr(4)
        tr(1, i)
    else:
        tr(2)
    return tr(0, x)
''', '''def f(a, b, c):
    x = a
    for i in n():
        while d():
            tr(5)
        else:
            if d():
                continue
            tr(4)
        tr(1, i)
    return tr(0, x)
''', '''def f(a, b, c):
    x = a
    while d():
        if d():
            return tr(7)
    else:
        if d():
            return tr(8)
        tr(2)
    tr(3)
    return tr(0, x)
''', '''def f(a, b, c):
    x = a
    for i in n():
        try:
            if d():
                break
        finally:
            tr(6)
    else:
        for j in n():
            if d():
                continue
            tr(9, j)
        else:
            tr(10)
    return tr(0, x)
''',
]

# programs that are valid Python of the C01 class but outside the typed generators: hand-written shapes
EXTRA_PROGRAMS = [
    # return whose expression raises, caught in the same function (why the `try/except: raise` wrapper exists)
    '''def hraise(v):
    raise E1(v)
def f(a, b, c):
    x = a
    try:
        if d():
            return hraise(tr(1, x))
        tr(2)
    except E1:
        tr(3)
    tr(4)
    return tr(0, x)
''',
    '''def hraise(v):
    raise E1(v)
def f(a, b, c):
    x = a
    for i in n():
        try:
            return hraise(tr(1, i))
        except E1:
            tr(3, i)
        tr(4)
    return tr(0, x)
''',
    # an earlier return in the block extends the test of a later loop without returns
    '''def f(a, b, c):
    x = a
    if d():
        return tr(1)
    while d():
        x = tr(2, x)
    for i in n():
        x = tr(3, i)
    return tr(0, x)
''',
    # nested function definitions with their own loops and returns
    '''def f(a, b, c):
    x = a
    def g(p):
        for q in n():
            if d():
                return tr(1, q)
            if d():
                continue
            tr(2, q)
        return tr(3, p)
    while d():
        y = g(x)
        if d():
            break
        x = tr(4, y)
    z = (lambda u: u + 1)(x)
    return tr(0, x, z)
''',
    # docstring + return + attribute / subscript names in scope (reserved-set flattening)
    '''class _O(object):
    pass
def f(a, b, c):
    """doc"""
    o = _O()
    o.break_ = a
    l = [a, b]
    l[0] = o.break_
    while d():
        if l[0] > 0 and d():
            break
        l[0] = tr(1, l[0])
    return tr(0, l[0])
''',
]


def extra_programs():
    import progen
    for i, s in enumerate(EXTRA_PROGRAMS):
        yield progen.Program(progen.PRELUDE + s, [(1, 2, 3), (0, -1, 5)], {'extra'}, 'extra',
                             decisions=progen.decision_vectors(random.Random(i), 6))


def _tryelse_source(jump, loop, pos, shape, fin, guarded):
    """One program of the try-else family.  `jump`: return/break/continue; `loop`: for/while/None (function level,
    return only); `pos`: where the jump sits (body/handler/else); `shape`: the else clause is plain statements / starts
    with an `if` / contains a further jump; `fin`: with a finally clause; `guarded`: the jump sits under `if d():`."""
    L = ['def f(a, b, c):', '    x = a', '    y = b']
    ind = '    '
    if loop == 'for':
        L.append(ind + 'for i in n():'); ind += '    '
    elif loop == 'while':
        L.append(ind + 'while d():'); ind += '    '
    js = {'return': 'return tr(7, x)', 'break': 'break', 'continue': 'continue'}[jump]
    other = 'return tr(8, y)' if loop is None else ('continue' if jump != 'continue' else 'break')

    def put(i, stmt):
        if guarded:
            L.append(i + 'if d():'); L.append(i + '    ' + stmt); L.append(i + 'y = tr(6, y)')
        else:
            L.append(i + stmt)
    L.append(ind + 'x = tr(1, x)')
    L.append(ind + 'try:')
    L.append(ind + '    if d():')
    L.append(ind + '        raise E1(tr(2))')
    if pos == 'body':
        put(ind + '    ', js)
    else:
        L.append(ind + '    x = tr(3, x)')
    L.append(ind + 'except E1:')
    if pos == 'handler':
        put(ind + '    ', js)
    else:
        L.append(ind + '    y = tr(4, y)')
    L.append(ind + 'else:')
    if pos == 'else':
        put(ind + '    ', js)
    elif shape == 'plain':
        L.append(ind + '    x = tr(5, x)'); L.append(ind + '    tr(10, y)')
    elif shape == 'if':
        L.append(ind + '    if d():'); L.append(ind + '        x = tr(5, x)'); L.append(ind + '    tr(10, y)')
    else:
        L.append(ind + '    tr(10, y)'); L.append(ind + '    if d():'); L.append(ind + '        ' + other)
        L.append(ind + '    x = tr(5, x)')
    if fin:
        L.append(ind + 'finally:'); L.append(ind + '    tr(9, x)')
    L.append(ind + 'tr(11, x, y)')
    L.append('    return tr(0, x, y)')
    return '\n'.join(L) + '\n'


def tryelse_programs():
    """try/except/else[/finally] with the jump in the protected block, in a handler and in the else clause, for
    return/break/continue, inside for/while (return also at function level), else clause of three shapes, jump guarded
    or not: the shapes the `visit_Try` guard of `Try.orelse` (continue and return passes) is about."""
    import progen, itertools
    k = 0
    for jump, loop in [(j, l) for j in ('return', 'break', 'continue') for l in ('for', 'while')] + [('return', None)]:
        for pos, shape, fin, guarded in itertools.product(('body', 'handler', 'else'), ('plain', 'if', 'jump'),
                                                          (False, True), (True, False)):
            if pos == 'else' and shape != 'plain':
                continue
            k += 1
            src = _tryelse_source(jump, loop, pos, shape, fin, guarded)
            yield progen.Program(progen.PRELUDE + src, [(1, 2, 3)], {'try_else', jump, 'tryelse:' + pos, 'try'} |
                                 ({'finally'} if fin else set()), 'tryelse',
                                 decisions=progen.decision_vectors(random.Random(1000 + k), 8, length=10))


def else_programs():
    import progen
    for i, s in enumerate(ELSE_PROGRAMS):
        yield progen.Program(progen.PRELUDE + s, [(1, 2, 3)], {'loop_else'}, 'else',
                             decisions=progen.decision_vectors(random.Random(100 + i), 6))


# ------------------------------------------------------------------------------------------------------
# per-program work (runs in worker processes; needs no Lean)
# ------------------------------------------------------------------------------------------------------
def _txt(x):
    return sexp(x)


def _canon_tree(text):
    import pyast
    return pyast.strip_ids(parse_sexp(text))


def _log_canon(log):
    """CPython log -> the driver's event format."""
    out = []
    for e in log:
        if e[0] == 'next':
            continue      # iterator-protocol events of progen's n(): not modelled by Malt.Sem (compared Python-vs-Python)
        if e[0] == 'tr':
            out.append(['tr'] + [_val(v) for v in e[1:]])
        elif e[0] in ('d', 'n'):
            out.append([e[0]])
        elif e[0] == 'enter':
            out.append(['enter', str(e[1])])
        elif e[0] == 'exit':
            out.append(['exit', str(e[1])])
        else:
            out.append(['?'] + [str(x) for x in e])
    return out


def _val(v):
    if v is None:
        return 'None'
    if isinstance(v, bool):
        return str(int(v))
    if isinstance(v, int):
        return str(v)
    if isinstance(v, tuple) and v and v[0] == 'list':
        return ['list'] + [_val(x) for x in v[1:]]
    return ['?', repr(v)]


def _out_canon(out):
    if out[0] == 'ret':
        return ['ret', _val(out[1])]
    return ['exc', out[1]]


class _ExtraTest(ast.NodeTransformer):
    """`for x in it` carrying EXTRA_LOOP_TEST `t`  ->  what `_py_for_stmt` does: test before the first
    iteration and after every iteration.  Only used on trees after the three jump passes, where loop bodies
    contain no `continue` any more, so the trailing test runs after every iteration."""

    def visit_For(self, node):
        self.generic_visit(node)
        t = getattr(node, '_extra_test', None)
        if t is None:
            return node
        import copy
        self.k = getattr(self, 'k', 0) + 1
        tmp = '__c01j_iter_%d' % self.k
        # the iterable is an argument of for_stmt: evaluated before the first extra test
        pre = ast.Assign(targets=[ast.Name(id=tmp, ctx=ast.Store())], value=node.iter, type_comment=None)
        node.iter = ast.Name(id=tmp, ctx=ast.Load())
        node.body = list(node.body) + [ast.If(test=ast.UnaryOp(op=ast.Not(), operand=copy.deepcopy(t)),
                                              body=[ast.Break()], orelse=[])]
        return [pre, ast.If(test=copy.deepcopy(t), body=[node], orelse=[])]


def compile_pass_output(mod, after_text, fname):
    """The function defined by the REAL output tree of a pass, compiled in the program's module."""
    import pyast
    from malt.impl import api
    fd = pyass_to_stmt(after_text)
    fd = _ExtraTest().visit(fd)
    m = ast.Module(body=[fd], type_ignores=[])
    ast.fix_missing_locations(m)
    ns = dict(mod.__dict__)
    ns['ag__'] = api.PyToPy().get_extra_locals()['ag__']
    exec(compile(m, '<c01j pass output %s>' % fname, 'exec'), ns)
    g = ns[fname]
    return g, ns


def pyass_to_stmt(text):
    import pyast
    return pyast.to_stmt(parse_sexp(text))


class _StopAfterJumpPasses(Exception):
    pass


def _stop(node, ctx):
    raise _StopAfterJumpPasses()


def process_program(pj, allow_else=False, recursive_both=False):
    """Convert one program, run the direct oracle, collect what the Lean side needs. Returns a dict."""
    import progen, passes, pyast
    prog = progen.Program.from_json(pj)
    res = {'key': prog.key, 'kind': prog.kind, 'features': sorted(prog.features), 'fail': [], 'records': [],
           'runs': [], 'source_fn': None, 'error': None, 'nruns': 0, 'skip_anno': False, 'downstream': 0,
           'oracle3': 0}
    ws = progen.Workspace()
    saved_verify = None
    try:
        mod = ws.load(prog)
        f = getattr(mod, prog.fname)
        # the source function as a tree (for `c01j.exec` and `c01j.class`)
        tree = ast.parse(prog.source)
        fdef = [n for n in tree.body if isinstance(n, ast.FunctionDef) and n.name == prog.fname][-1]
        res['source_fn'] = pyast.Ser(fdef).text()
        if allow_else:
            from malt.core import unsupported_features_checker as ufc
            saved_verify = ufc.verify
            ufc.verify = lambda node: None
        # this part ends after the return lowering: the pipeline is cut at the next pass (call_trees)
        from malt.converters import call_trees
        saved_ct = call_trees.transform
        call_trees.transform = _stop
        traces = []
        try:
            for rec_flag in ([True, False] if recursive_both else [True]):
                tr = passes.trace_conversion(f, passes.make_options(recursive=rec_flag))
                traces.append((rec_flag, tr))
        finally:
            call_trees.transform = saved_ct
        tr = traces[0][1]
        if tr.error is not None and not isinstance(tr.error, _StopAfterJumpPasses) and not allow_else:
            res['error'] = '%s: %s' % (type(tr.error).__name__, str(tr.error)[:300])
        # ---- per-pass records
        for rec_flag, t in traces:
            gen_so_far = []
            for r in t.passes:
                which = PASSES.get(r.name)
                if which is not None and isinstance(r.before, list) and r.before and r.before[0] == 'FunctionDef' \
                        and isinstance(r.after, list) and r.after and r.after[0] == 'FunctionDef':
                    annos = [a for a in (r.before_annos or []) if a[1] in KEEP_ANNOS]
                    if any(a[1] == 'skip' for a in annos):
                        res['skip_anno'] = True
                    res['records'].append({
                        'which': which, 'recursive': rec_flag,
                        'before': _txt(r.before), 'annos': _txt(annos), 'ns': _txt(list(t.namespace)),
                        'gen': _txt(list(gen_so_far)), 'after': _txt(r.after),
                        'calls': [[c[0], c[2]] for c in r.new_symbols]})
                gen_so_far += [c[2] for c in r.new_symbols]
        # ---- direct oracle of this part: original vs the function compiled from the REAL tree after the three
        #      jump passes (= output of ReturnStatementsTransformer); + CPython reference runs for the Lean semantics
        three = []
        if not allow_else:
            for rec in res['records']:
                if rec['which'] == 'return':
                    try:
                        g, gns = compile_pass_output(mod, rec['after'], prog.fname)
                        three.append((rec['recursive'], g, gns))
                    except Exception as e:
                        res['fail'].append({'what': 'output of the three jump passes does not compile: %r' % (e,)})
        for args in prog.inputs:
            for dec in prog.decisions:
                o1 = progen.run_program(mod, f, args, dec)
                res['nruns'] += 1
                res['runs'].append({'args': list(args), 'dec': list(dec), 'out': _out_canon(o1[0]),
                                    'log': _log_canon(o1[1])})
                bad3 = False
                for rec_flag, g, gns in three:
                    o3 = _run_in_ns(progen, mod, gns, g, args, dec)
                    res['oracle3'] += 1
                    if o1 != o3:
                        bad3 = True
                        res['fail'].append({'args': list(args), 'dec': list(dec), 'recursive': rec_flag,
                                            'original': repr(o1)[:400], 'after_jump_passes': repr(o3)[:400]})
        ws.unload(mod)
    except RecursionError:
        res['error'] = 'RecursionError'
    except Exception as e:  # harness-side problem with this program: reported, never a violation
        res['error'] = 'HARNESS %s: %s' % (type(e).__name__, traceback.format_exc()[-400:])
    finally:
        if saved_verify is not None:
            from malt.core import unsupported_features_checker as ufc
            ufc.verify = saved_verify
        ws.close()
    return res


def _run_in_ns(progen, mod, gns, g, args, dec):
    """run_program for a function whose globals are a copy of the module namespace: LOG/DEC/G are shared objects
    (lists) except the int `G`, which the copy holds separately."""
    gns['G'] = 0
    out, log, _ = progen.run_program(mod, g, args, dec)
    gval = gns.get('G', 0)
    return out, log, gval


def _worker(job):
    sys.path.insert(0, common.REPO)
    pj, allow_else, both = job
    return process_program(pj, allow_else, both)


def _init_worker():
    sys.setrecursionlimit(10000)
    if common.REPO not in sys.path:
        sys.path.insert(0, common.REPO)


# ------------------------------------------------------------------------------------------------------
# the check
# ------------------------------------------------------------------------------------------------------
def load_corpus():
    import progen
    d = os.path.join(common.VERIF, 'corpus', 'C01J')
    out = []
    if os.path.isdir(d):
        for fn in sorted(os.listdir(d)):
            if fn.endswith('.json'):
                with open(os.path.join(d, fn)) as f:
                    j = json.load(f)
                out.append(progen.Program.from_json(j.get('program', j)))
    return out


def gen_programs(run, info):
    """The program streams of this run: list of (program json, allow_else, recursive_both)."""
    import progen
    quick = run.tier == 'quick'
    jobs = []
    for p in load_corpus():
        jobs.append((p.to_json(), False, True))
    info['corpus'] = len(jobs)
    for p in extra_programs():
        jobs.append((p.to_json(), False, True))
    for p in else_programs():
        jobs.append((p.to_json(), True, False))
    nt = len(jobs)
    for p in tryelse_programs():
        jobs.append((p.to_json(), False, False))
    info['try_else_family'] = len(jobs) - nt
    sk = {}
    n0 = len(jobs)
    for p in progen.skeleton_programs(max_stmts=4, max_depth=3, cap=None, rng=random.Random(run.seed), info=sk):
        jobs.append((p.to_json(), False, False))
    info['skeleton_4_3'] = dict(sk)
    sk2 = {}
    cap = 1500 if quick else 20000
    for p in progen.skeleton_programs(max_stmts=5 if quick else 6, max_depth=3 if quick else 4, cap=cap,
                                      rng=random.Random(run.seed * 7919 + 1), rich=True, info=sk2):
        if p.meta['index'] < 0:
            continue
        jobs.append((p.to_json(), False, False))
    info['skeleton_large'] = dict(sk2)
    info['skeletons'] = len(jobs) - n0
    if hasattr(progen, 'jump_context_programs'):
        nj = len(jobs)
        ji = {}
        for p in progen.jump_context_programs(max_depth=2 if quick else 3, cap=1000 if quick else 12000,
                                              rng=random.Random(run.seed * 17 + 3), info=ji):
            jobs.append((p.to_json(), False, False))
        info['jump_contexts'] = dict(ji, programs=len(jobs) - nj)
    n1 = len(jobs)
    for p in progen.random_programs(random.Random(run.seed * 31 + 5), 150 if quick else 2000):
        jobs.append((p.to_json(), False, True))
    info['random'] = len(jobs) - n1
    n2 = len(jobs)
    for p in sem_random_programs(random.Random(run.seed * 131 + 9), 400 if quick else 5000):
        jobs.append((p.to_json(), False, False))
    info['semrandom'] = len(jobs) - n2
    cap = os.environ.get('C01J_MAX_PROGRAMS')      # development aid (mutation runs): stride-sample every stream
    if cap and len(jobs) > int(cap):
        stride = len(jobs) // int(cap) + 1
        keep = max(20, info.get('corpus', 0) + len(EXTRA_PROGRAMS) + len(ELSE_PROGRAMS) + info.get('try_else_family', 0))
        jobs = jobs[:keep] + jobs[keep::stride]
        info['development_cap'] = int(cap)
    return jobs


def check_part(run, jobs=None):
    run.rule = ('programs: corpus + hand-written shapes + for/while-else stream (feature check patched out) + '
                'bounded-exhaustive control-flow skeletons (all <=4-unit skeletons of depth <=3 exhaustively, larger '
                'ones stride-sampled with a seed-derived offset) + typed random C01 programs + random programs of the '
                'Malt.Sem fragment; a case = (program, pass) for the correspondences and (program, input, decision '
                'vector) for the executions; non-trivial = the pass changed the tree / the run reached a tracer call')
    run.assumptions += [
        'Sem/Core.lean describes CPython 3.12 on the modelled fragment (validated differentially on every run: '
        'c01j.exec vs CPython on source programs and on the real output of every jump pass; not proved)',
        'toSem (Conv/JumpToSem.lean) is the meaning of the fragment of Py.Ast it accepts; it maps the '
        '`try: ... except: <const assigns>; raise` wrapper of the return lowering to its body, because Malt.Sem has '
        'no catch-all handler and no exception raised by expression evaluation is catchable there',
        'no converter sets anno.Basic.SKIP_PROCESSING (asserted on every snapshot)',
        'composition of the three per-pass theorems with the other passes is the C01 coordinator\'s obligation',
    ]
    run.build_and_audit('MaltModel.Props.C01Jumps', model_files=MODEL_FILES)
    run.cov['checker_cmd'] = ('cd lean && lake build MaltModel.Props.C01Jumps drv_c01j && lake env lean '
                              '.lake/audit/Audit_%s.lean' % run.prop +
                              (' && lake env leanchecker MaltModel.Props.C01Jumps' if run.tier == 'thorough' else ''))

    info = {}
    if jobs is None:
        jobs = gen_programs(run, info)
    nproc = min(16, os.cpu_count() or 4)
    import time as _time
    _t0 = _time.time()
    with multiprocessing.get_context('fork').Pool(nproc, initializer=_init_worker) as pool:
        results = pool.map(_worker, jobs, chunksize=4)
    run.cov['wall_python_side_s'] = round(_time.time() - _t0, 1)

    # ---------------------------------------------------------------- direct oracle (no Lean needed)
    feats, errors, conv_errors = {}, [], 0
    failing = []
    for r, (pj, allow_else, both) in zip(results, jobs):
        for ft in r['features']:
            feats[ft] = feats.get(ft, 0) + 1
        if r['error']:
            if r['error'].startswith('HARNESS') or r['error'] == 'RecursionError':
                errors.append((r['key'], r['error']))
            else:
                conv_errors += 1      # a failure of the whole pipeline: reported by the C01 check, not by this part
        for fl in r['fail']:
            failing.append((r, pj, dict(fl, what=fl.get('what') or
                                        'function after the three jump passes differs from the original (outcome/log/G)')))
        for k in range(r['nruns']):
            run.case(('run', r['key'], k), True)
    if len(errors) > max(3, len(jobs) // 50):
        raise common.InfraError('harness problems on %d programs, e.g. %r' % (len(errors), errors[:2]))
    run.cov['programs'] = len(jobs)
    run.cov['streams'] = info
    run.cov['features'] = feats
    run.cov['conversion_errors'] = conv_errors
    run.cov['harness_skipped'] = len(errors)
    run.oblige('assumption:no-skip-processing', 'assumption', not any(r['skip_anno'] for r in results), '')

    # ---------------------------------------------------------------- Lean side
    lines, meta = [], []

    def add(line, m):
        lines.append(line)
        meta.append(m)

    def runs_sexp(runs):
        return sexp([[[_arg(a) for a in rr['args']], [str(x) for x in rr['dec']]] for rr in runs])
    if run.driver_ok:
        for ri, (r, (pj, allow_else, both)) in enumerate(zip(results, jobs)):
            if r['source_fn'] is None:
                continue
            add('c01j.class ' + r['source_fn'], ('class', ri))
            if not allow_else and r['runs']:
                add('c01j.execs %s %s %d' % (r['source_fn'], runs_sexp(r['runs']), FUEL), ('exec-src', ri, None))
            for pi, rec in enumerate(r['records']):
                args = '%s %s %s %s' % (rec['before'], rec['annos'], rec['ns'], rec['gen'])
                add('c01j.pass %s %s' % (rec['which'], args), ('pass', ri, pi))
                if rec['recursive'] and not allow_else and r['runs'] and rec['before'] != rec['after']:
                    # the REAL pass output, executed by the Lean semantics
                    add('c01j.execs %s %s %d' % (rec['after'], runs_sexp(r['runs'][:6]), FUEL), ('exec-after', ri, pi))
        _t1 = _time.time()
        answers = drive_parallel(run, lines) if lines else []
        run.cov['wall_lean_driver_s'] = round(_time.time() - _t1, 1)
    else:
        answers = []
        run.oblige('correspondence:c01j', 'correspondence', False, 'driver unavailable')

    classes = {}
    stat = {}

    def bump(k, n=1):
        stat[k] = stat.get(k, 0) + n
    dis = {'pass': {}, 'calls': {}, 'tie': [], 'exec-src': [], 'exec-after': [], 'classAgree': []}
    hyp = {'inS1': 0, 'inS0': 0, 'not_inS1': 0}
    changed = {}
    for m, ans in zip(meta, answers):
        kind = m[0]
        r = results[m[1]]
        if ans in ('bad-args', 'bad-op', 'bad-line'):
            raise common.InfraError('driver could not parse a request (%s): %r' % (ans, m))
        a = parse_sexp(ans)
        if kind == 'class':
            d = dict((x[0], x[1] == 'True') for x in a)
            classes[m[1]] = CLS_EXEMPT if d['jumpInFinally'] else (
                CLS_FINDING if d['raiseInFinallyOverJump'] else (CLS_TRYELSE if d.get('jumpInTryBodyWithElse') else None))
    for m, ans in zip(meta, answers):
        kind = m[0]
        r = results[m[1]]
        a = parse_sexp(ans)
        if kind == 'pass':
            rec = r['records'][m[2]]
            w = rec['which']
            run.case(('pass', r['key'], w, rec['recursive']), rec['before'] != rec['after'])
            if a[0] != 'ok':
                dis['pass'].setdefault(w, []).append({'program': r['key'], 'model': ans[:300]})
                continue
            model_tree = _canon_tree(sexp(a[1][0])) if len(a[1]) == 1 else ['NOT-SINGLE'] + a[1]
            real_tree = _canon_tree(rec['after'])
            bump('pass:' + w)
            if rec['before'] != rec['after']:
                changed[w] = changed.get(w, 0) + 1
            if model_tree != real_tree:
                dis['pass'].setdefault(w, []).append({'program': r['key'], 'source': _fn_src(jobs[m[1]][0]),
                                                      'diff': _first_diff(model_tree, real_tree)})
            if [list(c) for c in a[2]] != [list(c) for c in rec['calls']]:
                dis['calls'].setdefault(w, []).append({'program': r['key'], 'model': a[2], 'real': rec['calls']})
            t = a[3]
            head = t[0]
            if rec['recursive']:
                flags = dict((x[0], x[1] == 'True') for x in t[1:] if isinstance(x, list) and len(x) == 2)
                bump('tie:%s:%s' % (w, head))
                if head == 'diff':
                    dis['tie'].append({'program': r['key'], 'pass': w, 'source': _fn_src(jobs[m[1]][0])})
                if head in ('ok', 'diff'):
                    run.case(('tie', r['key'], w), rec['before'] != rec['after'])
                    if flags.get('inS1'):
                        hyp['inS1'] += 1
                    else:
                        hyp['not_inS1'] += 1
                    if flags.get('inS0'):
                        hyp['inS0'] += 1
                    if w == 'break' and not flags.get('classAgree', True):
                        dis['classAgree'].append({'program': r['key']})
                    if not flags.get('userNames', True):
                        dis['tie'].append({'program': r['key'], 'pass': w, 'what': 'GenNamesFresh fails'})
        elif kind in ('exec-src', 'exec-after'):
            if a[0] == 'skip':
                bump(kind + ':outside-fragment')
                continue
            for k, one in enumerate(a[1:]):
                rr = r['runs'][k]
                if one[0] == 'nofuel':
                    bump(kind + ':nofuel')
                    continue
                bump(kind + ':compared')
                run.case((kind, r['key'], m[2], k), len(rr['log']) > 0)
                want = [rr['out'], rr['log']]
                got = [one[1], one[2]]
                if not _same_obs(want, got):
                    # the lowered program of a finding-class program legitimately differs from the original
                    if kind == 'exec-after' and classes.get(m[1]) is not None:
                        bump(kind + ':differs-in-known-class')
                        continue
                    dis[kind].append({'program': r['key'], 'source': _fn_src(jobs[m[1]][0]), 'args': rr['args'],
                                      'dec': rr['dec'], 'cpython': want, 'lean': got,
                                      'pass': r['records'][m[2]]['which'] if kind == 'exec-after' else None})
    if run.driver_ok:
        for w in ('break', 'continue', 'rewrite', 'return'):
            d = dis['pass'].get(w, [])
            run.oblige('correspondence:pass-%s' % w, 'correspondence', not d, json.dumps(d[:2])[:1800] if d else '')
            d = dis['calls'].get(w, [])
            run.oblige('correspondence:new_symbol-%s' % w, 'correspondence', not d, json.dumps(d[:2])[:1800] if d else '')
        run.oblige('correspondence:tie-model-vs-sem-lowering', 'correspondence', not dis['tie'],
                   json.dumps(dis['tie'][:2])[:1800] if dis['tie'] else '')
        run.oblige('correspondence:class-predicates-agree', 'correspondence', not dis['classAgree'],
                   json.dumps(dis['classAgree'][:3]) if dis['classAgree'] else '')
        run.oblige('validation:sem-core-vs-cpython-source', 'correspondence', not dis['exec-src'],
                   json.dumps(dis['exec-src'][:2])[:1800] if dis['exec-src'] else '')
        run.oblige('validation:sem-core-vs-cpython-pass-output', 'correspondence', not dis['exec-after'],
                   json.dumps(dis['exec-after'][:2])[:1800] if dis['exec-after'] else '')
        run.cov['lean_lines'] = len(lines)
        run.cov['agreement'] = stat
        run.cov['passes_that_changed_the_tree'] = changed
        run.cov['theorem_hypotheses'] = hyp
        run.cov['exhaustive'] = bool(info.get('skeleton_4_3', {}).get('exhaustive'))

    # ---------------------------------------------------------------- classify failing inputs
    exempt = 0
    for r, pj, fl in failing:
        ri = results.index(r)
        cls = classes.get(ri)
        if cls == CLS_EXEMPT:
            exempt += 1
            continue
        run.fail(fl['what'], {'program': pj, 'detail': fl}, cls)
    run.cov['failing_in_exempt_class_jump_in_finally'] = exempt
    run.cov['three_pass_oracle_executions'] = sum(r['oracle3'] for r in results)
    for r, (pj, allow_else, both) in list(zip(results, jobs))[:4000:997]:
        run.sample({'program': r['key'], 'features': r['features'], 'passes': [x['which'] for x in r['records']],
                    'first_run': r['runs'][0] if r['runs'] else None})
    run.cov['search'] = ('direct oracle: original vs the function compiled from the real tree after the three jump '
                         'passes, on %d programs x inputs x decision vectors (%d executions); every broken '
                         'correspondence case is part of that set' % (len(jobs), sum(r['oracle3'] for r in results)))
    return results


def drive_parallel(run, lines, nproc=None):
    """Like Run.drive, over several driver processes (requests are independent)."""
    import subprocess
    from concurrent.futures import ThreadPoolExecutor
    nproc = nproc or min(16, os.cpu_count() or 4)
    n = len(lines)
    size = max(1, (n + nproc - 1) // nproc)
    chunks = [lines[i:i + size] for i in range(0, n, size)]

    def one(chunk):
        p = subprocess.run([common.driver_path(run.prop)], input='\n'.join(chunk) + '\n', text=True,
                           stdout=subprocess.PIPE, stderr=subprocess.PIPE, timeout=1800)
        if p.returncode != 0:
            raise common.InfraError('driver exited %d: %s' % (p.returncode, p.stderr[-500:]))
        out = p.stdout.split('\n')
        if out and out[-1] == '':
            out.pop()
        if len(out) != len(chunk):
            raise common.InfraError('driver answered %d lines for %d requests' % (len(out), len(chunk)))
        return out
    with ThreadPoolExecutor(len(chunks)) as ex:
        outs = list(ex.map(one, chunks))
    return [x for o in outs for x in o]


def _fn_src(pj):
    import progen
    src = pj['source']
    for pre in (progen.RANDOM_PRELUDE, progen.PRELUDE):
        if src.startswith(pre):
            return src[len(pre):]
    return src


def _arg(a):
    if isinstance(a, list):
        return ['list'] + [str(x) for x in a]
    return str(a)


def _same_obs(want, got):
    return _norm(want) == _norm(got)


def _norm(x):
    if isinstance(x, list):
        return [_norm(e) for e in x]
    return str(x)


def _first_diff(a, b, path=''):
    if type(a) != type(b):
        return {'at': path, 'model': str(a)[:200], 'real': str(b)[:200]}
    if isinstance(a, list):
        for i, (x, y) in enumerate(zip(a, b)):
            if x != y:
                return _first_diff(x, y, path + '/%s' % (a[0] if a and isinstance(a[0], str) else i))
        if len(a) != len(b):
            return {'at': path, 'model_len': len(a), 'real_len': len(b), 'model': str(a)[:300], 'real': str(b)[:300]}
        return None
    if a != b:
        return {'at': path, 'model': a, 'real': b}
    return None
