"""C08 — CPython's own view (symtable) of a function tree, the 3.12 comprehension-inlining adapter for the
Lean specification's output, and the per-function classification read off the implementation's scopes."""
import ast, symtable

FLAGS = [('L', 'is_local'), ('P', 'is_parameter'), ('G', 'is_global'), ('D', 'is_declared_global'),
         ('N', 'is_nonlocal'), ('F', 'is_free')]


def sym_flags(s):
    return ''.join(c for c, f in FLAGS if getattr(s, f)())


def symtable_top(source, fname='f'):
    """symtable block of the (last) top-level function `fname`; raises SyntaxError for invalid programs."""
    top = symtable.symtable(source, '<c08>', 'exec')
    cands = [c for c in top.get_children() if c.get_name() == fname and c.get_type() == 'function']
    if not cands:
        raise ValueError('no top-level function %r' % fname)
    return cands[-1]


def flatten_symtable(block, lineno_shift=0):
    """-> sorted list of (type, name, lineno, ((sym, flags), ...)) for the block and all blocks below."""
    out = []

    def rec(b):
        syms = tuple(sorted((s.get_name(), sym_flags(s)) for s in b.get_symbols() if s.get_name() != '.0'))
        out.append((b.get_type(), b.get_name(), b.get_lineno() + lineno_shift, syms))
        for c in b.get_children():
            rec(c)
    rec(block)
    return sorted(out)


_SCOPE_FLAGS = {'local': 'L', 'global-explicit': 'GD', 'global-implicit': 'G', 'free': 'F'}
_COMPS = ('listcomp', 'setcomp', 'dictcomp')


def spec_blocks(spec_sx, lineno_of, inline=True):
    """Lean `c08.spec` answer (parsed S-expression) -> the same flat form as flatten_symtable.
    inline=True applies CPython 3.12's comprehension inlining (PEP 709, symtable.c inline_comprehension):
    list/set/dict comprehension blocks are merged into the enclosing block, bottom-up; a symbol of the
    comprehension is copied only if the enclosing block has no symbol of that name; the comprehension's
    children become children of the enclosing block."""
    blocks = {}
    order = []
    for b in spec_sx:
        bid, parent, kind, name, syms = int(b[0]), int(b[1]), b[2], b[3], b[4]
        d, late = {}, {}
        for s in syms:
            fl = _SCOPE_FLAGS[s[1]]
            if s[2] == 'True':
                fl = 'P' + fl
            if s[3] == 'True':
                fl = fl + 'N'
            # names only passed through for nested blocks are entered after the children are processed
            # (symtable.c update_symbols runs after the comprehensions have been inlined)
            (late if (inline and s[4] == 'True') else d)[s[0]] = fl
        blocks[bid] = {'id': bid, 'parent': parent, 'kind': kind, 'name': name, 'syms': d, 'late': late}
        order.append(bid)
    if inline:
        kids = {}
        for bid in order:
            kids.setdefault(blocks[bid]['parent'], []).append(bid)

        def process(bid):
            # analyze_block: each child is analysed (and its own comprehensions inlined) and then, if it is
            # a list/set/dict comprehension, inlined into this block — in source order
            b = blocks[bid]
            for cid in list(kids.get(bid, [])):
                process(cid)
                c = blocks[cid]
                if c['kind'] in _COMPS:
                    # "comprehension targets aside": the targets of the inlined comprehension (and those
                    # already merged into it) are not compared in the block that absorbs them
                    b.setdefault('aside', set()).update(k for k, fl in c['syms'].items() if 'L' in fl)
                    b['aside'].update(c.get('aside', ()))
                    for k, fl in c['syms'].items():
                        if k not in b['syms']:
                            b['syms'][k] = fl
                    for gid in kids.get(cid, []):
                        blocks[gid]['parent'] = bid
                    c['dead'] = True
            for k, fl in b['late'].items():
                if k not in b['syms']:
                    b['syms'][k] = fl
            # an inlined iteration variable that a nested block also needs from further out is turned into a
            # cell of this block by CPython (analyze_cells after inlining) and is then no longer passed on to
            # the enclosing blocks: leave those names out of the comparison in the enclosing blocks as well
            if b.get('aside') and b['parent'] in blocks:
                blocks[b['parent']].setdefault('aside_up', set()).update(b['aside'])
            if b.get('aside_up'):
                b.setdefault('aside', set()).update(b['aside_up'])
                if b['parent'] in blocks:
                    blocks[b['parent']].setdefault('aside_up', set()).update(b['aside_up'])
        for bid in order:
            if blocks[bid]['parent'] not in blocks:
                process(bid)
    out = []
    for bid in order:
        b = blocks[bid]
        if b.get('dead'):
            continue
        typ = 'class' if b['kind'] == 'class' else 'function'
        syms = tuple(sorted((k, ''.join(c for c, _ in FLAGS if c in fl)) for k, fl in b['syms'].items()))
        out.append((typ, b['name'], lineno_of(bid), syms, frozenset(b.get('aside', ()))))
    return sorted(out)


def compare_blocks(sym_flat, spec_flat):
    """Compare flatten_symtable(...) with spec_blocks(...), block group by block group (type, name, lineno),
    leaving out the names set aside in the group.  -> list of differences (empty = equal)."""
    groups = {}
    for t in sym_flat:
        groups.setdefault(t[:3], [[], [], set()])[0].append(t[3])
    for t in spec_flat:
        g = groups.setdefault(t[:3], [[], [], set()])
        g[1].append(t[3]); g[2].update(t[4])
    diffs = []
    for key in sorted(groups):
        a, b, aside = groups[key]
        strip = lambda syms: tuple(x for x in syms if x[0] not in aside)   # noqa: E731
        sa, sb = sorted(strip(x) for x in a), sorted(strip(x) for x in b)
        if sa != sb:
            diffs.append({'block': list(key), 'symtable': [list(map(list, x)) for x in sa], 'spec': [list(map(list, x)) for x in sb],
                          'aside': sorted(aside)})
    return diffs


# ------------------------------------------------------------------------------------------------
# the implementation's per-function classification (what a consumer reads off the Scope objects)
# ------------------------------------------------------------------------------------------------
def parents_map(tree):
    par = {}
    for n in ast.walk(tree):
        for c in ast.iter_child_nodes(n):
            par[id(c)] = n
    return par


def comp_target_names(node):
    """Names stored by the `for` clauses of a comprehension node."""
    out = set()
    for g in node.generators:
        for n in ast.walk(g.target):
            if isinstance(n, ast.Name):
                out.add(n.id)
    return out


COMP_NODES = (ast.ListComp, ast.SetComp, ast.DictComp, ast.GeneratorExp)


def set_aside_names(fn, par):
    """'comprehension targets and except-clause names aside': names that are iteration targets of a
    comprehension lexically inside `fn` or lexically enclosing it, and handler names inside `fn`."""
    out = set()
    for n in ast.walk(fn):
        if isinstance(n, COMP_NODES):
            out |= comp_target_names(n)
        elif isinstance(n, ast.ExceptHandler) and n.name:
            out.add(n.name)
    p = par.get(id(fn))
    while p is not None:
        if isinstance(p, COMP_NODES):
            out |= comp_target_names(p)
        p = par.get(id(p))
    return out


def unshadowed_read_names(fn):
    """Names for which 'comprehension targets aside' does not apply in `fn`: the own block of `fn` (comprehensions
    included; nested def / lambda / class and generator-expression bodies are blocks of their own) has a Load
    occurrence of the name that no enclosing comprehension target hides, and every comprehension of the block that
    has the name as a target lies INSIDE the comprehension containing that occurrence (or the occurrence is outside
    all comprehensions).  Then the occurrence refers to the function's (or an outer) variable, also under CPython
    3.12's inlining of list/set/dict comprehensions (where a *sibling* comprehension's target would capture it).
    (Names that are targets of a comprehension ENCLOSING `fn` are taken out by the caller.)"""
    occ, binders = [], []

    def visit(node, hidden, chain):
        if isinstance(node, (ast.FunctionDef, ast.AsyncFunctionDef)):
            for d in node.decorator_list + node.args.defaults + [k for k in node.args.kw_defaults if k is not None]:
                visit(d, hidden, chain)
            return
        if isinstance(node, ast.Lambda):
            for d in node.args.defaults + [k for k in node.args.kw_defaults if k is not None]:
                visit(d, hidden, chain)
            return
        if isinstance(node, ast.ClassDef):
            for d in node.decorator_list + node.bases + [k.value for k in node.keywords]:
                visit(d, hidden, chain)
            return
        if isinstance(node, ast.GeneratorExp):
            visit(node.generators[0].iter, hidden, chain)
            return
        if isinstance(node, COMP_NODES):
            tg = comp_target_names(node)
            inner, ch = hidden | tg, chain + (id(node),)
            binders.append((tg, ch))
            for k, g in enumerate(node.generators):
                if k == 0:
                    visit(g.iter, hidden, chain)
                else:
                    visit(g.iter, inner, ch)
                for c in g.ifs:
                    visit(c, inner, ch)
            for f in ('elt', 'key', 'value'):
                if hasattr(node, f):
                    visit(getattr(node, f), inner, ch)
            return
        if isinstance(node, ast.Name) and isinstance(node.ctx, ast.Load) and node.id not in hidden:
            occ.append((node.id, chain))
        for c in ast.iter_child_nodes(node):
            visit(c, hidden, chain)
    body = fn.body if isinstance(fn.body, list) else [fn.body]
    for b in body:
        visit(b, frozenset(), ())
    out = set()
    for name, chain in occ:
        if all(name not in tg or (len(ch) > len(chain) and ch[:len(chain)] == chain) for tg, ch in binders):
            out.add(name)
    return out


def enclosing_comp_targets(fn, par):
    out = set()
    p = par.get(id(fn))
    while p is not None:
        if isinstance(p, COMP_NODES):
            out |= comp_target_names(p)
        p = par.get(id(p))
    return out


def simple_names(qns):
    return {q.qn[0] for q in qns if not q.is_composite() and isinstance(q.qn[0], str)}


def impl_classes(impl):
    """For every (non-async) FunctionDef / Lambda of the analysed tree:
    dict(node=…, name, lineno, params, bound, globals, nonlocals, locals, free_vars, frees)."""
    tree = impl.node
    par = parents_map(tree)
    out = []
    for fn in ast.walk(tree):
        if not isinstance(fn, (ast.FunctionDef, ast.Lambda)):
            continue
        s = impl.scope_obj(fn, 'ARGS_AND_BODY_SCOPE')
        a = impl.scope_obj(fn.args, 'SCOPE')
        if s is None or a is None:
            continue
        bound = simple_names(s.bound)
        gl, nl = simple_names(s.globals), simple_names(s.nonlocals)
        free_vars = simple_names(s.read - s.bound)
        # enclosing functions, innermost first (class bodies have no recorded scope: skipped)
        chain = []
        child, p = fn, par.get(id(fn))
        while p is not None:
            # a function encloses what is in its body — not its decorators, defaults or annotations
            inside = (isinstance(p, ast.FunctionDef) and any(child is b for b in p.body)) or \
                     (isinstance(p, ast.Lambda) and child is p.body)
            if inside:
                ps = impl.scope_obj(p, 'ARGS_AND_BODY_SCOPE')
                if ps is not None:
                    chain.append(ps)
            child, p = p, par.get(id(p))

        def resolves_to_function(x):
            for ps in chain:
                if x in simple_names(ps.globals):
                    return False
                if x in simple_names(ps.bound):
                    return True
            return False
        frees = {x for x in (free_vars | nl) - gl if resolves_to_function(x)}
        out.append({'node': fn, 'id': impl.ser.id_of(fn), 'name': getattr(fn, 'name', 'lambda'), 'lineno': fn.lineno,
                    'params': simple_names(a.params.keys()), 'bound': bound, 'globals': gl, 'nonlocals': nl,
                    'locals': bound - gl - nl, 'free_vars': free_vars, 'frees': frees,
                    'aside': set_aside_names(fn, par), 'unshadowed': unshadowed_read_names(fn) - enclosing_comp_targets(fn, par)})
    return out


def symtable_classes(block):
    """For every function block (def / lambda; not comprehensions) below `block` (inclusive):
    dict(name, lineno, params, locals, globals, nonlocals, frees, implicit_globals)."""
    out = []

    def rec(b):
        if b.get_type() == 'function' and b.get_name() not in ('genexpr', 'listcomp', 'setcomp', 'dictcomp'):
            syms = [s for s in b.get_symbols() if s.get_name() != '.0']
            out.append({'name': b.get_name(), 'lineno': b.get_lineno(),
                        'params': {s.get_name() for s in syms if s.is_parameter()},
                        'locals': {s.get_name() for s in syms if s.is_local()},
                        'globals': {s.get_name() for s in syms if s.is_declared_global()},
                        'nonlocals': {s.get_name() for s in syms if s.is_nonlocal()},
                        'frees': {s.get_name() for s in syms if s.is_free()},
                        'implicit_globals': {s.get_name() for s in syms if s.is_global() and not s.is_declared_global()}})
        for c in b.get_children():
            rec(c)
    rec(block)
    return out
