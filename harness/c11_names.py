"""C11 helpers: converter vocabulary, name facts of a program (independent scope analysis), adversarial renamings,
evaluation of one case against the real code.  Nothing here needs Lean.

A *case* is a self-contained dict (replays need nothing else):
  {'source': module text, 'fname': name of the function to convert, 'inputs': [...], 'decisions': [...],
   'recursive': bool, 'late_globals': {name: int}  (module globals created only AFTER conversion),
   'gvar': name of the module counter global (progen's G, possibly renamed), 'role': ..., 'word': ..., 'base': key}
"""
import ast, copy, os, signal, symtable, sys, textwrap

import common

sys.path.insert(0, os.path.join(common.VERIF, 'tools'))

NEUTRAL = 'kq7x'          # control word: not in any vocabulary


# =================================================================================================
# vocabulary (from the translator's scan of the converter sources)
# =================================================================================================
def naming_facts():
    import extract_naming
    extract_naming.REPO = common.REPO
    problems = []
    facts = extract_naming.collect(problems)
    facts['problems'] = problems
    return facts


def vocabulary(facts, fname='f'):
    """word -> kind.  Roots asked for by converters and transpiler, the transformed function name, hard-coded template
    identifiers, `lam`, numbered variants and a few digit-suffix spellings."""
    voc = {}
    for s in facts['conv_sites']:
        if s[2] in ('lit', 'default'):
            voc.setdefault(s[3], 'converter_root')
    for s in facts['tr_sites']:
        if s[2] in ('lit', 'default'):
            voc.setdefault(s[3], 'transpiler_root')
    voc.setdefault((facts['prefix'] or 'ag__') + fname, 'transformed_name')
    for x in facts['fixed'] + facts['extra_locals']:
        voc.setdefault(x, 'fixed')
    voc.setdefault(facts['lam'] or 'lam', 'lambda_name')
    for w in ('fscope', 'lscope'):
        voc.setdefault(w, 'converter_root')
    for base in ('break_', 'continue_', 'get_state', 'set_state', 'if_body', 'loop_body', 'fscope', 'do_return', 'retval_',
                 'itr', 'inner_factory', (facts['prefix'] or 'ag__') + fname):
        voc.setdefault(base + '_1', 'numbered_variant')
    voc.setdefault('break__2', 'numbered_variant')
    voc.setdefault('x_1', 'numbered_variant')
    for r in facts.get('intro_sites', []):
        if r[4] == 'hard':
            voc.setdefault(r[2], 'fixed')          # every identifier written literally at a name-introducing site (tuple, dict, ...)
    voc.setdefault('do_return_01', 'digit_suffix')
    voc.setdefault('fscope_0', 'digit_suffix')
    return voc


# =================================================================================================
# name facts of a function (mirrors what activity.py calls read / bound, written independently)
# =================================================================================================
class _S(object):
    """One isolated scope (function / lambda / class body)."""

    def __init__(self, kind):
        self.kind = kind
        self.read = set()       # reads that reach this scope
        self.bound = set()
        self.nonlocals = set()  # names declared nonlocal / global in this scope's own blocks: bound here by the analysis'
        self.globals = set()    # convention, but they denote a variable of an ENCLOSING scope


class _Facts(ast.NodeVisitor):
    def __init__(self):
        self.stack = []
        self.comp = []           # stack of sets: targets of the enclosing comprehensions
        self.bound_all = set()
        self.read_any = set()
        self.idents = set()
        self.nested_kinds = {}   # name -> kinds of nested scopes that bind it: function | lambda | class | comp | nonlocal

    @property
    def cur(self):
        return self.stack[-1]

    # ---- helpers
    def _read(self, name):
        self.read_any.add(name)
        for t in self.comp:
            if name in t:
                return                      # reads of comprehension targets are ignored by activity.py
        self.cur.read.add(name)

    def _bind(self, name):
        self.bound_all.add(name)
        if self.comp:
            self.comp[-1].add(name)         # stores inside a comprehension are its targets, not scope bindings
            self.nested_kinds.setdefault(name, set()).add('comp')
            return
        if len(self.stack) > 1:
            self.nested_kinds.setdefault(name, set()).add(self.cur.kind)
        self.cur.bound.add(name)

    def _leave(self, child):
        """isolated scope exit: parent.read |= child.read - (child.bound - child.nonlocals - child.globals): reading a name
        the nested scope declares nonlocal / global reads the enclosing variable (Scope.finalize, isolated branch)"""
        self.cur.read |= (child.read - (child.bound - child.nonlocals - child.globals))

    # ---- visitors
    def visit_Name(self, node):
        self.idents.add(node.id)
        if isinstance(node.ctx, ast.Load):
            self._read(node.id)
        elif isinstance(node.ctx, ast.Store):
            self._bind(node.id)
            if getattr(node, '_aug', False):
                self._read(node.id)
        else:
            self._read(node.id)
            self._bind(node.id)

    def visit_AugAssign(self, node):
        if isinstance(node.target, ast.Name):
            node.target._aug = True
        self.visit(node.target)
        self.visit(node.value)

    def visit_Global(self, node):
        for n in node.names:
            self.idents.add(n)
            self.read_any.add(n)
            self.cur.read.add(n)
            self.cur.globals.add(n)

    def visit_Nonlocal(self, node):
        for n in node.names:
            self.idents.add(n)
            self.read_any.add(n)
            self.cur.read.add(n)
            self.cur.bound.add(n)
            self.cur.nonlocals.add(n)
            self.bound_all.add(n)
            if len(self.stack) > 1:
                self.nested_kinds.setdefault(n, set()).add('nonlocal')

    def visit_alias(self, node):
        n = node.asname if node.asname else node.name.split('.')[0]
        self.idents.add(n)
        self.bound_all.add(n)
        self.cur.bound.add(n)

    def _args(self, args):
        for a in args.posonlyargs + args.args + args.kwonlyargs + ([args.vararg] if args.vararg else []) + ([args.kwarg] if args.kwarg else []):
            self.idents.add(a.arg)
            self.bound_all.add(a.arg)
            self.cur.bound.add(a.arg)
            if len(self.stack) > 1:
                # parameters of nested functions LEAK into the enclosing scope's `bound` on the pinned tree (activity.visit_arg
                # ignores _track_annotations_only; C08 finding): the enclosing block then re-initialises the name
                self.nested_kinds.setdefault(a.arg, set()).add('param')

    def _function(self, node, is_lambda):
        if self.stack:       # decorators and defaults are evaluated in the ENCLOSING scope (none when this is the root)
            if not is_lambda:
                for d in node.decorator_list:
                    self.visit(d)
            for d in node.args.defaults + [k for k in node.args.kw_defaults if k is not None]:
                self.visit(d)
        if not is_lambda:
            self.idents.add(node.name)
            if self.stack:
                self.bound_all.add(node.name)
                self.cur.bound.add(node.name)
        s = _S('lambda' if is_lambda else 'function')
        saved_comp, self.comp = self.comp, ([] if not is_lambda else self.comp)
        self.stack.append(s)
        self._args(node.args)
        if is_lambda:
            self.visit(node.body)
        else:
            for st in node.body:
                self.visit(st)
        self.stack.pop()
        self.comp = saved_comp
        if self.stack:
            self._leave(s)
        return s

    def visit_FunctionDef(self, node):
        return self._function(node, False)

    visit_AsyncFunctionDef = visit_FunctionDef

    def visit_Lambda(self, node):
        return self._function(node, True)

    def visit_ClassDef(self, node):
        for d in node.decorator_list + node.bases + [k.value for k in node.keywords]:
            self.visit(d)
        self.idents.add(node.name)
        self.bound_all.add(node.name)
        self.cur.bound.add(node.name)
        s = _S('class')
        self.stack.append(s)
        for st in node.body:
            self.visit(st)
        self.stack.pop()
        self._leave(s)

    def _comprehension(self, node, elts):
        self.comp.append(set())
        for g in node.generators:
            self.visit(g.iter)
            self.visit(g.target)
            for i in g.ifs:
                self.visit(i)
        for e in elts:
            self.visit(e)
        self.comp.pop()

    def visit_ListComp(self, node):
        self._comprehension(node, [node.elt])

    visit_SetComp = visit_ListComp
    visit_GeneratorExp = visit_ListComp

    def visit_DictComp(self, node):
        self._comprehension(node, [node.key, node.value])

    def visit_ExceptHandler(self, node):
        if node.name:
            self.idents.add(node.name)
            self.bound_all.add(node.name)
        self.generic_visit(node)


def _find_function(tree, fname):
    """The FunctionDef named fname: at module level, or directly inside the module-level factory `_mk`;
    or the Lambda of a module-level `fname = lambda ...`."""
    for n in tree.body:
        if isinstance(n, ast.FunctionDef) and n.name == fname:
            return n, None
    for n in tree.body:
        if isinstance(n, ast.Assign) and len(n.targets) == 1 and isinstance(n.targets[0], ast.Name) and n.targets[0].id == fname \
                and isinstance(n.value, ast.Lambda):
            return n.value, None
    for n in tree.body:
        if isinstance(n, ast.FunctionDef) and n.name == '_mk':
            for m in n.body:
                if isinstance(m, ast.FunctionDef) and m.name == fname:
                    return m, n
    return None, None


def _free_names(source, fname, is_lambda=False):
    """Names read in the function's text that resolve outside it (CPython's symtable).  For a lambda entity the module
    must contain exactly one top-level lambda (the harness' lambda templates do)."""
    top = symtable.symtable(source, '<c11>', 'exec')

    def find(tab):
        for ch in tab.get_children():
            if ch.get_type() == 'function' and ch.get_name() == fname:
                return ch
        if is_lambda:
            for ch in tab.get_children():
                if ch.get_type() == 'function' and ch.get_name() == 'lambda':
                    return ch
        for ch in tab.get_children():
            if ch.get_name() == '_mk':
                r = find(ch)
                if r is not None:
                    return r
        return None
    ft = find(top)
    out = set()
    if ft is None:
        return out

    def rec(tab, is_root):
        for s in tab.get_symbols():
            if not s.is_referenced():
                continue
            if s.is_global() or (is_root and s.is_free()):
                out.add(s.get_name())
        for ch in tab.get_children():
            rec(ch, False)
    rec(ft, True)
    return out


def user_fn_facts(source, fname, lambda_name='lam'):
    """dict(name, bound, read, readLocal, free, idents): sorted lists.  `read` = reads reaching the body scope."""
    tree = ast.parse(source)
    fn, _ = _find_function(tree, fname)
    if fn is None:
        raise ValueError('function %s not found' % fname)
    v = _Facts()
    is_lambda = isinstance(fn, ast.Lambda)
    s = v._function(copy.deepcopy(fn), is_lambda)
    read = set(s.read)
    if is_lambda:
        # FunctionTransformer.visit_Lambda reserves the Lambda NODE's scope (its definition context), to which only
        # `read - bound` of the lambda is passed on: seen from there the lambda's own body is a nested scope
        read = read - s.bound
    star, kw = call_shapes(fn)
    return {'name': lambda_name if is_lambda else fname, 'bound': sorted(v.bound_all), 'read': sorted(read),
            'readLocal': sorted(v.read_any - read), 'free': sorted(_free_names(source, fname, is_lambda)),
            'idents': sorted(v.idents - {fname} | (v.idents & read)), 'starCalls': star, 'kwCalls': kw,
            # read only inside nested DEFs that bind it as a plain local (not a parameter): the outer generated name and that
            # local are different variables (no sharing through nonlocal, no capture as in lambdas / comprehensions)
            'nestedDefOnly': [] if is_lambda else sorted(x for x in (v.read_any - read) if v.nested_kinds.get(x, set()) <= {'function'}
                                                          and v.nested_kinds.get(x))}


def call_shapes(fn):
    """(has a call with a *args argument, has a call with keyword / **kw arguments) anywhere in the function text:
    call_trees.py lowers those through the bare builtins `tuple(...)` / `dict(...)`."""
    star = kw = False
    for n in ast.walk(fn):
        if isinstance(n, ast.Call):
            star = star or any(isinstance(a, ast.Starred) for a in n.args)
            kw = kw or bool(n.keywords)
    return star, kw


def node_facts(fn, module_names):
    """Name facts of an arbitrary FunctionDef node that is NOT converted (the /repo corpus): `free` = reads leaving the
    function by the activity rules, `ns` = the module's top-level names (approximation of globals; no closure), block
    variables approximated by the simple names stored inside if/while/for statements."""
    v = _Facts()
    s = v._function(copy.deepcopy(fn), False)
    read = set(s.read)
    star, kw = call_shapes(fn)
    blocks = set()
    for n in ast.walk(fn):
        if isinstance(n, (ast.If, ast.While, ast.For)):
            for m in ast.walk(n):
                if isinstance(m, ast.Name) and isinstance(m.ctx, ast.Store):
                    blocks.add(m.id)
    return {'name': fn.name, 'bound': sorted(v.bound_all), 'read': sorted(read), 'readLocal': sorted(v.read_any - read),
            'free': sorted(read - (s.bound - s.nonlocals - s.globals)), 'idents': sorted(v.idents), 'starCalls': star, 'kwCalls': kw,
            'blockVarRoots': sorted(blocks), 'ns': sorted(module_names)}


def block_var_roots(final_source):
    """Root names of the `symbol_names` of every lowered if/while/for statement in the generated code."""
    out = set()
    if not final_source:
        return []
    try:
        tree = ast.parse(final_source)
    except SyntaxError:
        return []
    pos = {'if_stmt': 5, 'for_stmt': 5, 'while_stmt': 4}
    for n in ast.walk(tree):
        if isinstance(n, ast.Call) and isinstance(n.func, ast.Attribute) and n.func.attr in pos and len(n.args) > pos[n.func.attr]:
            t = n.args[pos[n.func.attr]]
            if isinstance(t, ast.Tuple):
                for e in t.elts:
                    if isinstance(e, ast.Constant) and isinstance(e.value, str):
                        out.add(e.value.split('.')[0].split('[')[0])
    return sorted(out)


# =================================================================================================
# adversarial variants
# =================================================================================================
class _Rename(ast.NodeTransformer):
    def __init__(self, old, new):
        self.old, self.new = old, new

    def visit_Name(self, node):
        if node.id == self.old:
            node.id = self.new
        return node

    def visit_arg(self, node):
        if node.arg == self.old:
            node.arg = self.new
        return node

    def visit_FunctionDef(self, node):
        if node.name == self.old:
            node.name = self.new
        self.generic_visit(node)
        return node

    def visit_ClassDef(self, node):
        if node.name == self.old:
            node.name = self.new
        self.generic_visit(node)
        return node

    def visit_Global(self, node):
        node.names = [self.new if n == self.old else n for n in node.names]
        return node

    visit_Nonlocal = visit_Global


def _stmt(src):
    return ast.parse(textwrap.dedent(src)).body


def _blocks(fn, include_nested=False, loops_only=False):
    """Statement lists inside fn where a statement may be inserted: (list, inside_loop)."""
    out = []

    def rec(body, inloop, nested):
        if not loops_only or inloop:
            out.append((body, inloop))
        for st in body:
            if isinstance(st, (ast.FunctionDef, ast.ClassDef)):
                if include_nested and isinstance(st, ast.FunctionDef):
                    rec(st.body, False, True)
                continue
            for field in ('body', 'orelse', 'finalbody'):
                b = getattr(st, field, None)
                if isinstance(b, list) and b and isinstance(b[0], ast.stmt):
                    rec(b, inloop or (field == 'body' and isinstance(st, (ast.For, ast.While))), nested)
            for h in getattr(st, 'handlers', []) or []:
                rec(h.body, inloop, nested)
    rec(fn.body, False, False)
    return out


def _insert(fn, stmts, rng, loops_only=False, at_start=False):
    """Insert statements at a random legal position (never after a jump that ends a block)."""
    if at_start:
        k = 0
        while k < len(fn.body) and isinstance(fn.body[k], (ast.Global, ast.Nonlocal)):
            k += 1
        fn.body[k:k] = stmts
        return True
    blocks = _blocks(fn, loops_only=loops_only)
    if not blocks:
        return False
    body, _ = blocks[rng.randrange(len(blocks))]
    lim = len(body)
    for i, st in enumerate(body):
        if isinstance(st, (ast.Return, ast.Raise, ast.Break, ast.Continue)):
            lim = i
            break
    lo = 0
    while lo < len(body) and isinstance(body[lo], (ast.Global, ast.Nonlocal)):
        lo += 1
    pos = rng.randrange(lo, max(lo, lim) + 1)
    body[pos:pos] = stmts
    return True


def _add_probes(fn, word):
    """(iii) reads of the adversarially named variable at observation points: after every top-level loop / if and
    before the final return."""
    new = []
    for st in fn.body:
        if isinstance(st, ast.Return):
            new.extend(_stmt("tr('probe', %s)" % word))
        new.append(st)
        if isinstance(st, (ast.For, ast.While, ast.If, ast.With, ast.Try)):
            new.extend(_stmt("tr('probe', %s)" % word))
    fn.body = new


ROLES = ['assigned_only', 'assigned_only_in_loop', 'read_only_global', 'parameter', 'local', 'global_var', 'closure_free_var',
         'closure_nonlocal', 'nested_function_called', 'nested_function_uncalled', 'loop_target_read', 'loop_target_unread',
         'nested_parameter', 'lambda_parameter', 'comprehension_target', 'nonlocal_in_nested', 'with_target', 'import_alias',
         'function_name', 'late_global', 'loop_var_modified', 'two_locals_numbered', 'local_in_nested_def_loop',
         'attribute_name', 'keyword_name', 'bound_with_star_call', 'bound_with_keyword_call', 'parameter_with_star_and_keyword_call',
         # the word is bound by the outer function but MENTIONED ONLY inside a nested scope, in every position kind
         'nested_only_value', 'nested_only_annotation_and_value', 'nested_only_annotation', 'nested_only_default',
         'nested_only_decorator', 'nested_only_keyword_value', 'nested_keyword_name', 'lambda_only_value', 'class_body_only_value',
         'comprehension_only_value',
         # requests separated by scopes with different user names
         'outer_plain_loop_then_nested_local_loop', 'outer_plain_while_then_nested_local_while', 'sibling_nested_functions',
         # the word is a function-level user name (local / parameter / free) read in an OUTER comprehension AFTER an inner
         # comprehension that reuses it as its own target; position (element / condition / later iterable) and the outer
         # comprehension kind (list / set / generator / dict) are drawn per group; the snippet's for loop with break, continue
         # and branches makes the converter request itr, break_, continue_, loop_body, get_state, if_body, ... in the same function
         'inner_comp_target_outer_read:local', 'inner_comp_target_outer_read:parameter', 'inner_comp_target_outer_read:free']
COMP_POSITIONS = ('element', 'condition', 'later_iterable')
COMP_KINDS = ('list', 'set', 'generator', 'dict')


def _inner_comp_snippet(word, position, kind, inner_kind, loop):
    inner = ('sum(%s for %s in kq_cell)' if inner_kind == 'generator' else 'sum([%s for %s in kq_cell])') % (word, word)
    if position == 'element':
        key, elt, gens = 'len(kq_cell)', '%s * %s' % (inner, word), 'for kq_cell in kq_row'
    elif position == 'condition':
        key, elt, gens = 'len(kq_cell)', 'len(kq_cell) + 1', 'for kq_cell in kq_row if %s < %s + 100' % (inner, word)
    else:
        key, elt = 'kq_a * 10 + kq_b', 'kq_b + kq_a'
        gens = 'for kq_a in [%s for kq_cell in kq_row] for kq_b in range(min(abs(%s), 2))' % (inner, word)
    comp = {'list': '[%s %s]' % (elt, gens), 'set': 'sorted({%s %s})' % (elt, gens), 'generator': 'sum(%s %s)' % (elt, gens),
            'dict': 'sorted({%s: %s %s}.items())' % (key, elt, gens)}[kind]
    if loop == 'for':
        head = "for kq_row in kq_rows:\n"
        tail = ""
    else:
        head = "kq_n = 0\nwhile kq_n < len(kq_rows):\n    kq_row = kq_rows[kq_n]\n    kq_n += 1\n"
        tail = ""
    return ("kq_rows = [[(1, 2), (3,)], [(4, 5)]]\nkq_out = []\n" + head +
            "    if len(kq_row) > 5:\n        break\n    if len(kq_row) > 4:\n        continue\n"
            "    kq_out = kq_out + [%s]\n" % comp + tail + "tr('ict', kq_out)")

NESTED_ONLY = {
    # role: (statements at the START of the function binding the word, statements inserted later that mention it only in a nested scope)
    'nested_only_value': ("{W} = 3", "def kq_g(kq_v):\n    return tr('nv', {W} + kq_v)\ntr('nvc', kq_g(1))"),
    'nested_only_annotation_and_value': ("{W} = int", "def kq_g(kq_v):\n    kq_o: {W} = {W}(kq_v)\n    return kq_o\ntr('nav', kq_g(2))"),
    'nested_only_annotation': ("{W} = int", "def kq_g(kq_v):\n    kq_o: {W} = kq_v\n    return kq_o\ntr('na', kq_g(2))"),
    'nested_only_default': ("{W} = 3", "def kq_g(kq_v={W}):\n    return kq_v\ntr('nd', kq_g())"),
    'nested_only_decorator': ("def kq_id(kq_f):\n    return kq_f\n{W} = kq_id", "@{W}\ndef kq_g():\n    return 5\ntr('ndc', kq_g())"),
    'nested_only_keyword_value': ("{W} = 3", "def kq_g():\n    return cm(tag={W}).tag\ntr('nkv', kq_g())"),
    'nested_keyword_name': ("kq_u = 0", "def kq_g():\n    return dict({W}=2)['{W}']\ntr('nkn', kq_g())"),
    'lambda_only_value': ("{W} = 3", "kq_l = lambda kq_v: tr('lv', {W} + kq_v)\ntr('lvc', kq_l(1))"),
    'class_body_only_value': ("{W} = 3", "class kq_C(object):\n    kq_a = {W}\ntr('cb', kq_C.kq_a)"),
    'comprehension_only_value': ("{W} = 3", "tr('cv', [{W} + kq_q for kq_q in (1, 2)])"),
}
SEPARATED = {
    'outer_plain_loop_then_nested_local_loop':
        "for kq_a in range(2):\n    tr('ol', kq_a)\ndef kq_h(kq_p):\n    {W} = kq_p\n    for kq_i in range(4):\n        if kq_i > {W}:\n            break\n"
        "        if kq_i == 0:\n            continue\n        {W} = {W} + 1\n    return {W}\ntr('nh', kq_h(1))",
    'outer_plain_while_then_nested_local_while':
        "kq_a = 0\nwhile kq_a < 2:\n    kq_a += 1\ndef kq_h(kq_p):\n    {W} = kq_p\n    kq_i = 0\n    while kq_i < 4:\n        kq_i += 1\n        if kq_i > {W} + 1:\n            break\n"
        "        if kq_i == 1:\n            continue\n        {W} = {W} + 1\n    return {W}\ntr('nhw', kq_h(1))",
    'sibling_nested_functions':
        "def kq_a(kq_p):\n    kq_s = 0\n    for kq_i in range(kq_p):\n        kq_s += kq_i\n    return kq_s\n"
        "def kq_b(kq_p):\n    {W} = kq_p\n    for kq_i in range(4):\n        if kq_i > {W}:\n            break\n        if kq_i == 1:\n            continue\n"
        "        {W} = {W} + 1\n    if {W} > 2:\n        return {W}\n    return {W} + 10\ntr('sib', kq_a(3), kq_b(1))",
}

# roles in which the word is read in the function's own blocks: the hypothesis of C11_disjoint_partial holds for it
READ_ROLES = {'read_only_global', 'parameter', 'local', 'global_var', 'closure_free_var', 'closure_nonlocal',
              'nested_function_called', 'loop_target_read', 'loop_var_modified', 'two_locals_numbered',
              'local_in_nested_def_loop', 'attribute_name', 'keyword_name', 'bound_with_star_call', 'bound_with_keyword_call',
              'parameter_with_star_and_keyword_call', 'nonlocal_in_nested', 'inner_comp_target_outer_read:local',
              'inner_comp_target_outer_read:parameter', 'inner_comp_target_outer_read:free'} | set(NESTED_ONLY)


def make_variant(prog_json, role, word, rng):
    """Build the case dict for (base program, role, word); None when the role does not apply to this program.
    `rng` must be a fresh Random seeded identically for the adversarial word and for the control word."""
    source, fname = prog_json['source'], prog_json.get('fname', 'f')
    tree = ast.parse(source)
    fn, _ = _find_function(tree, fname)
    if fn is None:
        return None
    # names the word must not collide with: every identifier of the function itself and every name the module binds
    # (not names the prelude merely reads, such as the builtins tuple / dict)
    used = {n.id for n in ast.walk(fn) if isinstance(n, ast.Name)} | {a.arg for a in ast.walk(tree) if isinstance(a, ast.arg)} \
        | {n.name for n in ast.walk(tree) if isinstance(n, (ast.FunctionDef, ast.ClassDef))} \
        | {n.id for n in ast.walk(tree) if isinstance(n, ast.Name) and isinstance(n.ctx, ast.Store)}
    if word in used:
        return None
    case = {'fname': fname, 'inputs': prog_json['inputs'], 'decisions': prog_json['decisions'], 'recursive': True,
            'late_globals': {}, 'gvar': 'G', 'role': role, 'word': word, 'base': prog_json.get('key', '?')}
    fidx = tree.body.index(fn)
    params = [a.arg for a in fn.args.args]
    locals_ = sorted({n.id for n in ast.walk(fn) if isinstance(n, ast.Name) and isinstance(n.ctx, ast.Store)} - {'G'})
    probe = False
    ok = True
    if role == 'assigned_only':
        ok = _insert(fn, _stmt('%s = %d' % (word, rng.randrange(1, 9))), rng, at_start=rng.random() < 0.3)
    elif role == 'assigned_only_in_loop':
        ok = _insert(fn, _stmt('%s = %d' % (word, rng.randrange(0, 3))), rng, loops_only=True)
    elif role == 'read_only_global':
        tree.body[fidx:fidx] = _stmt('%s = 17' % word)
        ok = _insert(fn, _stmt("tr('ro', %s)" % word), rng)
        probe = True
    elif role == 'parameter':
        if not params:
            return None
        old = params[rng.randrange(len(params))]
        _Rename(old, word).visit(fn)
        probe = True
    elif role == 'local':
        cands = [v for v in locals_ if v not in params and not v.startswith('g')]
        if not cands:
            return None
        old = cands[rng.randrange(len(cands))]
        _Rename(old, word).visit(fn)
        probe = True
    elif role == 'global_var':
        if not any(isinstance(n, ast.Global) and 'G' in n.names for n in ast.walk(fn)):
            fn.body[0:0] = _stmt('global G')
            _insert(fn, _stmt('G = G + 1'), rng)
        _Rename('G', word).visit(tree)
        case['gvar'] = word
        probe = True
    elif role in ('closure_free_var', 'closure_nonlocal'):
        # f becomes a closure: def _mk(): W = 5; def f(...): ...; return f  /  f = _mk()
        if role == 'closure_free_var':
            ok = _insert(fn, _stmt("tr('fv', %s)" % word), rng)
        else:
            fn.body[0:0] = _stmt('nonlocal %s' % word)
            ok = _insert(fn, _stmt("%s = %s + 1" % (word, word)), rng)
        mk = _stmt('def _mk():\n    %s = 5\n    return %s\n%s = _mk()\n' % (word, fname, fname))
        mk[0].body[1:1] = [fn]
        tree.body[fidx:fidx + 1] = mk
        probe = True
    elif role == 'nested_function_called':
        ok = _insert(fn, _stmt("def %s():\n    return tr('nf', 1)\ntr('nfc', %s())" % (word, word)), rng)
    elif role == 'nested_function_uncalled':
        ok = _insert(fn, _stmt("def %s():\n    return tr('nf', 1)" % word), rng)
    elif role == 'loop_target_read':
        ok = _insert(fn, _stmt("for %s in range(2):\n    tr('lt', %s)" % (word, word)), rng)
    elif role == 'loop_target_unread':
        ok = _insert(fn, _stmt("for %s in range(2):\n    tr('lt')" % word), rng)
    elif role == 'loop_var_modified':
        # a variable assigned before a loop/branch, modified inside it and read afterwards (a block variable of the lowered construct)
        ok = _insert(fn, _stmt("%s = 0\nfor kq_i in range(3):\n    if kq_i == 1:\n        %s = %s + kq_i\ntr('lv', %s)" % (word, word, word, word)), rng)
    elif role == 'two_locals_numbered':
        # the word AND its first numbered variant are user variables (read and written): the namer must skip both
        cands = [v for v in locals_ if v not in params]
        w2 = word + '_1'
        if len(cands) < 2 or w2 in used:
            return None
        i1 = rng.randrange(len(cands))
        i2 = (i1 + 1 + rng.randrange(len(cands) - 1)) % len(cands)
        _Rename(cands[i1], word).visit(fn)
        _Rename(cands[i2], w2).visit(fn)
        probe = True
    elif role == 'local_in_nested_def_loop':
        # requests issued inside a nested function: the reserved chain goes through that function's own scope
        ok = _insert(fn, _stmt("def kq_h(kq_p):\n    %s = kq_p\n    for kq_i in range(4):\n        if kq_i > %s:\n            break\n"
                               "        if kq_i == 0:\n            continue\n        %s = %s + 1\n    return %s\ntr('nh', kq_h(1))"
                               % (word, word, word, word, word)), rng)
    elif role == 'attribute_name':
        ok = _insert(fn, _stmt("kq_c = cm(5)\nkq_c.%s = 3\nfor kq_i in range(2):\n    if kq_i > 0:\n        break\n    kq_c.%s += 1\ntr('an', kq_c.%s)"
                               % (word, word, word)), rng)
    elif role == 'keyword_name':
        ok = _insert(fn, _stmt("tr('kw', dict(%s=2)['%s'])" % (word, word)), rng)
    elif role in NESTED_ONLY:
        head, later = NESTED_ONLY[role]
        ok = _insert(fn, _stmt(later.replace('{W}', word)), rng)
        _insert(fn, _stmt(head.replace('{W}', word)), rng, at_start=True)
    elif role.startswith('inner_comp_target_outer_read:'):
        binding = role.split(':')[1]
        position = COMP_POSITIONS[rng.randrange(len(COMP_POSITIONS))]
        kind = COMP_KINDS[rng.randrange(len(COMP_KINDS))]
        inner_kind = ('generator', 'list')[rng.randrange(2)]
        loop = ('for', 'for', 'while')[rng.randrange(3)]
        case['variant'] = '%s/%s/inner-%s/%s' % (position, kind, inner_kind, loop)
        if binding == 'parameter':
            ints = [q for q in params if q in ('a', 'b', 'c')]
            if not ints:
                return None
            _Rename(ints[rng.randrange(len(ints))], word).visit(fn)
        ok = _insert(fn, _stmt(_inner_comp_snippet(word, position, kind, inner_kind, loop)), rng)
        if binding == 'local':
            _insert(fn, _stmt('%s = 3' % word), rng, at_start=True)
        elif binding == 'free':
            tree.body[fidx:fidx] = _stmt('%s = 3' % word)
    elif role in SEPARATED:
        ok = _insert(fn, _stmt(SEPARATED[role].replace('{W}', word)), rng)
    elif role == 'bound_with_star_call':
        # call_trees.py lowers f(a, *r) to (a,) + tuple(r): the builtin is referenced by bare name
        ok = _insert(fn, _stmt("kq_t = (1, 2)\n%s = 3\ntr('sc', %s, *kq_t)" % (word, word)), rng)
    elif role == 'bound_with_keyword_call':
        # ... and f(k=v) to dict(k=v)
        ok = _insert(fn, _stmt("%s = 3\nkq_c = cm(tag=%s)\ntr('kc', kq_c.tag)" % (word, word)), rng)
    elif role == 'parameter_with_star_and_keyword_call':
        if not params:
            return None
        old = params[rng.randrange(len(params))]
        _Rename(old, word).visit(fn)
        ok = _insert(fn, _stmt("kq_t = (1, 2)\nkq_c = cm(tag=7)\ntr('sk', kq_c.tag, *kq_t)"), rng)
        probe = True
    elif role == 'nested_parameter':
        ok = _insert(fn, _stmt("def kq_g(%s):\n    return tr('np', %s)\ntr('npc', kq_g(3))" % (word, word)), rng)
    elif role == 'lambda_parameter':
        ok = _insert(fn, _stmt("tr('lp', (lambda %s: tr('lpi', %s) + 1)(2))" % (word, word)), rng)
    elif role == 'comprehension_target':
        ok = _insert(fn, _stmt("tr('ct', [tr('cti', %s) for %s in (1, 2)])" % (word, word)), rng)
    elif role == 'nonlocal_in_nested':
        ok = _insert(fn, _stmt("%s = 1\ndef kq_n():\n    nonlocal %s\n    %s = %s + 1\n    return %s\ntr('nl', kq_n())"
                               % (word, word, word, word, word)), rng)
    elif role == 'with_target':
        ok = _insert(fn, _stmt("with cm(77) as %s:\n    tr('wt')" % word), rng)
    elif role == 'import_alias':
        ok = _insert(fn, _stmt("import json as %s" % word), rng)
    elif role == 'function_name':
        _Rename(fname, word).visit(tree)
        case['fname'] = word
    elif role == 'late_global':
        ok = _insert(fn, _stmt("tr('lg', %s)" % word), rng)
        case['late_globals'] = {word: 23}
    else:
        raise ValueError(role)
    if not ok:
        return None
    if probe:
        _add_probes(fn, word)
    ast.fix_missing_locations(tree)
    try:
        src = ast.unparse(tree) + '\n'
        compile(src, '<c11>', 'exec')
    except (SyntaxError, ValueError):
        return None
    case['source'] = src
    case['probed'] = probe
    return case


LAMBDA_TEMPLATES = {
    'lambda_entity:parameter': ("f = lambda {W}, b, c: tr(1, {W}) + tr(2, b)\n", False),
    'lambda_entity:read_only_global': ("{W} = 17\nf = lambda a, b, c: tr(1, {W}) + a\n", False),
    'lambda_entity:nested_lambda_parameter': ("f = lambda a, b, c: (lambda {W}: tr(1, {W}) + 1)(a)\n", False),
    'lambda_entity:comprehension_target': ("f = lambda a, b, c: [tr(1, {W}) for {W} in (a, b)]\n", False),
    'lambda_entity:late_global': ("f = lambda a, b, c: tr(1, {W}) + a\n", True),
}


LISTS_TEMPLATES = {
    # ListTransformer._replace_pop_call (only with Feature.LISTS): the root is the user's own list variable name / 'list_'
    'lists_pop:list_variable': "def f(a, b, c):\n    {W} = [a, b, c]\n    x = {W}.pop()\n    return tr(1, x, {W})\n",
    'lists_pop:other_variable_read': "def f(a, b, c):\n    {W} = 7\n    kq_l = [a, b, c]\n    x = kq_l.pop()\n    y = [a, b][0:2].pop()\n    return tr(1, x, y, kq_l, {W})\n",
    'lists_pop:other_variable_assigned_only': "def f(a, b, c):\n    {W} = 7\n    kq_l = [a, b, c]\n    x = kq_l.pop()\n    y = [a, b][0:2].pop()\n    return tr(1, x, y, kq_l)\n",
}


def make_lists_case(prelude, kind, word):
    return {'source': prelude + LISTS_TEMPLATES[kind].replace('{W}', word), 'fname': 'f', 'inputs': [[1, 2, 3], [0, -1, 5]],
            'decisions': [[]], 'recursive': False, 'features': 'LISTS', 'late_globals': {}, 'gvar': 'G', 'role': kind, 'word': word,
            'base': 'lists', 'probed': False}


def make_lambda_case(prelude, kind, word):
    """The entity converted is a lambda (`get_transformed_name` = ag__lam, FunctionTransformer.visit_Lambda asks for `lscope`)."""
    tmpl, late = LAMBDA_TEMPLATES[kind]
    return {'source': prelude + tmpl.replace('{W}', word), 'fname': 'f', 'inputs': [[1, 2, 3], [0, -1, 5]], 'decisions': [[]],
            'recursive': True, 'late_globals': ({word: 23} if late else {}), 'gvar': 'G', 'role': kind, 'word': word,
            'base': 'lambda', 'probed': False}


# =================================================================================================
# evaluation of one case against the real code
# =================================================================================================
class _Timeout(Exception):
    pass


def _alarm(signum, frame):
    raise _Timeout()


def _run(mod, fn, args, decisions, gvar):
    mod.LOG[:] = []
    mod.DEC[:] = list(decisions)
    if gvar and hasattr(mod, gvar) and isinstance(getattr(mod, gvar), int):
        setattr(mod, gvar, 0)
    old = signal.signal(signal.SIGVTALRM, _alarm)
    signal.setitimer(signal.ITIMER_VIRTUAL, 4.0)
    try:
        r = fn(*[list(a) if isinstance(a, list) else a for a in args])
        out = ('ret', mod._freeze(r))
    except _Timeout:
        out = ('exc', 'TIMEOUT')
    except RecursionError:
        out = ('exc', 'RecursionError')
    except Exception as e:  # noqa
        out = ('exc', 'NameError' if isinstance(e, NameError) else type(e).__name__)
    finally:
        signal.setitimer(signal.ITIMER_VIRTUAL, 0)
        signal.signal(signal.SIGVTALRM, old)
    g = getattr(mod, gvar, None) if gvar else None
    if not isinstance(g, (int, type(None))):
        g = type(g).__name__
    return out, list(mod.LOG), g


def eval_case(ws, case, max_runs=12):
    """Convert case['fname'] of the case's module with the REAL code and compare with the original.
    Returns a dict with: symbols [(root, reserved, result, site_file, site_func)], namespace, body_referenced (real
    BODY_SCOPE.referenced at the first pass, simple names), convert_error, mismatches, runs."""
    import passes, progen
    from malt.pyct import naming
    res = {'symbols': [], 'namespace': [], 'convert_error': None, 'mismatches': [], 'runs': 0, 'body_referenced': None,
           'load_error': None, 'final_source': None}
    prog = progen.Program(case['source'], [tuple(i) for i in case['inputs']], [], 'c11', case['decisions'])
    try:
        mod = ws.load(prog)
    except Exception as e:      # the variant itself is not a runnable module: not a case
        res['load_error'] = '%s: %s' % (type(e).__name__, e)
        return res
    try:
        fn = getattr(mod, case['fname'])
        sites = []
        orig = naming.Namer.new_symbol

        namers = []

        def spy(self, name_root, reserved_locals):
            f = sys._getframe(2)     # [spy] <- passes' recorder <- the call site
            sites.append((os.path.basename(f.f_code.co_filename), f.f_code.co_name))
            if not any(n is self for n in namers):
                namers.append(self)
            return orig(self, name_root, reserved_locals)
        naming.Namer.new_symbol = spy
        try:
            feats = None
            if case.get('features'):
                from malt.core import converter
                feats = getattr(converter.Feature, case['features'])
            tr = passes.trace_conversion(fn, passes.make_options(recursive=bool(case.get('recursive', True)), features=feats))
        finally:
            naming.Namer.new_symbol = orig
        res['namespace'] = list(tr.namespace)
        res['namers'] = len(namers)
        res['generated_final'] = sorted(namers[0].generated_names) if len(namers) == 1 else None
        for k, (root, reserved, result) in enumerate(tr.new_symbols):
            sf = sites[k] if k < len(sites) else ('?', '?')
            res['symbols'].append([root, list(reserved), result, sf[0], sf[1]])
        if tr.passes and isinstance(tr.passes[0].before_annos, list):
            is_lambda = getattr(fn, '__name__', '') == '<lambda>'
            cands = [a for a in tr.passes[0].before_annos if a[1] == ('SCOPE' if is_lambda else 'BODY_SCOPE')]
            if cands:
                a = min(cands, key=lambda a: a[0])
                for part in a[2][1:]:
                    if part and part[0] == 'referenced':
                        res['body_referenced'] = [q for q in part[1:] if q.isidentifier()]
        res['final_source'] = tr.final_source
        res['block_var_roots'] = block_var_roots(tr.final_source)
        if tr.error is not None:
            res['convert_error'] = '%s: %s' % (type(tr.error).__name__, str(tr.error)[:300])
            return res
        conv = tr.converted
        for k, v in (case.get('late_globals') or {}).items():
            setattr(mod, k, v)
        n = 0
        for args in case['inputs']:
            for dec in case['decisions']:
                if n >= max_runs:
                    break
                n += 1
                o = _run(mod, fn, args, dec, case.get('gvar'))
                c = _run(mod, conv, args, dec, case.get('gvar'))
                if o != c:
                    what = 'outcome' if o[0] != c[0] else ('log' if o[1] != c[1] else 'global')
                    on_probe = False
                    if what == 'log':
                        for a, b in zip(o[1], c[1]):
                            if a != b:
                                on_probe = (len(a) > 1 and a[1] == 'probe') or (len(b) > 1 and b[1] == 'probe')
                                break
                    res['mismatches'].append({'args': list(args), 'decisions': list(dec), 'what': what, 'probe': on_probe,
                                              'original': [list(o[0]), o[1][-6:], o[2]], 'converted': [list(c[0]), c[1][-6:], c[2]]})
                    if len(res['mismatches']) >= 2:
                        break
            if len(res['mismatches']) >= 2:
                break
        res['runs'] = n
    finally:
        ws.unload(mod)
    return res


def _visible_in(U):
    """Identifiers visible in the scope of function node U: every identifier of its own text (lambda / comprehension
    internals included), the names of the functions / classes it defines and the FREE names of those (not their locals)."""
    out = set(a.arg for a in U.args.posonlyargs + U.args.args + U.args.kwonlyargs)
    for a in (U.args.vararg, U.args.kwarg):
        if a is not None:
            out.add(a.arg)

    def rec(n):
        for ch in ast.iter_child_nodes(n):
            if isinstance(ch, (ast.FunctionDef, ast.AsyncFunctionDef)):
                out.add(ch.name)
                for d in ch.decorator_list + ch.args.defaults + [k for k in ch.args.kw_defaults if k is not None]:
                    wrap = ast.Expr(d)
                    rec(wrap)
                v = _Facts()
                sc = v._function(copy.deepcopy(ch), False)
                out.update(sc.read - (sc.bound - sc.nonlocals - sc.globals))
                continue
            if isinstance(ch, ast.Name):
                out.add(ch.id)
            elif isinstance(ch, ast.arg):
                out.add(ch.arg)
            elif isinstance(ch, ast.ClassDef):
                out.add(ch.name)
            elif isinstance(ch, (ast.Global, ast.Nonlocal)):
                out.update(ch.names)
            elif isinstance(ch, ast.alias):
                out.add((ch.asname or ch.name).split('.')[0])
            rec(ch)
    for st in U.body:
        rec(ast.Module(body=[st], type_ignores=[]))
    return out


def _user_defs(fn):
    """path (tuple of def names below the converted function) -> FunctionDef, for paths that are unique."""
    out, dup = {}, set()

    def rec(n, path):
        for ch in ast.iter_child_nodes(n):
            if isinstance(ch, (ast.FunctionDef, ast.AsyncFunctionDef)):
                p = path + (ch.name,)
                if p in out:
                    dup.add(p)
                out[p] = ch
                rec(ch, p)
            else:
                rec(ch, path)
    rec(fn, ())
    return {p: n for p, n in out.items() if not any(p[:k] in dup for k in range(1, len(p) + 1))}


def _conv_counts(final_source, source, fname):
    """{path of user defs: Counter of identifier occurrences} in the converted code; occurrences inside a nested USER def
    count for that def, occurrences inside generated helper functions count for the user function they were generated in."""
    import collections
    try:
        ctree, otree = ast.parse(final_source), ast.parse(source)
    except SyntaxError:
        return None
    ctop = next((n for n in ctree.body if isinstance(n, ast.FunctionDef)), None)
    fn, _ = _find_function(otree, fname)
    if ctop is None or fn is None or not isinstance(fn, ast.FunctionDef):
        return None
    odefs = _user_defs(fn)
    counts = {}

    def rec(n, path):
        for ch in ast.iter_child_nodes(n):
            c = counts.setdefault(path, collections.Counter())
            if isinstance(ch, (ast.FunctionDef, ast.AsyncFunctionDef)):
                c[ch.name] += 1
                rec(ch, path + (ch.name,) if path + (ch.name,) in odefs else path)
                continue
            if isinstance(ch, ast.Name):
                c[ch.id] += 1
            elif isinstance(ch, ast.arg):
                c[ch.arg] += 1
            elif isinstance(ch, (ast.Global, ast.Nonlocal)):
                for x in ch.names:
                    c[x] += 1
            rec(ch, path)
    rec(ctop, ())
    return counts, odefs, fn


def use_site_clashes(ctrl_case, ctrl_r, case, r):
    """Oracle (iv): each generated name must be fresh w.r.t. the identifiers visible IN THE SCOPE WHERE IT IS USED.

    The control variant differs from the adversarial one only by the word (NEUTRAL vs W), so inside every user function U
    the converted code of the control contains exactly the occurrences of NEUTRAL that stem from the user's own uses of the
    word (however often the converter duplicates them - that does not depend on the spelling).  If the converted
    adversarial code has MORE occurrences of W inside U than the control has of NEUTRAL, generated code uses W in U; that is
    a clash when W is visible in the original U.  Counting is insensitive to the converter's name-sorted orderings.
    Returns [[path, name, facts of U]]; None when the two conversions cannot be compared."""
    if not ctrl_r.get('final_source') or not r.get('final_source'):
        return []
    word = case.get('word')
    a = _conv_counts(r['final_source'], case['source'], case['fname'])
    c = _conv_counts(ctrl_r['final_source'], ctrl_case['source'], ctrl_case['fname'])
    if a is None or c is None:
        return None
    acounts, aodefs, afn = a
    ccounts = c[0]
    out = []
    pairs = [(word, NEUTRAL), (word + '_1', NEUTRAL + '_1')]

    def ctrl_path(path):
        return tuple(NEUTRAL if x == word else (NEUTRAL + '_1' if x == word + '_1' else x) for x in path)
    for path, cnt in sorted(acounts.items()):
        U = afn if not path else aodefs.get(path)
        if U is None:
            continue
        cc = ccounts.get(ctrl_path(path))
        if cc is None:
            return None
        vis = None
        for w, n in pairs:
            if cnt.get(w, 0) > cc.get(n, 0):
                if vis is None:
                    vis = _visible_in(U)
                if w in vis:
                    v = _Facts()
                    sc = v._function(copy.deepcopy(U), False)
                    star, kw = call_shapes(U)
                    fu = {'name': U.name, 'bound': sorted(v.bound_all), 'read': sorted(sc.read), 'readLocal': sorted(v.read_any - sc.read),
                          'free': sorted(sc.read - (sc.bound - sc.nonlocals - sc.globals)), 'idents': sorted(v.idents), 'starCalls': star, 'kwCalls': kw,
                          'nestedDefOnly': sorted(x for x in (v.read_any - sc.read) if v.nested_kinds.get(x) and v.nested_kinds[x] <= {'function'})}
                    out.append(['/'.join(path) or '<top>', w, fu])
    return out


def variable_idents(source, fname):
    return user_fn_facts(source, fname)['idents']
